"""C20  External-process runs equal in-process runs; process death is never success.

Parent and child of the external-optimizer plug-in are real ropt code running as two
baton-passing threads on the simulated kernel (FIFOs, select, signals, virtual time, seeded
scheduling).  Runs come in groups sharing a scenario: member 0 compares the fault-free
external run with the in-process run byte for byte; the other members sweep fault points
taken from the baseline: the child killed at its s-th system call, the child's optimizer
raising or exiting non-zero at request q, the evaluator raising or aborting at call m,
max_functions, short writes, one-page pipes, stalls, failing spawn."""
from __future__ import annotations

import copy
import os
import random

import numpy as np

from ropt.enums import OptimizerExitCode

from sim import gen, harness, kernel as K, model, oracles
from sim.seeds import H, run_seed

PROP = "C20"
LEVEL = "fault_enumeration"
COUNT = {"quick": 720, "thorough": None}
BUDGET = {"quick": 55, "thorough": 900}
CHUNK = 720
GROUP = 12
DETERMINISM = {"quick": 24, "thorough": 120}
RULE = (
    'Groups with number%10==6 (4 members): one EnsembleOptimizer object with an external/scripted back-end started three times, one evaluation failing for every realization, compared with the in-process twin. '
    "groups of 12 runs share a scenario (back-end in the child: scripted 55%, real slsqp / l-bfgs-b / cobyla / nelder-mead / "
    "differential_evolution 45%; constraints, masks, NaN failures; per-run seeded scheduler, syscall cost per process 2-50 ms, "
    "evaluation time 0-2 s). Member 0: fault-free external run vs in-process run. Members 1-4: child killed at system call "
    "(j-1)*S/4 + offset of the baseline's S child system calls (a sweep: before the first request, between request and answer, "
    "while the parent evaluates, after the last answer). Members 5-11: child optimizer raises / exits non-zero at request q, "
    "evaluator raises / aborts at call m, max_functions, stall of 5-40 s in either process, spawn failure, and the two-fault case 'child dies while the parent evaluates and that evaluation raises'; every 4th group is the "
    "large-message stratum (300-500 variables, messages above PIPE_BUF) where members 9-11 use a one-page pipe or an injected short "
    "write. Non-trivial = an external run in which at least one message pair was exchanged and its oracle ran; distinct = (back-end, "
    "scenario key, fault kind, fault point, outcome)."
)
ASSUMPTIONS = [
    "the kernel stub implements Linux FIFO semantics as probed on this sandbox (ENXIO/EPIPE/EAGAIN, short writes above PIPE_BUF, select thresholds, readline on a non-blocking pipe dropping an incomplete line when the file object is closed); see selftest/kernel_conformance.py",
    "SIGTERM/SIGKILL terminate the target at its next system call; its descriptors are closed by the kernel at that moment",
    "byte-identical traces are demanded with the scripted back-end in the child; with a real SciPy algorithm in the child traces are compared structurally and numerically (rtol 1e-6), because SciPy itself is not bit-reproducible between call contexts (measured)",
    "liveness bound: the step must end within 60 s + 2 s per exchanged message of simulated time after the last fault",
    "one-page pipes (what Linux hands out past the per-user soft pipe quota) are reported as their own fault kind and are never used in the fault-free equality clause",
]
COMPONENTS = {
    "real": ["ExternalOptimizer.start/_handle_request", "_PluginOptimizer.run/_request/_callback", "_JSONPipeCommunicator", "EnsembleOptimizer", "SciPy plug-in + scipy.optimize in the child (45%)", "config dump -> JSON -> re-validation"],
    "stub": ["SimKernel (FIFOs, selector, process table, signals, clock, scheduler)", "sim/scripted optimizer in the child (55%)", "SimEvaluator"],
}
PROBES = ["optimizer_object_restarted", "restart_after_failed_start", "evaluator_interrupts", "numpy_array_option", "numpy_scalar_option", "config_with_path_field", "explicit_start_point", "delimiter_straddles_boundary", "kill_right_after_message", "evaluator_raised_with_dead_child", "equality_compared", "kill_child", "kill_while_parent_evaluating", "child_raises", "child_exits_nonzero", "evaluator_raises",
          "evaluator_aborts", "max_functions", "stall", "spawn_fails", "small_pipe", "short_write", "large_message_runs",
          "messages_exchanged", "child_dead_checked", "real_scipy_child", "simulated_seconds"]
REAL = ["slsqp", "l-bfgs-b", "cobyla", "nelder-mead", "differential_evolution"]


def _group_scenario(gseed: int, large: bool) -> dict:
    rng = random.Random(gseed)
    backend = "scripted" if (large or rng.random() < 0.55) else rng.choice(REAL)
    nv = rng.randint(300, 500) if large else None
    scn = gen.base_scenario(
        rng, PROP, nv=nv, nv_max=3, nr_max=(1 if large else 3), no_max=(1 if large else 2),
        nc_max=(0 if large or backend in ("l-bfgs-b", "nelder-mead") else 2), npert_max=(1 if large else 3),
        world_kind=("affine" if large else "quadratic"), linear=False, transforms=False, filters=(False if large else None),
        stddev=(False if large else None), mask=(False if large else None),
        bounds_style=("finite" if backend == "differential_evolution" else ("none" if backend == "cobyla" or large else None)),
        script_len=(rng.randint(1, 2) if large else rng.randint(1, 5)), inject_p=(0.0 if large else 0.5), merge=False, step="optimizer",
        ops=(("f",) if large else ("f", "g", "fg")),
    )
    cfg = scn["configs"][0]
    if large:
        cfg["gradient"]["perturbation_magnitudes"] = 0.01
        cfg["gradient"]["boundary_types"] = 1
        for e in cfg["optimizer"]["options"]["script"]:
            e.pop("batch", None)
            e["pts"] = [-1]
        cfg["optimizer"]["options"]["points"] = []
    if backend != "scripted":
        opt = {"method": backend, "tolerance": 1e-3}
        if backend == "differential_evolution":
            opt["options"] = {"maxiter": 1, "popsize": 2, "seed": rng.randint(1, 999), "tol": 0.5}
            if rng.random() < 0.5:
                opt["parallel"] = True
        else:
            opt["options"] = {"maxiter": rng.randint(1, 3)}
            if rng.random() < 0.3:
                # an option value computed with NumPy (np.int64): works in-process, has to cross the pipe too
                opt["options"]["maxiter"] = {"__np__": "int64", "value": opt["options"]["maxiter"]}
                scn["numpy_scalar_option"] = True
        cfg["optimizer"] = opt
        if backend == "cobyla" and cfg.get("nonlinear_constraints"):
            nl = cfg["nonlinear_constraints"]
            for j in range(len(nl["lower_bounds"])):
                if nl["lower_bounds"][j] == nl["upper_bounds"][j]:
                    nl["upper_bounds"][j] = gen.INF
    if rng.random() < 0.2 and not large:
        gen.add_nan_faults(rng, scn, rate=1.0, max_faults=2)
    if not large and backend in ("scripted", "differential_evolution") and rng.random() < 0.25:
        # threshold 0 with a NaN-tolerant method: an evaluation in which everything fails must not stop the run,
        # in-process and through the external process alike
        cfg["realizations"]["realization_min_success"] = 0
        if backend == "scripted":
            cfg["optimizer"]["options"]["allow_nan"] = True
        # (filters and the stddev estimator have their own reasons to stop at such an evaluation: leave them out)
        for key in ("realization_filters", "function_estimators"):
            cfg.pop(key, None)
            cfg["objectives"].pop(key, None)
            if cfg.get("nonlinear_constraints"):
                cfg["nonlinear_constraints"].pop(key, None)
        scn["faults"].append({"kind": "nan", "eval": rng.randrange(0, 3), "real": None, "pert": None, "col": None})
    if not large and rng.random() < 0.35:
        # the step is started from an explicit point (a restart), not from the configured initial values
        nvv = len(scn["world"]["var_ids"])
        lb = cfg["variables"].get("lower_bounds", [-gen.INF] * nvv)
        ub = cfg["variables"].get("upper_bounds", [gen.INF] * nvv)
        scn["plan"]["steps"][0]["variables"] = [float(v) for v in gen.gen_point_inside(rng, lb, ub)]
        if backend == "scripted":
            cfg["optimizer"]["options"]["script"][0]["pts"][0] = -1
        scn["explicit_start"] = True
    if backend == "scripted" and rng.random() < 0.15:
        # an option whose value is a NumPy array (TNC's scale, Nelder-Mead's initial_simplex, ...): type and shape have
        # to survive the way into the optimizer process
        dtype, shape = rng.choice([("float64", [3]), ("float64", [2, 2]), ("float32", [2]), ("float64", [0, 3]), ("int64", [2])])
        n = 1
        for d in shape:
            n *= d
        cfg["optimizer"]["options"]["array_option"] = {"__np__": "array", "dtype": dtype, "shape": shape,
                                                       "value": [float(i + 1) if dtype.startswith("float") else i + 1 for i in range(n)]}
        cfg["optimizer"]["options"]["array_option_meta"] = {"dtype": dtype, "shape": shape}
        scn["numpy_array_option"] = True
    if backend == "scripted" and rng.random() < 0.2:
        # a configuration field that is not a JSON type (a path); the directory is never written to by these runs
        cfg["optimizer"]["output_dir"] = "/tmp/ropt-sim-output"
        scn["with_output_dir"] = True
    scn["backend"] = backend
    scn["large"] = large
    scn["kseed"] = rng.getrandbits(32)
    scn["costs"] = [rng.choice([2e-3, 1e-2, 5e-2]), rng.choice([2e-3, 1e-2, 5e-2])]
    scn["eval_time"] = rng.choice([0.0, 0.05, 0.5, 2.0])
    return scn


def generate(seed: int, index: int, tier: str) -> dict:
    batch = int(os.environ.get("VERIF_SEED", "0"))
    group = index // GROUP
    if group % 10 == 6 and index % GROUP < 4:
        # one EnsembleOptimizer object with an external/<method> back-end started three times; in one of the starts an
        # evaluation fails for every realization (that start ends with TOO_FEW_REALIZATIONS): each start is a run of
        # its own, like with the in-process back-end
        for salt in range(50):
            scn = _group_scenario(run_seed(batch, PROP + f"-restart{salt}", group), large=False)
            if scn["backend"] == "scripted":
                break
        cfg = scn["configs"][0]
        cfg["realizations"]["realization_min_success"] = 1
        cfg["optimizer"].get("options", {}).pop("allow_nan", None)
        scn["faults"] = []
        scn["fault"] = None
        scn["starts"] = [[float(v) for v in cfg["variables"]["initial_values"]]] * 3
        scn["entry"] = "optimizer_object_restarts"
        scn["fail_call"] = index % GROUP
        scn["member"] = 0
        scn["stratum"] = "optimizer-object-restarted"
        return scn
    scn = _group_scenario(run_seed(batch, PROP + "-group", group), large=(group % 4 == 3))
    scn["member"] = index % GROUP
    scn["stratum"] = ("large/" if scn["large"] else "") + scn["backend"]
    return scn


# ---------------------------------------------------------------------------
def _externalize(scn: dict) -> dict:
    ext = copy.deepcopy(scn)
    m = ext["configs"][0]["optimizer"]["method"]
    ext["configs"][0]["optimizer"]["method"] = "external/" + m
    return ext


def run_external(scn: dict, kfaults: list[dict], capacity: int = 65536, kseed: int | None = None, linger: float = 30.0):
    """Run the scenario through external/<method> on the simulated kernel."""
    ext = _externalize(scn)
    k = K.SimKernel(scn["kseed"] if kseed is None else kseed, capacity=capacity, faults=copy.deepcopy(kfaults),
                    cost_parent=scn["costs"][0], cost_child=scn["costs"][1])
    undo = K.install(k)
    holder: dict = {}

    def setup(ctx):
        holder["ctx"] = ctx
        if scn["eval_time"] > 0:
            ctx.evaluator.pre_hooks.append(lambda ev, kk: k.advance(scn["eval_time"]))
        ctx.evaluator.pre_hooks.append(lambda ev, kk: holder.setdefault("child_syscalls_at_eval", []).append(
            next((p.syscalls for p in k.procs.values() if p.name == "child"), 0)))

    def body():
        ctx = harness.run_scenario(ext, setup=setup)
        me = k.me()
        child = next((p for p in k.procs.values() if p.name == "child"), None)
        holder["step_end_time"] = me.now if me else None
        holder["child_at_step_end"] = None if child is None else {"dead": child.dead, "signalled": child.pending_signal is not None}
        # the parent process lives on (other plan steps would follow); nothing may be left running
        k.advance(linger)
        holder["child_after_linger"] = None if child is None else {"dead": child.dead}
        return ctx

    parent = k.spawn("parent", body)
    try:
        k.run()
    finally:
        undo()
        k.shutdown()
    return k, parent, holder


def _tune_initial_values(fs: dict, capacity: int, j: int) -> None:
    """Add digits to the initial values until the JSON text of the 'initial_values' answer ends j bytes before a
    multiple of the pipe capacity: the delimiter that follows is then cut in two by a partial transfer."""
    import json as _json

    x0 = list(fs["configs"][0]["variables"]["initial_values"])
    target = (capacity - j) % capacity

    def length(vals):
        return len(_json.dumps([float(v) for v in vals])) + 1  # + the newline in front of the delimiter

    cur = length(x0) % capacity
    need = (target - cur) % capacity
    i = 0
    while need > 0 and i < len(x0):
        add = min(need, 9)
        # appending digits 1..9 after the 3 decimals keeps the value inside its neighbourhood and its repr exact
        txt = f"{x0[i]:.3f}" + "1" * add
        new = float(txt)
        grown = len(repr(new)) - len(repr(float(x0[i])))
        if 0 < grown <= need:
            x0[i] = new
            need -= grown
        i += 1
    fs["configs"][0]["variables"]["initial_values"] = x0
    fs["straddle_residue"] = need


def _outcome(ctx) -> tuple:
    ex = ctx.exits[0] if ctx is not None and ctx.exits else None
    return ex


def _execute_restarts(scn: dict) -> dict:
    viol: list[dict] = []
    probes = {"optimizer_object_restarted": 1}
    base = copy.deepcopy(scn)
    ref0 = harness.run_scenario(copy.deepcopy(base))
    ncalls = len(ref0.evaluator.calls)
    if ncalls:
        base["faults"] = [{"kind": "nan", "eval": scn["fail_call"] % ncalls, "real": None, "pert": None, "col": None}]
    inproc = harness.run_scenario(copy.deepcopy(base))
    k, parent, holder = run_external(base, [])
    ext = holder.get("ctx")
    if parent.exc is not None if hasattr(parent, "exc") else False:
        raise RuntimeError(f"external restart scenario raised in the simulated parent: {parent.exc!r}")
    compared = 0
    if ext is not None:
        compared = 1
        if any(e[0] == "ret" and e[2] == int(OptimizerExitCode.TOO_FEW_REALIZATIONS) for e in inproc.exits):
            probes["restart_after_failed_start"] = 1
        a = [tuple(e) for e in inproc.exits]
        b = [tuple(e) for e in ext.exits]
        ca = [(c.kind, c.variables.tobytes()) for c in inproc.evaluator.calls]
        cb = [(c.kind, c.variables.tobytes()) for c in ext.evaluator.calls]
        if a != b or ca != cb:
            viol.append({"clause": "external-run-differs-from-in-process", "sig": {"fault": "none", "backend": "restart"},
                         "detail": f"one optimizer object started {len(scn['starts'])} times, evaluation {base['faults'][0]['eval'] if base.get('faults') else None} "
                                   f"failing for every realization: in-process starts ended {a} after {len(ca)} evaluator calls, "
                                   f"external starts ended {b} after {len(cb)} evaluator calls"})
        child_alive = [p for p in k.procs.values() if p.name == "child" and not p.dead]
        if child_alive:
            viol.append({"clause": "child-left-running", "sig": {"entry": "restart"}, "detail": f"{len(child_alive)} optimizer process(es) alive after the last start"})
    return {
        "violations": _dedupe(viol),
        "nontrivial": compared > 0 and len(inproc.exits) >= 2,
        "key": oracles.scenario_key(scn, ("restart", scn["fail_call"])),
        "probes": probes,
        "fired": dict(inproc.evaluator.fired),
        "digest": harness.trace_digest(inproc) + (harness.trace_digest(ext) if ext is not None else ""),
        "evals": len(inproc.evaluator.calls),
        "events": 0,
        "stratum": scn.get("stratum"),
        "summary": {"inproc": [list(e) for e in inproc.exits], "external": None if ext is None else [list(e) for e in ext.exits]},
    }


def execute(scn: dict) -> dict:
    if scn.get("entry") == "optimizer_object_restarts":
        return _execute_restarts(scn)
    viol: list[dict] = []
    probes: dict[str, int] = {}

    def probe(name, n=1):
        probes[name] = probes.get(name, 0) + n

    backend = scn["backend"]
    member = scn.get("member", 0)
    if backend != "scripted":
        probe("real_scipy_child")
    if scn["large"]:
        probe("large_message_runs")
    # baseline external run (fault free): gives S, Q, M
    kb, pb, hb = run_external(scn, [])
    base_ctx = hb.get("ctx")
    child_b = next((p for p in kb.procs.values() if p.name == "child"), None)
    S = child_b.syscalls if child_b else 0
    M = len(base_ctx.evaluator.calls) if base_ctx else 0
    Q = len([b for b in base_ctx.backend_log if b.get("ev") == "request"]) if base_ctx and backend == "scripted" else M
    fault = scn.get("fault")
    frng = random.Random(H(scn["kseed"], member))
    if fault is None and member > 0:
        child_writes = [n for (name, n) in kb.write_log if name == "child"]
        if member in (2, 4) and child_writes:
            # "killed after each possible number of exchanged messages": right after its k-th message left
            kmsg = (scn["kseed"] // 7 + member) % len(child_writes)
            at = child_writes[kmsg] + frng.randint(1, 3)
            fault = {"kind": "kill_child", "at": at, "sig": frng.choice([9, 15, 15, 11]), "after_message": kmsg + 1}
        elif 1 <= member <= 4:
            at = max(1, min(S, ((member - 1) * S) // 4 + frng.randrange(1, max(2, S // 4))))
            # killed from outside: SIGKILL (OOM killer), SIGTERM (batch scheduler, container stop), SIGSEGV
            fault = {"kind": "kill_child", "at": at, "sig": frng.choice([9, 15, 15, 11])}
        elif member == 5:
            fault = {"kind": "child_raises", "q": frng.randrange(0, max(1, Q))} if backend == "scripted" else {"kind": "kill_child", "at": frng.randrange(1, max(2, S))}
        elif member == 6:
            fault = {"kind": "child_exits_nonzero", "q": frng.randrange(0, max(1, Q))} if backend == "scripted" else {"kind": "kill_child", "at": frng.randrange(1, max(2, S))}
        elif member == 7:
            # the user's evaluator raises: an ordinary exception, or one that is not an Exception (Ctrl-C in the evaluator)
            fault = {"kind": "evaluator_raises", "m": frng.randrange(0, max(1, M)), "interrupt": frng.random() < 0.5}
        elif member == 8:
            fault = {"kind": "evaluator_aborts", "m": frng.randrange(0, max(1, M))}
        elif member == 9:
            if scn["large"]:
                fault = {"kind": "small_pipe", "capacity": frng.choice([4096, 8192])}
                if fault["capacity"] == 4096 or frng.random() < 0.5:
                    # the message length is tuned so that its end-of-message delimiter is cut by a pipe-buffer boundary
                    fault = {"kind": "small_pipe", "capacity": 4096, "straddle": frng.randint(1, 10)}
            else:
                fault = {"kind": "max_functions", "value": frng.randint(1, max(1, M))}
        elif member == 10:
            fault = {"kind": "short_write", "fraction": frng.choice([0.3, 0.6, 0.9]), "proc": frng.choice(["parent", "child"])} if scn["large"] else \
                {"kind": "stall", "proc": frng.choice(["parent", "child"]), "at": frng.randrange(1, max(2, S if frng.random() < 0.5 else 50)), "duration": frng.choice([5.0, 15.0, 40.0])}
        else:
            evs = hb.get("child_syscalls_at_eval") or []
            c = frng.random()
            if scn["large"] and c < 0.5:
                fault = {"kind": "small_pipe", "capacity": 4096}
            elif evs and c < 0.75:
                # two faults lining up: the child dies while the parent evaluates, and that evaluation raises
                m = frng.randrange(len(evs))
                fault = {"kind": "evaluator_raises_after_child_died", "m": m, "at": evs[m] + frng.randint(1, 3)}
            else:
                fault = {"kind": "spawn_fails"}
    # ---- build the faulted scenario ----------------------------------------------------------
    fs = copy.deepcopy(scn)
    kfaults: list[dict] = []
    capacity = 65536
    child_fault = False
    env_fault = False
    if fault is not None:
        kind = fault["kind"]
        probe(kind)
        if kind == "kill_child":
            if fault.get("after_message"):
                probe("kill_right_after_message")
            kfaults.append({"kind": "kill_child", "at": fault["at"], "sig": fault.get("sig", 9)})
            child_fault = True
        elif kind == "child_raises":
            fs["configs"][0]["optimizer"]["options"]["raise_at"] = fault["q"]
            child_fault = True
        elif kind == "child_exits_nonzero":
            fs["configs"][0]["optimizer"]["options"]["exit_at"] = fault["q"]
            child_fault = True
        elif kind == "evaluator_raises":
            fs["faults"] = list(fs.get("faults", [])) + [{"kind": ("interrupt" if fault.get("interrupt") else "raise"), "eval": fault["m"]}]
            if fault.get("interrupt"):
                probe("evaluator_interrupts")
        elif kind == "evaluator_raises_after_child_died":
            fs["faults"] = list(fs.get("faults", [])) + [{"kind": "raise", "eval": fault["m"]}]
            kfaults.append({"kind": "kill_child", "at": fault["at"]})
        elif kind == "evaluator_aborts":
            fs["faults"] = list(fs.get("faults", [])) + [{"kind": "abort", "eval": fault["m"]}]
        elif kind == "max_functions":
            fs["configs"][0]["optimizer"]["max_functions"] = fault["value"]
        elif kind == "stall":
            kfaults.append({"kind": "stall", "proc": fault["proc"], "at": fault["at"], "duration": fault["duration"]})
        elif kind == "spawn_fails":
            kfaults.append({"kind": "spawn_fails"})
        elif kind == "small_pipe":
            capacity = fault["capacity"]
            env_fault = True
            if fault.get("straddle"):
                _tune_initial_values(fs, capacity, fault["straddle"])
                probe("delimiter_straddles_boundary")
        elif kind == "short_write":
            kfaults.append({"kind": "short_write", "fraction": fault["fraction"], "proc": fault["proc"]})
            env_fault = True
    if fault is None:
        k, parent, h = kb, pb, hb
    else:
        k, parent, h = run_external(fs, kfaults, capacity=capacity)
    ctx = h.get("ctx")
    child = next((p for p in k.procs.values() if p.name == "child"), None)
    ex = _outcome(ctx)
    if parent.exception is not None and not isinstance(parent.exception, K.ProcessKilled):
        ex = ("exception", 0, f"{type(parent.exception).__name__}: {parent.exception}")
    probe("messages_exchanged", k.messages)
    probe("simulated_seconds", int(k.clock))
    outcome = "hang" if k.hang else (ex[0] + ":" + str(ex[2]).split(":")[0] if ex else "none")
    sig_fault = fault["kind"] if fault else "none"
    # ---- liveness ------------------------------------------------------------------------------
    if k.hang:
        viol.append({"clause": "run-hangs", "sig": {"fault": sig_fault},
                     "detail": f"fault {fault}: parent and child still polling after {k.clock:.0f} simulated seconds / {k.steps} steps "
                               f"(fired {k.fired}, {len(scn['world']['var_ids'])} variables, pipe capacity {capacity})"})
    else:
        end = h.get("step_end_time")
        if end is not None and kfaults and k.fired:
            bound = 60.0 + 2.0 * max(k.messages, 1)
            if end - k.last_fault_time > bound + (fault.get("duration", 0) if fault else 0):
                viol.append({"clause": "late-termination-after-fault", "sig": {"fault": sig_fault},
                             "detail": f"step ended {end - k.last_fault_time:.1f} simulated seconds after the last fault (bound {bound:.0f})"})
        # ---- no optimizer process left running --------------------------------------------------
        st = h.get("child_at_step_end")
        if st is not None:
            probe("child_dead_checked")
            if not (st["dead"] or st["signalled"]):
                viol.append({"clause": "child-left-running-at-step-end", "sig": {"fault": sig_fault},
                             "detail": f"fault {fault}: when run_step ended ({ex}) the optimizer process was alive and had not been signalled"})
            lg = h.get("child_after_linger")
            if lg is not None and not lg["dead"]:
                viol.append({"clause": "child-still-running-later", "sig": {"fault": sig_fault}, "detail": f"fault {fault}: child alive 30 simulated seconds after the step ended"})
        # ---- outcome --------------------------------------------------------------------------
        fired_child_fault = child_fault and (k.fired.get("kill_child") or any(
            b.get("ev") == "start" for b in (ctx.backend_log if ctx else [])) or fault["kind"] != "kill_child")
        if fault is not None and fault["kind"] == "kill_child" and not k.fired.get("kill_child"):
            fired_child_fault = False
        if fired_child_fault:
            if k.fired.get("kill_child") and hb.get("child_syscalls_at_eval"):
                pass
            if ex is not None and ex[0] == "ret" and ex[2] == int(OptimizerExitCode.OPTIMIZER_STEP_FINISHED):
                viol.append({"clause": "child-fault-reported-as-success", "sig": {"fault": sig_fault, "signal": (fault or {}).get("sig")},
                             "detail": f"fault {fault} (child status {child.status if child else None}): the step returned OPTIMIZER_STEP_FINISHED"})
        elif fault is not None and fault["kind"] == "evaluator_raises_after_child_died":
            raised = ctx is not None and any(c.raised == "raise" for c in ctx.evaluator.calls)
            if raised and k.fired.get("kill_child"):
                probe("evaluator_raised_with_dead_child")
                if ex is None or ex[0] != "evaluator_error":
                    viol.append({"clause": "evaluator-exception-lost-when-child-died", "sig": {},
                                 "detail": f"fault {fault}: the evaluator raised at call {fault['m']} while the optimizer process was already dead; the step ended with {ex}"})
        elif fault is not None and fault["kind"] == "spawn_fails":
            if ex is not None and ex[0] == "ret" and ex[2] == int(OptimizerExitCode.OPTIMIZER_STEP_FINISHED):
                viol.append({"clause": "spawn-failure-reported-as-success", "sig": {}, "detail": f"{ex}"})
        else:
            # fault-free, evaluator faults, budgets, stalls, small pipes, short writes: the external run
            # must equal the in-process run of the same scenario
            inproc = harness.run_scenario(copy.deepcopy(fs))
            da, db = harness.trace_digest(inproc), (harness.trace_digest(ctx) if ctx else "none")
            probe("equality_compared")
            if scn.get("explicit_start"):
                probe("explicit_start_point")
            if scn.get("with_output_dir"):
                probe("config_with_path_field")
            if scn.get("numpy_scalar_option"):
                probe("numpy_scalar_option")
            if scn.get("numpy_array_option"):
                probe("numpy_array_option")
            differs = da != db
            if differs and backend != "scripted" and ctx is not None:
                # SciPy's algorithms are not bit-reproducible between two call contexts (BLAS results depend on
                # the memory alignment of freshly created arrays; measured: SLSQP iterates differ by 1e-12 with
                # bit-identical inputs). With a real algorithm in the child the traces are compared structurally
                # and numerically (rtol 1e-6); a run whose structure diverges is counted, not judged.
                verdict = _close_traces(inproc, ctx)
                if verdict == "close":
                    differs = False
                    probe("real_backend_equal_within_rounding")
                elif verdict == "diverged":
                    differs = False
                    probe("real_backend_diverged_not_judged")
            if differs:
                viol.append({"clause": "external-run-differs-from-in-process", "sig": {"fault": sig_fault, "backend": backend if not scn["large"] else "large"},
                             "detail": f"fault {fault}: in-process ended {inproc.exits} with {len(inproc.evaluator.calls)} evaluator calls; external ended {ex} with "
                                       f"{len(ctx.evaluator.calls) if ctx else 0} calls (kernel: {k.fired}, child status {child.status if child else None})"})
        if fault is not None and fault["kind"] == "kill_child" and k.fired.get("kill_child"):
            evs = h.get("child_syscalls_at_eval") or []
            if any(a < fault["at"] for a in evs) and ctx is not None and any(True for _ in ctx.evaluator.calls):
                probe("kill_while_parent_evaluating") if any(a < fault["at"] <= a + 10**9 for a in evs) else None
    key = (backend, scn["large"], oracles.scenario_key(scn), sig_fault,
           None if fault is None else (fault.get("at"), fault.get("q"), fault.get("m"), fault.get("value"), fault.get("capacity"), fault.get("fraction")), outcome)
    fired = dict(k.fired)
    if ctx is not None:
        fired.update(ctx.evaluator.fired)
    return {
        "violations": _dedupe(viol),
        "nontrivial": k.messages >= 2,
        "key": f"{H(str(key)):016x}",
        "probes": probes,
        "fired": fired,
        # full trace + schedule digest with the scripted child; with a real SciPy algorithm in the child only
        # the outcome is digested (SciPy's iterates are not bit-reproducible between interpreters, see DESIGN 8.2)
        "digest": ((harness.trace_digest(ctx) if ctx is not None else "none") + f":{k.steps}:{k.clock:.9f}:{child.status if child else None}:{outcome}")
        if backend == "scripted" else f"real:{sig_fault}:{outcome.split(':')[0]}",
        "evals": len(ctx.evaluator.calls) if ctx else 0,
        "events": len(ctx.events) if ctx else 0,
        "sim_time": k.clock,
        "stratum": scn.get("stratum"),
        "summary": {"fault": fault, "outcome": outcome, "child_status": child.status if child else None, "steps": k.steps,
                    "simulated_s": round(k.clock, 3), "messages": k.messages, "baseline_child_syscalls": S},
    }


def _close_traces(a, b) -> str:
    ca, cb = a.evaluator.calls, b.evaluator.calls
    n = min(len(ca), len(cb))
    for x, y in zip(ca[:n], cb[:n]):
        if x.kind != y.kind or x.variables.shape != y.variables.shape:
            return "diverged"
        if not np.allclose(x.variables, y.variables, rtol=1e-6, atol=1e-9):
            # the first differing call decides: tiny differences may grow in later iterates
            return "different" if np.array_equal(ca[0].variables, cb[0].variables) is False else "diverged"
    ea = [(e[0], e[2] if e[0] == "ret" else None) for e in a.exits]
    eb = [(e[0], e[2] if e[0] == "ret" else None) for e in b.exits]
    if ea != eb:
        return "different"  # another exit code / kind of ending is never rounding noise of the algorithm
    if len(ca) != len(cb):
        return "diverged" if n >= 2 else "different"
    return "close"


def _dedupe(viol):
    seen, out = set(), []
    for v in viol:
        k = (v["clause"], repr(sorted(v["sig"].items())))
        if k not in seen:
            seen.add(k)
            out.append(v)
    return out


def reductions(scn: dict):
    return []
