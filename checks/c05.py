"""C05  Sort filter selects exactly the configured rank window of successful members.

Runs with sort-objective / sort-constraint filters, every window 0<=first<=last<n reached by
stratified seeds for n<=6, non-uniform configured weights with zeros, several filters mapped
to several functions (maps with -1), NaN failure masks incl. masks that empty the window,
and a stratum of invalid windows that must be rejected before any evaluator call."""
from __future__ import annotations

import copy
import random

import numpy as np

from ropt.enums import OptimizerExitCode

from sim import gen, harness, model, oracles

PROP = "C05"
LEVEL = "exploration"
COUNT = {"quick": 6000, "thorough": None}
BUDGET = {"quick": 45, "thorough": 600}
CHUNK = 4000
RULE = (
    "index%5==4: invalid-window stratum (last>=n or first>last) - must be rejected at configuration time, no evaluator "
    "call. Otherwise 1-2 sort-* filters; for n<=6 the window (first,last) of filter 0 is the (index//5)-th of the "
    "n(n+1)/2 windows (stratified), n up to 8 sampled; raw configured weights with zeros; maps over objectives and "
    "constraints with -1 entries; NaN failure masks (40% of runs) incl. emptied windows. Non-trivial = at least one "
    "weight row compared with the reference window; distinct = coarse scenario key + windows. 4%: 17-40 realizations with exact ties in the sort key and failures; 5%: EnsembleEvaluator.calculate driven directly (functions then gradient alone, or both) with a window that can only select realizations without weight."
)
ASSUMPTIONS = [
    "rank comparison only when the sort values of successful realizations are pairwise > 1e-9 apart or exactly equal (exact ties are ranked by realization index)",
    "sort value of inactive (zero configured weight) realizations is whatever the evaluator returned (they are not evaluated)",
]
COMPONENTS = {
    "real": ["DefaultRealizationFilter (sort-*)", "EnsembleEvaluator weight-row assignment", "config validation", "plan steps"],
    "stub": ["SimEvaluator", "sim/scripted optimizer", "sim/inject sampler"],
}
PROBES = ["direct_evaluator", "direct_window_emptied", "direct_window_not_empty", "exact_ties_ranked_by_index", "ranking_entries_checked", "rows_compared", "window_emptied", "invalid_window_rejected", "some_failed", "multi_objective_key",
          "two_filters", "constraint_flavour", "objective_flavour", "gradient_result_rows", "zero_configured_weight_in_window"]


def _windows(n: int):
    return [(f, l) for f in range(n) for l in range(f, n)]


def generate(seed: int, index: int, tier: str) -> dict:
    rng = random.Random(seed)
    if index % 20 == 19:
        return _direct(rng)
    nr = rng.randint(1, 6) if index % 3 else rng.randint(1, 8)
    large = index % 25 == 23
    if large:
        nr = rng.randint(17, 40)  # beyond the sizes NumPy sorts by insertion: ties meet an unstable sort here
    nc = rng.randint(0, 2)
    kinds = ["sort-objective"] + (["sort-constraint"] if nc else [])
    scn = gen.base_scenario(rng, PROP, nr=nr, nc=nc, filters=True, filter_kinds=kinds, nv_max=3, npert_max=2,
                            stddev=(None if rng.random() < 0.3 else False), script_len=rng.randint(1, 3), inject_p=0.9)
    cfg = scn["configs"][0]
    filters = cfg["realization_filters"]
    if index % 5 == 4:
        f = filters[0]["options"]
        if rng.random() < 0.5:
            f["last"] = nr + rng.randint(0, 2)
            f["first"] = rng.randint(0, nr - 1)
        elif nr > 1:
            f["first"] = rng.randint(1, nr - 1)
            f["last"] = rng.randint(0, f["first"] - 1)
        else:
            f["first"] = nr
            f["last"] = nr
        scn["stratum"] = "invalid-window"
        scn["expect_reject"] = True
        return scn
    if nr <= 6:
        ws = _windows(nr)
        first, last = ws[(index // 5) % len(ws)]
        filters[0]["options"]["first"], filters[0]["options"]["last"] = first, last
    if index % 5 in (1, 2) or large:
        gen.add_nan_faults(rng, scn, rate=1.0, max_faults=5)
        scn["stratum"] = "nan-faults"
    else:
        scn["stratum"] = "plain"
    if nr >= 3 and rng.random() < (0.7 if large else 0.25):
        # exact ties in the sort key: ranked by realization index, with or without failed realizations
        gen.add_ties(rng, scn)
    if large:
        scn["stratum"] = "large-ensemble"
    return scn


def _direct(rng: random.Random) -> dict:
    """An ensemble whose sort window can only select realizations without weight (zero configured weight, or failed),
    driven through EnsembleEvaluator.calculate directly: functions first, then the gradient alone at the same point
    (what an algorithm with split evaluations does) or both at once."""
    nr = rng.randint(2, 5)
    scn = gen.base_scenario(rng, PROP, nr=nr, nc=0, no_max=2, filters=True, filter_kinds=["sort-objective"], filter_count=1,
                            nv_max=3, npert_max=3, stddev=False, transforms=False, mask=False, linear=False, inject_p=0.0,
                            zero_real_weights=False, rms=1, pms=None)
    cfg = scn["configs"][0]
    flt = cfg["realization_filters"][0]
    flt["options"]["sort"] = [0]
    no = len(scn["world"]["obj_ids"])
    cfg["objectives"]["realization_filters"] = [0] * no
    variant = rng.choice(["zero-weights", "failed"])
    first = rng.randint(1, nr - 1)
    flt["options"]["first"], flt["options"]["last"] = first, nr - 1
    scn["faults"] = []
    if variant == "zero-weights":
        # affine world, positive weight only on one realization; which rank it has at the point is not known here, the
        # oracle decides from the values whether the window is empty
        w = [0.0] * nr
        w[rng.randrange(nr)] = 1.0
        cfg["realizations"]["weights"] = w
    else:
        # so many realizations fail that fewer than first + 1 remain: the window over the successful ones is empty
        for r in rng.sample(range(nr), nr - first):
            scn["faults"].append({"kind": "nan", "eval": None, "real": r, "pert": -1, "col": None})
    cfg["realizations"]["realization_min_success"] = 1
    scn["entry"] = "direct"
    scn["order"] = rng.choice(["split", "split", "both"])
    scn["stratum"] = "direct-evaluator"
    return scn


def _execute_direct(scn: dict) -> dict:
    import warnings

    from ropt.config.enopt import EnOptConfig
    from ropt.ensemble_evaluator import EnsembleEvaluator

    from sim import backend
    from sim.evaluator import SimEvaluator
    from sim.seeds import digest_bytes
    from sim.world import World

    warnings.simplefilter("ignore")
    viol: list[dict] = []
    probes = {"direct_evaluator": 1}
    ev = SimEvaluator(World(scn["world"]), scn.get("faults"), scn.get("mode"))
    cfgd = copy.deepcopy(scn["configs"][0])
    cfgd.pop("optimizer", None)
    config = EnOptConfig.model_validate(cfgd)
    ee = EnsembleEvaluator(config, None, ev, backend.make_plugin_manager())
    x = np.asarray(config.variables.initial_values, dtype=np.float64)
    if scn["order"] == "split":
        fres = ee.calculate(x, compute_functions=True, compute_gradients=False)
        gres = ee.calculate(x, compute_functions=False, compute_gradients=True)
        f, g = fres[0], gres[0]
    else:
        res = ee.calculate(x, compute_functions=True, compute_gradients=True)
        f, g = res[0], res[1]
    call = ev.calls[0]
    nr = len(scn["world"]["real_ids"])
    fobj = np.asarray(call.obj)[:nr]  # (a combined request lists the unperturbed rows first)
    failed = np.any(np.isnan(fobj), axis=1)
    cw = model.realization_weights(scn["configs"][0])
    flt = scn["configs"][0]["realization_filters"][0]
    vals = oracles.sort_key_values(scn["configs"][0], flt, fobj, None)
    ref = model.sort_window_weights(vals, failed, int(flt["options"]["first"]), int(flt["options"]["last"]), cw)
    compared = 0
    if not oracles.near_ties(vals[~failed]):
        compared = 1
        if not np.any(ref > 0):
            probes["direct_window_emptied"] = 1
            if f.functions is not None:
                viol.append({"clause": "value-produced-from-empty-window", "sig": {"entry": "direct"},
                             "detail": f"direct functions request: window {flt['options']} selects no positive weight but functions were reported"})
            if g.gradients is not None:
                viol.append({"clause": "gradient-produced-from-empty-window", "sig": {"entry": "direct", "order": scn["order"]},
                             "detail": f"direct {scn['order']} request: window {flt['options']} selects no realization with positive weight "
                                       f"(configured {np.round(cw, 4).tolist()}, failed {failed.tolist()}) but a gradient was reported: "
                                       f"{np.asarray(g.gradients.objectives).tolist()}"})
        else:
            probes["direct_window_not_empty"] = 1
    return {
        "violations": _dedupe(viol),
        "nontrivial": compared > 0,
        "key": oracles.scenario_key(scn, ("direct", scn["order"], flt["options"].get("first"))),
        "probes": probes,
        "fired": dict(ev.fired),
        "digest": digest_bytes(harness.result_bytes(f), harness.result_bytes(g)),
        "evals": len(ev.calls),
        "events": 0,
        "stratum": scn.get("stratum"),
        "summary": {"functions": f.functions is not None, "gradients": g.gradients is not None, "order": scn["order"]},
    }


def execute(scn: dict) -> dict:
    if scn.get("entry") == "direct":
        return _execute_direct(scn)
    ctx = harness.run_scenario(scn)
    viol: list[dict] = []
    probes: dict[str, int] = {}

    def probe(name, n=1):
        probes[name] = probes.get(name, 0) + n

    compared = 0
    cfg0 = scn["configs"][0]
    filters = cfg0.get("realization_filters", [])
    if scn.get("expect_reject"):
        ex = ctx.exits[0] if ctx.exits else None
        rejected = ex is not None and ex[0] == "exception" and ("ConfigError" in str(ex[2]) or "ValidationError" in str(ex[2]))
        if rejected and not ctx.evaluator.calls:
            probe("invalid_window_rejected")
            compared += 1
        else:
            viol.append({"clause": "invalid-window-not-rejected", "sig": {},
                         "detail": f"window {filters[0]['options']} with {model.cfg_counts(cfg0)['nr']} realizations: run ended {ex}, "
                                   f"{len(ctx.evaluator.calls)} evaluator calls"})
    if len([f for f in filters if f["method"].startswith("sort")]) > 1:
        probe("two_filters")
    emptied_call = None
    for ln in oracles.linked_results(ctx):
        cfg = ln.cfg
        if ln.call is None or ln.rows is None:
            continue
        tm = oracles.tm_for(ctx, cfg)
        if ln.is_function:
            msg = oracles.ranking_entries_inactive(ctx, cfg, ln.call)
            if msg is not None:
                probe("ranking_entry_inactive")
                viol.append({"clause": "ranked-entry-flagged-inactive", "sig": {}, "detail": msg})
            else:
                probe("ranking_entries_checked")
        if ln.is_function:
            fcall, frows = ln.call, ln.rows
        else:
            probe("gradient_result_rows")
            fcall, frows = oracles.unperturbed_source(ctx, ln)
            if fcall is None:
                continue
        yo = tm.obj_to_opt(fcall.obj[frows])
        yc = None if fcall.con is None else tm.con_to_opt(fcall.con[frows])
        failed = np.any(np.isnan(fcall.obj[frows]), axis=1)
        if fcall.con is not None:
            failed |= np.any(np.isnan(fcall.con[frows]), axis=1)
        if failed.any():
            probe("some_failed")
        cw = model.realization_weights(cfg)
        for fidx, flt in enumerate(filters):
            if not flt["method"].startswith("sort"):
                continue
            vals = oracles.sort_key_values(cfg, flt, yo, yc)
            if flt["method"].endswith("objective"):
                probe("objective_flavour")
                if len(flt["options"]["sort"]) > 1:
                    probe("multi_objective_key")
            else:
                probe("constraint_flavour")
            ties = oracles.near_ties(vals[~failed])
            if not ties and np.unique(vals[~failed]).size < np.count_nonzero(~failed):
                probe("exact_ties_ranked_by_index")
            ref = model.sort_window_weights(vals, failed, int(flt["options"]["first"]), int(flt["options"]["last"]), cw)
            rows = oracles.filter_rows(ln, fidx)
            mapped = any(model.filter_of(cfg, k, j) == fidx for k, nn in (("o", model.cfg_counts(cfg)["no"]), ("c", model.cfg_counts(cfg)["nc"])) for j in range(nn))
            if mapped and not np.any(ref > 0) and not ties and ln.is_function:
                probe("window_emptied")
                if emptied_call is None:
                    emptied_call = ln.call.k
                if ln.opt.functions is not None:
                    viol.append({"clause": "value-produced-from-empty-window", "sig": {},
                                 "detail": f"eval {ln.call.k} filter {fidx} {flt['options']}: window selects no positive weight "
                                           f"(failed {failed.tolist()}, configured {np.round(cw, 4).tolist()}) but functions were reported"})
                continue
            if ties:
                continue
            for kind, j, w in rows:
                compared += 1
                probe("rows_compared")
                if np.any((ref == 0) & (cw > 0) & ~failed & (np.arange(cw.size) >= 0)) and np.any(cw == 0):
                    probe("zero_configured_weight_in_window")
                if not np.allclose(w, ref, rtol=1e-12, atol=0):
                    viol.append({"clause": "sort-window-weights", "sig": {"flavour": flt["method"]},
                                 "detail": f"eval {ln.call.k} filter {fidx} ({flt['method']} {flt['options']}) row {kind}{j}: reported {w.tolist()}, "
                                           f"reference {ref.tolist()} (sort values {np.round(vals, 6).tolist()}, failed {failed.tolist()})"})
        # rows of unfiltered functions next to filtered ones carry the configured weights
        rl = ln.opt.realizations
        c = model.cfg_counts(cfg)
        for kind, n, rep in (("o", c["no"], rl.objective_weights), ("c", c["nc"], rl.constraint_weights)):
            if rep is None:
                continue
            for j in range(n):
                if model.filter_of(cfg, kind, j) < 0 and not np.allclose(rep[j], cw, rtol=1e-12, atol=0):
                    viol.append({"clause": "unmapped-row-not-configured-weights", "sig": {},
                                 "detail": f"eval {ln.call.k} row {kind}{j} (no filter): reported {np.asarray(rep[j]).tolist()}, configured {cw.tolist()}"})

    if emptied_call is not None and ctx.exits:
        ex = ctx.exits[0]
        if ex[0] != "ret" or ex[2] != int(OptimizerExitCode.TOO_FEW_REALIZATIONS):
            viol.append({"clause": "empty-window-not-too-few", "sig": {"step": scn["plan"]["steps"][0]["kind"]},
                         "detail": f"evaluation {emptied_call} had an empty window but the run ended with {ex}"})

    return {
        "violations": _dedupe(viol),
        "nontrivial": compared > 0,
        "key": oracles.scenario_key(scn, [(f["options"].get("first"), f["options"].get("last")) for f in filters]),
        "probes": probes,
        "fired": dict(ctx.evaluator.fired),
        "digest": harness.trace_digest(ctx),
        "evals": len(ctx.evaluator.calls),
        "events": len(ctx.events),
        "stratum": scn.get("stratum"),
        "summary": {"exits": oracles.exits_summary(ctx), "compared": compared},
    }


def _dedupe(viol):
    seen, out = set(), []
    for v in viol:
        k = (v["clause"], repr(sorted(v["sig"].items())))
        if k not in seen:
            seen.add(k)
            out.append(v)
    return out


def reductions(scn: dict):
    from sim.reduce import generic_reductions

    for c in generic_reductions(scn):
        if c["configs"][0].get("realization_filters"):
            yield c
