"""C16  Runs are reproducible from configuration and seed alone.

Scenario A is run (1) alone, (2) inside the cooperative scheduler together with 1-3 other
scenarios - the baton is switched at every evaluator call and event by the seeded scheduler
and NumPy's global generator is reseeded and drawn from at every switch and inside the
evaluator - (3) after other runs in the same process with the plug-in manager re-used, and (3b) twice with
one and the same validated configuration object.
Traces (evaluator requests, results, exit codes) must be byte-identical; with only
gradient.seed changed the perturbations must differ."""
from __future__ import annotations

import copy
import os
import random

import numpy as np

from sim import gen, harness, model, oracles
from sim.sched import Scheduler
from sim.seeds import H

PROP = "C16"
LEVEL = "exploration"
COUNT = {"quick": 2500, "thorough": None}
BUDGET = {"quick": 50, "thorough": 600}
CHUNK = 1500
DETERMINISM = {"quick": 32, "thorough": 200}
RULE = (
    '40% of the differential_evolution scenarios give the seed as a numpy Generator object inside the (re-used) configuration. '
    "scenario A: samplers of every built-in method (method cycles with the index), shared or not, 1-3 samplers per variable, "
    "filters, estimators, masks, NaN faults; back-end scripted (50%), real deterministic SciPy methods slsqp/l-bfgs-b/nelder-mead/"
    "cobyla (35%) or differential_evolution with an explicit seed option (15%). 1-3 companion scenarios drawn independently. "
    "Interleaving: seeded choice of the next runnable task at every evaluator call and event; global NumPy/Python generators "
    "reseeded at every switch. Non-trivial = the run made at least one gradient evaluation with a built-in sampler (or DE) and "
    "the scheduler actually switched tasks during it; distinct = scenario key + companion count + scheduler choices."
)
ASSUMPTIONS = [
    "SciPy's deterministic algorithms are re-entrant between callbacks (design probe); the simulator never runs two threads at once",
    "the seed-change clause is asserted only when a sampler with a continuous distribution handles a free variable",
    "the run under another PYTHONHASHSEED (fresh interpreter) is made for every 12th scenario; the runner's determinism self-test repeats it for the first runs of the batch",
]
COMPONENTS = {
    "real": ["EnsembleEvaluator RNG handling", "SciPySampler (all methods)", "PluginManager (cached entry-point plug-ins)", "plan / steps", "scipy.optimize incl. differential_evolution (50% of runs)"],
    "stub": ["cooperative scheduler (baton-passing threads)", "SimEvaluator", "sim/scripted optimizer"],
}
PROBES = ["same_step_run_twice", "generator_object_in_reused_config", "reused_config_object_runs", "fresh_interpreter_other_hashseed", "interleaved_runs", "switches", "gradient_evaluations", "builtin_sampler_runs", "de_runs", "real_scipy_runs",
          "reused_manager_runs", "seed_change_checked", "companions", "global_rng_draws_in_evaluator"]
METHODS = ["uniform", "norm", "truncnorm", "sobol", "halton", "lhs"]
REAL = ["slsqp", "l-bfgs-b", "nelder-mead", "cobyla"]


def _scenario(rng: random.Random, method_hint: int | None = None) -> dict:
    c = rng.random()
    backend = "scripted" if c < 0.5 else ("de" if c < 0.65 else rng.choice(REAL))
    scn = gen.base_scenario(rng, PROP, nv_max=3, nr_max=3, no_max=2, nc_max=(1 if backend in ("scripted", "slsqp", "cobyla") else 0),
                            npert_max=3, inject=False, inject_p=0.0, transforms=(rng.random() < 0.2), linear=False,
                            bounds_style=("finite" if backend == "de" else ("none" if backend in ("cobyla",) else None)),
                            script_len=rng.randint(2, 5), ops=("f", "g", "fg", "fg"), step="optimizer", merge=(rng.random() < 0.15),
                            world_kind="quadratic")
    cfg = scn["configs"][0]
    nv = len(scn["world"]["var_ids"])
    ns = rng.choice([1, 1, 2, 3])
    cfg["samplers"] = [{"method": (METHODS[method_hint % 6] if (i == 0 and method_hint is not None) else rng.choice(METHODS)),
                        "shared": rng.random() < 0.5} for i in range(ns)]
    for smp in cfg["samplers"]:
        # explicit distribution parameters in some runs: they must stay private to that run
        if rng.random() < 0.3:
            if smp["method"] == "uniform":
                smp["options"] = {"loc": -0.25, "scale": 0.5}
            elif smp["method"] == "truncnorm":
                smp["options"] = {"a": 0.0, "b": 0.5}
            elif smp["method"] == "norm":
                smp["options"] = {"scale": 0.3}
            elif smp["method"] in ("lhs", "sobol", "halton"):
                # engine options: unscrambled sequences (a Latin hypercube still draws its cell permutations) and
                # optimised designs draw from the engine's generator all the same
                smp["options"] = rng.choice([{"scramble": False}, {"scramble": False}, {"scramble": True}] +
                                            ([{"strength": 1}, {"optimization": "random-cd"}] if smp["method"] == "lhs" else []))
    if ns > 1:
        cfg["gradient"]["samplers"] = [rng.randrange(ns) for _ in range(nv)]
    cfg["gradient"]["seed"] = rng.choice([rng.randint(1, 10**6), [rng.randint(1, 1000), rng.randint(1, 1000)]])
    if backend == "de":
        cfg["optimizer"] = {"method": "differential_evolution", "options": {"maxiter": 1, "popsize": 2, "seed": rng.choice([0, 0, rng.randint(1, 999)]), "tol": 0.5}}
        if rng.random() < 0.5:
            cfg["optimizer"]["parallel"] = True
        if rng.random() < 0.4:
            # the seed given as a seeded numpy Generator object (state carried by an object inside the configuration)
            cfg["optimizer"]["options"]["seed"] = {"__rng__": rng.randint(0, 999)}
            scn["de_seed_is_generator_object"] = True
    elif backend != "scripted":
        cfg["optimizer"] = {"method": backend, "options": {"maxiter": rng.randint(1, 3)}, "tolerance": 1e-3}
        if cfg.get("nonlinear_constraints") and backend == "cobyla":
            nl = cfg["nonlinear_constraints"]
            for j in range(len(nl["lower_bounds"])):
                if nl["lower_bounds"][j] == nl["upper_bounds"][j]:
                    nl["upper_bounds"][j] = gen.INF
    if rng.random() < 0.2:
        gen.add_nan_faults(rng, scn, rate=1.0, max_faults=2)
    scn["backend"] = backend
    return scn


def generate(seed: int, index: int, tier: str) -> dict:
    rng = random.Random(seed)
    a = _scenario(rng, index)
    others = [_scenario(rng) for _ in range(rng.randint(1, 3))]
    m0 = a["configs"][0]["samplers"][0]["method"]
    if m0 in ("uniform", "truncnorm", "norm") and rng.random() < 0.6:
        # an unrelated run with the same sampler method but its own distribution parameters
        others[0]["configs"][0]["samplers"][0] = {"method": m0, "shared": False,
                                                  "options": {"uniform": {"loc": -0.25, "scale": 0.5}, "truncnorm": {"a": 0.0, "b": 0.5}, "norm": {"scale": 0.3}}[m0]}
        a["configs"][0]["samplers"][0].pop("options", None)
    return {"prop": PROP, "A": a, "others": others, "sched_seed": rng.getrandbits(32), "reuse": rng.random() < 0.5,
            "cross_hash": index % 12 == 7,
            "stratum": a["backend"], "world": a["world"], "configs": a["configs"], "plan": a["plan"]}


def _run_solo(scn, shared=None):
    return harness.run_scenario(copy.deepcopy(scn), shared=shared)


def execute(scn: dict) -> dict:
    viol: list[dict] = []
    probes: dict[str, int] = {}

    def probe(name, n=1):
        probes[name] = probes.get(name, 0) + n

    A = scn["A"]
    backend = A["backend"]
    # (1) alone
    solo = _run_solo(A)
    d1 = harness.trace_digest(solo)
    ngrad = sum(1 for c in solo.evaluator.calls if c.kind in ("g", "fg"))
    probe("gradient_evaluations", ngrad)
    if backend == "de":
        probe("de_runs")
    elif backend != "scripted":
        probe("real_scipy_runs")
    probe("builtin_sampler_runs")
    # (2) interleaved with other runs under the seeded scheduler, global generators disturbed
    sched = Scheduler(scn["sched_seed"])
    ctxs: dict[int, harness.RunContext] = {}

    def make_task(tid, s):
        def setup(ctx):
            def pre(ev, k, tid=tid):
                sched.yield_point(tid)
                # an evaluator that uses the global generator itself
                np.random.random(2)
            ctx.evaluator.pre_hooks.append(pre)
            ctx.after_event.append(lambda c, rec, tid=tid: sched.yield_point(tid))
            ctxs[tid] = ctx
        return lambda: harness.run_scenario(copy.deepcopy(s), setup=setup)

    tasks = [make_task(0, A)] + [make_task(i + 1, o) for i, o in enumerate(scn["others"])]
    probe("companions", len(scn["others"]))
    sched.run(tasks)
    probe("interleaved_runs")
    probe("switches", sched.switches)
    probe("global_rng_draws_in_evaluator", len(ctxs[0].evaluator.calls) if 0 in ctxs else 0)
    if 0 in sched.errors:
        viol.append({"clause": "interleaved-run-raised", "sig": {"what": type(sched.errors[0]).__name__},
                     "detail": f"{type(sched.errors[0]).__name__}: {sched.errors[0]}"})
        d2 = None
    else:
        d2 = harness.trace_digest(sched.results[0])
        if d2 != d1:
            viol.append({"clause": "trace-differs-when-interleaved", "sig": {"backend": backend},
                         "detail": f"{_first_difference(solo, sched.results[0])} (samplers {[s['method'] for s in A['configs'][0]['samplers']]}, "
                                   f"{len(scn['others'])} companion runs, {sched.switches} switches)"})
    # (3) after other runs in the same process, plug-in manager re-used
    shared = {} if scn.get("reuse") else None
    np.random.seed(scn["sched_seed"] % 2**32)
    for o in scn["others"][:2]:
        _run_solo(o, shared)
        np.random.random(3)
    again = _run_solo(A, shared)
    if scn.get("reuse"):
        probe("reused_manager_runs")
    d3 = harness.trace_digest(again)
    if d3 != d1:
        viol.append({"clause": "trace-differs-after-other-runs", "sig": {"backend": backend, "reuse": bool(scn.get("reuse"))},
                     "detail": f"{_first_difference(solo, again)} (plug-in manager {'re-used' if scn.get('reuse') else 'fresh'})"})
    # (3b) the same validated configuration object used for two runs (as plans with several steps,
    # restarts and nested optimizations do)
    sh2 = {"reuse_validated": True}
    first = _run_solo(A, sh2)
    np.random.random(2)
    second = _run_solo(A, sh2)
    probe("reused_config_object_runs")
    if A.get("de_seed_is_generator_object"):
        probe("generator_object_in_reused_config")
    for label, run in (("first", first), ("second", second)):
        dd = harness.trace_digest(run)
        if dd != d1:
            viol.append({"clause": "trace-differs-when-config-object-reused", "sig": {"backend": backend, "which": label},
                         "detail": f"{label} run with a shared validated EnOptConfig object: {_first_difference(solo, run)} "
                                   f"(samplers {[s_['method'] for s_ in A['configs'][0]['samplers']]})"})
            break
    # (3c) the same step object run twice with the same validated configuration object (a restart loop): the second
    # run starts from the seed again, it does not continue the random stream of the first
    A2 = copy.deepcopy(A)
    A2["faults"] = [f for f in A2.get("faults", []) if f.get("eval") is None]  # (faults aimed at one call would hit the first run only)
    if len(A2["plan"]["steps"]) == 1 and not A2["plan"]["steps"][0].get("nested"):
        A2["plan"]["steps"].append({**A2["plan"]["steps"][0], "same_as": 0})
        twice = harness.run_scenario(A2, shared={"reuse_validated": True})
        marks = getattr(twice, "call_marks", [])
        if len(marks) == 2 and len(twice.exits) == 2 and twice.exits[0][0] == "ret":
            probe("same_step_run_twice")
            c1, c2 = twice.evaluator.calls[marks[0]:marks[1]], twice.evaluator.calls[marks[1]:]
            same = len(c1) == len(c2) and all(a.kind == b.kind and a.variables.shape == b.variables.shape
                                              and a.variables.tobytes() == b.variables.tobytes() for a, b in zip(c1, c2))
            if not same or twice.exits[0][2] != twice.exits[1][2]:
                k = next((i for i, (a, b) in enumerate(zip(c1, c2)) if a.kind != b.kind or a.variables.tobytes() != b.variables.tobytes()), min(len(c1), len(c2)))
                viol.append({"clause": "trace-differs-when-step-is-run-again", "sig": {"backend": backend},
                             "detail": f"one step object run twice with one validated configuration object: the first run made {len(c1)} evaluator "
                                       f"calls and ended {twice.exits[0]}, the second {len(c2)} and ended {twice.exits[1]}; first difference at call {k}"})
    # seed change changes the perturbations
    # (only for samplers with a continuous distribution: the scrambling of a Sobol/Halton sequence is a
    # discrete object and two seeds may legitimately produce the same few points)
    cfgA = A["configs"][0]
    maskA = model.mask_of(cfgA)
    assign = cfgA["gradient"].get("samplers")
    used = {0} if assign is None else {a for a, m in zip(assign, maskA) if m and a >= 0}
    continuous = any(cfgA["samplers"][i]["method"] in ("uniform", "norm", "truncnorm") or
                     (cfgA["samplers"][i]["method"] == "lhs" and (cfgA["samplers"][i].get("options") or {}).get("scramble", True))
                     for i in used)  # (an unscrambled hypercube only permutes cell centres: few points may coincide)
    if ngrad and continuous:
        alt = copy.deepcopy(A)
        s = alt["configs"][0]["gradient"]["seed"]
        alt["configs"][0]["gradient"]["seed"] = (s + 1) if isinstance(s, int) else [s[0] + 1] + s[1:]
        # boundary handling off in both runs: clipping at a bound can make different samples coincide
        alt["configs"][0]["gradient"]["boundary_types"] = 1
        ref = copy.deepcopy(A)
        ref["configs"][0]["gradient"]["boundary_types"] = 1
        other = _run_solo(alt)
        solo_nb = _run_solo(ref)
        pa = next((c.variables for c in solo_nb.evaluator.calls if c.kind in ("g", "fg")), None)
        pb = next((c.variables for c in other.evaluator.calls if c.kind in ("g", "fg")), None)
        if pa is not None and pb is not None and pa.shape == pb.shape:
            probe("seed_change_checked")
            if np.array_equal(pa, pb):
                viol.append({"clause": "seed-change-does-not-change-perturbations", "sig": {},
                             "detail": f"gradient.seed {s} and the next seed give identical perturbed rows"})
    # (4) under another PYTHONHASHSEED, in a fresh interpreter (a sample of the runs)
    if scn.get("cross_hash"):
        # (the other value varies with the scenario: an order that depends on string hashes differs between two given
        # values only about half of the time)
        hs = [4242, 1, 99, 31337][A["world"]["wseed"] % 4]
        d4 = _digest_in_fresh_interpreter(A, hs)
        probe("fresh_interpreter_other_hashseed")
        if d4 != d1:
            viol.append({"clause": "trace-differs-under-other-hashseed", "sig": {"backend": backend},
                         "detail": f"solo trace digest {d1} in this interpreter (PYTHONHASHSEED={os.environ.get('PYTHONHASHSEED')}), "
                                   f"{d4} in a fresh interpreter with PYTHONHASHSEED={hs}"})
    key = (oracles.scenario_key(A), len(scn["others"]), H(str(sched.choices[:50])))
    return {
        "violations": _dedupe(viol),
        "nontrivial": ngrad > 0 and sched.switches > 0,
        "key": f"{H(str(key)):016x}",
        "probes": probes,
        "fired": dict(solo.evaluator.fired),
        "digest": d1 + (d2 or "") + d3 + f"{H(str(sched.choices)):x}",
        "evals": len(solo.evaluator.calls),
        "events": len(solo.events),
        "stratum": scn.get("stratum"),
        "summary": {"exits": oracles.exits_summary(solo), "switches": sched.switches, "companions": len(scn["others"]), "gradient_evaluations": ngrad},
    }


def solo_digest(A: dict) -> str:
    return harness.trace_digest(_run_solo(A))


def _digest_in_fresh_interpreter(A: dict, hashseed: int = 4242) -> str:
    import json
    import os
    import subprocess
    import sys
    from pathlib import Path

    root = str(Path(__file__).resolve().parent.parent)
    env = dict(os.environ)
    env["PYTHONHASHSEED"] = str(hashseed)
    code = ("import sys, json; sys.path.insert(0, %r); from checks import c16; "
            "print('DIGEST ' + c16.solo_digest(json.load(sys.stdin)))" % root)
    proc = subprocess.run([sys.executable, "-c", code], input=json.dumps(A), capture_output=True, text=True, env=env, cwd=root, timeout=300)
    for line in proc.stdout.splitlines():
        if line.startswith("DIGEST "):
            return line.split(" ", 1)[1]
    return "subprocess-failed: " + proc.stderr[-300:]


def _first_difference(a, b) -> str:
    ca, cb = a.evaluator.calls, b.evaluator.calls
    for i, (x, y) in enumerate(zip(ca, cb)):
        if x.kind != y.kind or x.variables.shape != y.variables.shape or not np.array_equal(x.variables, y.variables):
            return f"evaluator call {i} ({x.kind}) differs: rows {x.variables.tolist()} vs {y.variables.tolist()}"
        if not np.array_equal(x.obj, y.obj, equal_nan=True):
            return f"evaluator call {i}: returned objectives differ"
    if len(ca) != len(cb):
        return f"{len(ca)} vs {len(cb)} evaluator calls"
    if a.exits != b.exits:
        return f"exits {a.exits} vs {b.exits}"
    return "results/events differ"


def _dedupe(viol):
    seen, out = set(), []
    for v in viol:
        k = (v["clause"], repr(sorted(v["sig"].items())))
        if k not in seen:
            seen.add(k)
            out.append(v)
    return out


def reductions(scn: dict):
    if len(scn["others"]) > 1:
        for i in range(len(scn["others"])):
            c = copy.deepcopy(scn)
            del c["others"][i]
            yield c
