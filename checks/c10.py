"""C10  Perturbed variables honour magnitudes and boundary-type semantics.

The inject sampler supplies every sample (from 1e-3 steps to overshoots of 50 bound widths),
per-variable mixes of NONE / TRUNCATE_BOTH / MIRROR_BOTH, absolute and relative magnitudes,
finite/infinite bounds, variable scaling.  On every gradient evaluation the reported
perturbed variables and the rows the evaluator received are compared with
apply_boundary(x + m*s)."""
from __future__ import annotations

import random

import numpy as np

from sim import backend, gen, harness, model, oracles

PROP = "C10"
LEVEL = "exploration"
COUNT = {"quick": 6000, "thorough": None}
BUDGET = {"quick": 45, "thorough": 600}
CHUNK = 4000
RULE = (
    "scripted runs with gradient requests; samples come from the inject sampler (hash design with amplitude from "
    "{1e-3,0.1,1,5,50}, or identity/pm designs), magnitudes absolute (scalar or per variable) or relative (fraction of "
    "the bound range, finite bounds), boundary types scalar or per variable over {NONE,TRUNCATE_BOTH,MIRROR_BOTH}, bounds "
    "finite/infinite/mixed, 30% of the samplers keep (and re-issue) the arrays they returned, masks, variable scale/offset transforms in 35% of runs, 1-2 inject samplers on disjoint "
    "variable sets; in 20% of runs the simulated evaluator works in place on the array of variables it is handed (functions, gradient alone at the cached point, both at once). Non-trivial = at least one perturbed vector compared and some perturbation left the bounds; "
    "distinct = coarse scenario key + boundary types + amplitude."
)
ASSUMPTIONS = [
    "MIRROR_BOTH: equality with the repeatedly reflected value is required when at most 4 reflections bring it inside (the code documents 'repeat the mirroring a few times ... if that is not sufficient, clip'), beyond that only containment",
    "monitor fit with controlled randomness (DESIGN.md): verdict depends on configuration, point and samples",
]
COMPONENTS = {
    "real": ["_perturb_variables / _apply_bounds", "GradientConfig.fix_perturbations", "VariableScaler", "EnsembleEvaluator"],
    "stub": ["sim/inject sampler (chooses every sample)", "SimEvaluator", "sim/scripted optimizer"],
}
PROBES = ["settings_objects_shared_by_two_steps", "evaluator_overwrites_its_input", "retaining_sampler", "vectors_compared", "left_bounds", "none_outside_bounds", "truncated", "mirrored_single", "mirror_multi_width",
          "relative_magnitude", "infinite_bound_side", "evaluator_rows_compared", "two_samplers", "with_variable_transform"]


def generate(seed: int, index: int, tier: str) -> dict:
    rng = random.Random(seed)
    scn = gen.base_scenario(rng, PROP, nv_max=5, nr_max=3, npert_max=4, no_max=2, nc_max=1, filters=False, stddev=False,
                            bounds_style=rng.choice(["finite", "finite", "mixed", "lower", "upper", "none"]),
                            linear=False, script_len=rng.randint(1, 3), ops=("g", "fg", "fg"), inject_p=1.0,
                            rms=None, pms=None, zero_real_weights=False, step="optimizer")
    cfg = scn["configs"][0]
    nv = len(scn["world"]["var_ids"])
    amp = rng.choice([0.001, 0.1, 1.0, 1.0, 5.0, 50.0])
    design = rng.choice(["hash", "hash", "hash", "identity", "pm"])
    cfg["samplers"] = [{"method": "sim/inject", "options": {"design": design, "sseed": rng.getrandbits(24), "amp": amp},
                        "shared": rng.random() < 0.4}]
    if rng.random() < 0.3:
        # a sampler that keeps (and, for call-independent designs, hands out again) the arrays it returned
        cfg["samplers"][0]["options"]["retain"] = True
    if nv > 1 and rng.random() < 0.3:
        cfg["samplers"].append({"method": "sim/inject", "options": {"design": "hash", "sseed": rng.getrandbits(24), "amp": amp},
                                "shared": rng.random() < 0.4})
        cfg["gradient"]["samplers"] = [rng.randrange(2) for _ in range(nv)]
    g = cfg["gradient"]
    g["boundary_types"] = rng.choice([1, 2, 3, [rng.randint(1, 3) for _ in range(nv)], [rng.randint(1, 3) for _ in range(nv)]])
    lb = cfg["variables"].get("lower_bounds", [-gen.INF] * nv)
    ub = cfg["variables"].get("upper_bounds", [gen.INF] * nv)
    allfinite = all(np.isfinite(lb)) and all(np.isfinite(ub))
    c = rng.random()
    if c < 0.3:
        g["perturbation_magnitudes"] = rng.choice([0.01, 0.1, 0.5])
    elif c < 0.6 or not allfinite:
        g["perturbation_magnitudes"] = [round(rng.uniform(0.01, 0.6), 3) for _ in range(nv)]
    else:
        g["perturbation_magnitudes"] = [round(rng.uniform(0.01, 0.4), 3) for _ in range(nv)]
        g["perturbation_types"] = rng.choice([2, [rng.choice([1, 2]) for _ in range(nv)]])
    tr = scn.get("transforms")
    if tr:
        tr.pop("obj", None)
        tr.pop("con", None)
        if not tr.get("var"):
            scn["transforms"] = None
    # request points inside the bounds (optimizer domain images)
    tm = oracles.TransformModel(scn.get("transforms"), nv, 1, 0)
    pts = []
    for _ in range(2):
        xu = np.array(gen.gen_point_inside(rng, lb, ub))
        pts.append([float(v) for v in tm.x_to_opt(xu)])
    cfg["optimizer"]["options"]["points"] = pts
    for e in cfg["optimizer"]["options"]["script"]:
        e["pts"] = [rng.randrange(-1, 2) for _ in e["pts"]]
    scn["stratum"] = "monitor"
    if rng.random() < 0.12:
        # the variable and gradient settings are objects the user created once and uses in the configuration of two
        # steps: the magnitudes configured there (a fraction of the bound range for relative ones) mean the same in both
        scn["plan"]["steps"].append({"kind": "optimizer", "cfg": 0})
        scn["subconfig_objects"] = True
        scn["stratum"] = "settings-objects-shared-by-two-steps"
        return scn
    if rng.random() < 0.2:
        # an evaluator that works in place on the array of variables it is handed: the reported perturbed vectors (and
        # the differences the gradient is estimated from) must not follow what the evaluator did to its argument.
        # Every request kind is made: functions, the gradient alone at the cached point, both at once.
        scn["mode"] = dict(scn.get("mode") or {}, scribble_input=True)
        p0 = rng.randrange(-1, 2)
        cfg["optimizer"]["options"]["script"] = [{"op": "f", "pts": [p0]}, {"op": "g", "pts": [p0]},
                                                 {"op": "fg", "pts": [rng.randrange(-1, 2)]}]
        scn["stratum"] = "evaluator-overwrites-its-input"
    return scn


def _bcast(v, n, dtype=float):
    return np.broadcast_to(np.atleast_1d(np.asarray(v, dtype=dtype)), (n,)).copy()


def execute(scn: dict) -> dict:
    backend.sweep_retained()
    ctx = harness.run_scenario(scn)
    viol: list[dict] = []
    probes: dict[str, int] = {}

    def probe(name, n=1):
        probes[name] = probes.get(name, 0) + n

    if scn.get("subconfig_objects") and len(ctx.exits) > 1:
        probe("settings_objects_shared_by_two_steps")
    if (scn.get("mode") or {}).get("scribble_input") and ctx.evaluator.fired.get("input_array_overwritten"):
        probe("evaluator_overwrites_its_input")
    retaining = any((s.get("options") or {}).get("retain") for s in scn["configs"][0]["samplers"])
    tampered = backend.sweep_retained()
    if retaining:
        probe("retaining_sampler")
    # (a modified array is only held against the library through its consequence: a re-issued array makes the next
    # perturbations differ from current + magnitude * sample, which the comparison below reports)
    compared = 0
    left = 0
    grad_no: dict[int, int] = {}
    for ln in oracles.linked_results(ctx):
        if ln.is_function:
            continue
        cfg = ln.cfg
        c = model.cfg_counts(cfg)
        nv, nr, npert = c["nv"], c["nr"], c["np"]
        tm = oracles.tm_for(ctx, cfg)
        if tm.has_var:
            probe("with_variable_transform")
        call_no = grad_no.get(ln.step, 0)
        grad_no[ln.step] = call_no + 1
        mask = model.mask_of(cfg)
        g = cfg["gradient"]
        lb = _bcast(cfg["variables"].get("lower_bounds", -np.inf), nv)
        ub = _bcast(cfg["variables"].get("upper_bounds", np.inf), nv)
        mags = _bcast(g.get("perturbation_magnitudes", 0.005), nv)
        ptypes = _bcast(g.get("perturbation_types", 1), nv, int)
        btypes = _bcast(g.get("boundary_types", 3), nv, int)
        if np.any(ptypes == 2):
            probe("relative_magnitude")
        m_user = np.where(ptypes == 2, (ub - lb) * mags, mags)
        # samples
        samplers = cfg["samplers"]
        assign = g.get("samplers")
        if len(samplers) > 1:
            probe("two_samplers")
        samples = np.zeros((nr, npert, nv))
        for si, sc in enumerate(samplers):
            cols = np.where(mask & (np.ones(nv, bool) if assign is None else (np.asarray(assign) == si)))[0]
            if assign is None and si > 0:
                continue
            if cols.size == 0:
                continue
            samples += backend.inject_samples(sc["options"], bool(sc.get("shared", False)), si, call_no, nr, npert, nv, cols)
        xu = np.asarray(ln.user.evaluations.variables, float)
        rep_user = np.asarray(ln.user.evaluations.perturbed_variables, float)
        rep_opt = np.asarray(ln.opt.evaluations.perturbed_variables, float)
        rows = None
        if ln.call is not None and ln.rows is not None:
            rows = ln.call.variables[ln.rows].reshape(nr, npert, nv)
        bad = None
        for r in range(nr):
            for p in range(npert):
                compared += 1
                for v in range(nv):
                    raw = xu[v] + m_user[v] * samples[r, p, v]
                    inside = lb[v] <= raw <= ub[v]
                    if not inside:
                        left += 1
                        probe("left_bounds")
                        if not (np.isfinite(lb[v]) and np.isfinite(ub[v])):
                            probe("infinite_bound_side")
                    ref, exact = model.apply_boundary(raw, lb[v], ub[v], int(btypes[v]))
                    got = rep_user[r, p, v]
                    tol = 1e-9 * max(1.0, abs(raw), abs(xu[v]))
                    if not inside:
                        if btypes[v] == 1:
                            probe("none_outside_bounds")
                        elif btypes[v] == 2:
                            probe("truncated")
                        elif exact:
                            probe("mirrored_single")
                        else:
                            probe("mirror_multi_width")
                    if exact:
                        if abs(got - ref) > tol and bad is None:
                            bad = {"clause": "perturbed-value", "sig": {"boundary_type": int(btypes[v]), "inside": bool(inside)},
                                   "detail": f"eval {ln.call.k if ln.call else '?'} realization {r} perturbation {p} variable {v}: x={xu[v]!r} + "
                                             f"{m_user[v]!r}*{samples[r, p, v]!r} = {raw!r}, bounds [{lb[v]}, {ub[v]}], boundary type {int(btypes[v])}: "
                                             f"reported {got!r}, reference {ref!r}"}
                    else:
                        if not (lb[v] - tol <= got <= ub[v] + tol) and bad is None:
                            bad = {"clause": "mirror-not-contained", "sig": {},
                                   "detail": f"variable {v}: mirrored value {got!r} outside [{lb[v]}, {ub[v]}]"}
                    if rows is not None and abs(rows[r, p, v] - got) > tol and bad is None:
                        bad = {"clause": "evaluator-row-differs-from-reported", "sig": {},
                               "detail": f"realization {r} perturbation {p} variable {v}: evaluator received {rows[r, p, v]!r}, results report {got!r}"}
                if rows is not None:
                    probe("evaluator_rows_compared")
        if bad is None and not np.allclose(rep_opt, tm.x_to_opt(rep_user), rtol=1e-9, atol=1e-9):
            bad = {"clause": "optimizer-domain-image", "sig": {},
                   "detail": "optimizer-domain perturbed variables are not the image of the user-domain ones"}
        if bad is not None:
            viol.append(bad)
        probe("vectors_compared", nr * npert)

    cfg0 = scn["configs"][0]
    return {
        "violations": _dedupe(viol),
        "nontrivial": compared > 0 and left > 0,
        "key": oracles.scenario_key(scn, (str(cfg0["gradient"].get("boundary_types")), str(cfg0["gradient"].get("perturbation_types")),
                                          cfg0["samplers"][0]["options"].get("amp"), cfg0["samplers"][0]["options"].get("design"))),
        "probes": probes,
        "fired": dict(ctx.evaluator.fired),
        "digest": harness.trace_digest(ctx),
        "evals": len(ctx.evaluator.calls),
        "events": len(ctx.events),
        "stratum": scn.get("stratum"),
        "summary": {"exits": oracles.exits_summary(ctx), "compared": compared, "left_bounds": left, "sampler_arrays_modified": len(tampered)},
    }


def _dedupe(viol):
    seen, out = set(), []
    for v in viol:
        k = (v["clause"], repr(sorted(v["sig"].items())))
        if k not in seen:
            seen.add(k)
            out.append(v)
    return out


def reductions(scn: dict):
    from sim.reduce import generic_reductions

    yield from generic_reductions(scn)
