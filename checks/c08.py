"""C08  The problem handed to SciPy is equivalent to the configured problem.

FakeSciPy inspects what the SciPy plug-in hands over (bounds, constraint dicts / objects,
options) and evaluates the handed callables at probe points chosen to straddle every
configured bound (affine world, so the straddling points and the Jacobians are exact).
Constraint-kind vectors (eq / lower / upper / two-sided / unbounded) are stratified."""
from __future__ import annotations

import copy
import random

import numpy as np

from sim import gen_scipy, harness, model, oracles
from sim.gen_scipy import DE, GRADIENT, NOGRAD
from sim.world import World

PROP = "C08"
LEVEL = "exploration"
COUNT = {"quick": 5000, "thorough": None}
BUDGET = {"quick": 45, "thorough": 600}
CHUNK = 4000
RULE = (
    "index%4==3: unsupported-combination stratum (method x constraint kind it does not support: must be rejected with "
    "NotImplementedError before the back-end is called). Otherwise: method cycles over all 10 supported methods; for "
    "slsqp/differential_evolution/cobyla the kind vector of up to 3 non-linear + 3 linear constraints is the base-5 (base-4 "
    "for cobyla) expansion of the stratum counter; bounds mix finite/infinite entries; masks; options in {absent, {}, dict}; "
    "max_iterations set in 60%. Probe points: a base point, base + delta e_i (Jacobians), and for every configured "
    "constraint and side a point 0.05 inside and 0.05 outside the bound. Non-trivial = at least one probe point had its "
    "configured and handed feasibility compared (or the handed bounds/options were compared); distinct = (method, kind "
    "vectors, mask pattern, bound pattern, options form)."
)
ASSUMPTIONS = [
    "monitor fit (DESIGN.md): nothing here depends on a schedule or fault; the simulator owns the seam where the handed-over problem exists",
    "rows of linear constraints that touch fixed variables are not retained (the statement speaks of retained constraints)",
    "feasibility is compared only at probe points whose slacks are all > 1e-6 in magnitude",
]
COMPONENTS = {
    "real": ["SciPyOptimizer._initialize_bounds/_initialize_constraints*/_parse_options", "NormalizedConstraints", "get_masked_linear_constraints", "validate_supported_constraints"],
    "stub": ["FakeSciPy", "SimEvaluator (affine world)", "sim/inject sampler"],
}
PROBES = ["integrality_compared", "constraint_first_runs", "feasibility_compared", "infeasible_probe", "feasible_probe", "jacobian_compared", "bounds_compared", "maxiter_compared",
          "options_absent", "options_empty", "rejected_unsupported", "two_sided", "equality", "masked", "de_objects", "linear_retained_row",
          "linear_dropped_row"]
METHODS = GRADIENT + NOGRAD + [DE]


def _ref_values(scn, xf):
    """configured constraint values at a free-variable point: (nonlinear values, linear retained values)."""
    cfg = scn["configs"][0]
    w = World(scn["world"])
    mask = model.mask_of(cfg)
    x = np.asarray(cfg["variables"]["initial_values"], float).copy()
    x[mask] = xf
    _, c = w.values(x[None, :], np.array([0]))
    ml = model.masked_linear(cfg)
    lin = None if ml is None else ml[0] @ np.asarray(xf, float)
    return (None if c is None else c[0]), lin


def _interior_point(rows, offs, los, his, x0f, rng):
    """A point satisfying all configured constraints with the largest margin (LP), so that a
    probe straddling one bound is decided by that bound and not by the other constraints."""
    from scipy.optimize import linprog

    n = len(x0f)
    fallback = [float(v) + rng.uniform(-0.5, 0.5) for v in x0f]
    if not rows:
        return fallback
    A_ub, b_ub, A_eq, b_eq = [], [], [], []
    for r, c0, lo, hi in zip(rows, offs, los, his):
        r = list(np.asarray(r, float))
        if abs(hi - lo) < 1e-15:
            A_eq.append(r + [0.0]); b_eq.append(lo - c0)
            continue
        if np.isfinite(lo):
            A_ub.append([-v for v in r] + [1.0]); b_ub.append(-(lo - c0))
        if np.isfinite(hi):
            A_ub.append(r + [1.0]); b_ub.append(hi - c0)
    try:
        res = linprog(c=[0.0] * n + [-1.0], A_ub=A_ub or None, b_ub=b_ub or None, A_eq=A_eq or None, b_eq=b_eq or None,
                      bounds=[(-20, 20)] * n + [(None, 0.5)], method="highs")
    except Exception:  # noqa: BLE001
        return fallback
    if res.status != 0 or res.x is None or res.x[-1] < 1e-3:
        return fallback
    return [float(v) for v in res.x[:n]]


def generate(seed: int, index: int, tier: str) -> dict:
    rng = random.Random(seed)
    if index % 4 == 3:
        scn = gen_scipy.scipy_scenario(rng, PROP, unsupported=True, world_kind="affine")
        scn["stratum"] = "unsupported"
        scn["fake"]["script"] = [{"q": "f", "k": None, "pt": -1}]
        return scn
    counter = index - index // 4
    method = METHODS[counter % len(METHODS)]
    kinds_nl = kinds_lin = None
    n = counter // len(METHODS)
    if method in ("slsqp", DE):
        base = ["le", "ge", "eq", "two", "none"]
        nnl, nlin = n % 4, (n // 4) % 4
        n = ((n // 16) * 7919 + 3) % 5**6  # a permutation of the 5^6 kind vectors, so every digit varies early
        kinds_nl = [base[(n // 5**i) % 5] for i in range(nnl)]
        kinds_lin = [base[(n // 5**(i + 3)) % 5] for i in range(nlin)]
    elif method == "cobyla":
        base = ["le", "ge", "two", "none"]
        nnl, nlin = n % 4, (n // 4) % 4
        n = ((n // 16) * 2731 + 1) % 4**6
        kinds_nl = [base[(n // 4**i) % 4] for i in range(nnl)]
        kinds_lin = [base[(n // 4**(i + 3)) % 4] for i in range(nlin)]
    scn = gen_scipy.scipy_scenario(rng, PROP, method=method, kinds_nl=kinds_nl, kinds_lin=kinds_lin, world_kind="affine")
    cfg = scn["configs"][0]
    cfg["optimizer"].pop("parallel", None)
    mask = model.mask_of(cfg)
    nfree = int(mask.sum())
    x0f = np.asarray(cfg["variables"]["initial_values"], float)[mask]
    w = World(scn["world"])
    a_all = w.slopes()[0]  # (nf, nv)
    no = len(scn["world"]["obj_ids"])
    nl = cfg.get("nonlinear_constraints")
    ml = model.masked_linear(cfg)
    # all configured constraints as rows r.x_free + c0 in [lo, hi]
    rows, offs, los, his = [], [], [], []
    zero = [0.0] * nfree
    c_at_zero, _ = _ref_values(scn, zero)
    if nl:
        for i, (lo, hi) in enumerate(zip(nl["lower_bounds"], nl["upper_bounds"])):
            rows.append(a_all[no + i][mask]); offs.append(c_at_zero[i]); los.append(lo); his.append(hi)
    if ml is not None:
        for i, (lo, hi) in enumerate(zip(ml[1], ml[2])):
            rows.append(ml[0][i]); offs.append(0.0); los.append(lo); his.append(hi)
    base_pt = _interior_point(rows, offs, los, his, x0f, rng)
    probes = [base_pt]
    for i in range(nfree):
        p = list(base_pt)
        p[i] = p[i] + 0.25
        probes.append(p)
    # directions inside the null space of the equality rows, so equalities stay satisfied
    eq_rows = [r for r, lo, hi in zip(rows, los, his) if abs(hi - lo) < 1e-15]
    for r, c0, lo, hi in zip(rows, offs, los, his):
        if abs(hi - lo) < 1e-15:
            continue
        for b in (lo, hi):
            if not np.isfinite(b):
                continue
            d = np.array([rng.uniform(-1, 1) for _ in range(nfree)])
            if eq_rows:
                E = np.atleast_2d(np.array(eq_rows))
                d = d - np.linalg.pinv(E) @ (E @ d)
            sd = float(np.asarray(r) @ d)
            if abs(sd) < 1e-3:
                continue
            cur = float(np.asarray(r) @ np.asarray(base_pt)) + c0
            width = (hi - lo) if (np.isfinite(lo) and np.isfinite(hi)) else np.inf
            step = 0.05 if width > 0.2 else width / 4.0
            for delta in (step, -step):
                t = (b + delta - cur) / sd
                probes.append([float(v) for v in (np.asarray(base_pt) + t * d)])
    script = []
    alpha = gen_scipy.alphabet(scn)
    constraint_first = index % 2 == 1 and method != DE and any(q == "c" for q, _ in alpha)
    # half of the runs visit the starting point between two probes, the other half go from probe to probe directly:
    # probes that straddle a narrow band at a large |x| differ by less than 1e-5 relative, and the handed functions
    # have to be functions of the point they are called with all the same
    direct = (index // 2) % 2 == 1
    for p in probes:
        if constraint_first:
            # the handed constraint functions are evaluated on their own, the objective is never asked
            first_c = next((q, k) for q, k in alpha if q == "c")
            if not direct:
                script.append({"q": "c", "k": first_c[1], "pt": -1, "pts": [-1]})
        else:
            if not direct:
                script.append({"q": "f", "k": None, "pt": -1, "pts": [-1]})
            script.append({"q": "f", "k": None, "pt": p, "pts": [p]})
        for q, k in alpha:
            if q != "f" and not (constraint_first and q == "g"):
                script.append({"q": q, "k": k, "pt": p, "pts": [p]})
    scn["constraint_first"] = constraint_first
    scn["direct_probes"] = direct
    scn["fake"]["script"] = script
    scn["fake"]["probes"] = probes
    scn["stratum"] = method
    return scn


def _bounds_of(cfg, mask):
    nv = mask.size
    lb = np.broadcast_to(np.atleast_1d(np.asarray(cfg["variables"].get("lower_bounds", -np.inf), float)), (nv,))[mask]
    ub = np.broadcast_to(np.atleast_1d(np.asarray(cfg["variables"].get("upper_bounds", np.inf), float)), (nv,))[mask]
    return lb, ub


def execute(scn: dict) -> dict:
    ctx = harness.run_scenario(scn)
    viol: list[dict] = []
    probes: dict[str, int] = {}

    def probe(name, n=1):
        probes[name] = probes.get(name, 0) + n

    cfg = scn["configs"][0]
    method = scn["method"]
    ex = ctx.exits[0] if ctx.exits else None
    rec = ctx.fake.received
    compared = 0
    mask = model.mask_of(cfg)
    if (~mask).any():
        probe("masked")
    if scn.get("constraint_first"):
        probe("constraint_first_runs")
    if scn.get("expect_reject"):
        if ex is not None and ex[0] == "exception" and "NotImplementedError" in str(ex[2]) and ctx.fake.calls == 0:
            probe("rejected_unsupported")
            compared += 1
        else:
            viol.append({"clause": "unsupported-constraint-not-rejected", "sig": {"method": method},
                         "detail": f"method {method} with bounds {cfg['variables'].get('lower_bounds')}/{cfg['variables'].get('upper_bounds')}, "
                                   f"nonlinear {cfg.get('nonlinear_constraints')}, linear {cfg.get('linear_constraints')}: run ended {ex}, back-end called {ctx.fake.calls}x"})
    elif ex is None or ex[0] != "ret" or not rec:
        if scn.get("stratum") != "unsupported":
            viol.append({"clause": "supported-problem-raised", "sig": {"method": method},
                         "detail": f"method {method}: run ended with {ex}"})
    elif scn.get("stratum") != "unsupported":
        # ---- x0 / bounds: only the free variables -------------------------------------------
        x0f = np.asarray(cfg["variables"]["initial_values"], float)[mask]
        if not np.array_equal(rec["x0"], x0f):
            viol.append({"clause": "x0-not-free-variables", "sig": {}, "detail": f"handed x0 {rec['x0'].tolist()}, free initial values {x0f.tolist()}"})
        lb, ub = _bounds_of(cfg, mask)
        allb = _bounds_of(cfg, np.ones(mask.size, bool))
        any_finite = bool(np.any(np.isfinite(allb[0])) or np.any(np.isfinite(allb[1])))
        b = rec["bounds"]
        probe("bounds_compared")
        compared += 1
        if b is None:
            if np.any(np.isfinite(lb)) or np.any(np.isfinite(ub)):
                viol.append({"clause": "bounds-dropped", "sig": {}, "detail": f"no bounds handed although free variables have bounds {lb.tolist()} {ub.tolist()}"})
        else:
            hl, hu = np.asarray(b.lb, float), np.asarray(b.ub, float)
            if hl.shape != lb.shape or not (np.array_equal(hl, lb) and np.array_equal(hu, ub)):
                viol.append({"clause": "bounds-differ", "sig": {}, "detail": f"handed bounds {hl.tolist()} {hu.tolist()}, configured (free) {lb.tolist()} {ub.tolist()}"})
        # ---- integrality (differential_evolution): which of the *free* variables are integers -------------
        types = cfg["variables"].get("types")
        if method == gen_scipy.DE and types is not None and "integrality" not in (cfg["optimizer"].get("options") or {}):
            want_int = (np.broadcast_to(np.atleast_1d(np.asarray(types)), (mask.size,)) == 2)[mask]
            got_int = (rec.get("options") or {}).get("integrality")
            probe("integrality_compared")
            compared += 1
            if got_int is None or np.shape(got_int) != want_int.shape or not np.array_equal(np.asarray(got_int, bool), want_int):
                viol.append({"clause": "integrality-not-of-free-variables",
                             "sig": {"options": "absent" if "options" not in cfg["optimizer"] else ("empty" if not cfg["optimizer"]["options"] else "dict"),
                                     "handed": "none" if got_int is None else "wrong"},
                             "detail": f"variable types {types}, mask {mask.tolist()}: back-end received integrality "
                                       f"{None if got_int is None else np.asarray(got_int).tolist()}, the free variables' are {want_int.tolist()}"})
        # ---- options -----------------------------------------------------------------
        mi = cfg["optimizer"].get("max_iterations")
        form = "absent" if "options" not in cfg["optimizer"] else ("empty" if not cfg["optimizer"]["options"] else "dict")
        probe("options_" + form) if form != "dict" else None
        opts = rec.get("options") or {}
        if mi is not None:
            probe("maxiter_compared")
            compared += 1
            key = "maxfun" if method == "tnc" else "maxiter"
            if opts.get(key) != mi:
                viol.append({"clause": "max-iterations-not-forwarded", "sig": {"options": form},
                             "detail": f"max_iterations={mi}, optimizer.options {form}: back-end received options {dict(opts)}"})
        # ---- constraints: feasibility equivalence at the probe points --------------------------
        nl = cfg.get("nonlinear_constraints")
        ml = model.masked_linear(cfg)
        lin = cfg.get("linear_constraints")
        if lin is not None:
            nrows = len(lin["coefficients"])
            kept = 0 if ml is None else len(ml[3])
            if kept:
                probe("linear_retained_row", kept)
            if nrows - kept:
                probe("linear_dropped_row", nrows - kept)
        by_point: dict[tuple, dict] = {}
        for r in ctx.fake.log:
            if "ret" not in r:
                continue
            x = r["x"] if r["x"].ndim == 1 else r["x"][:, 0]
            by_point.setdefault(tuple(np.round(x, 12).tolist()), {})[(r["q"], r.get("k"))] = np.asarray(r["ret"], float)
        cons = rec.get("constraints") or []
        for p in scn["fake"].get("probes", []):
            got = by_point.get(tuple(np.round(np.asarray(p, float), 12).tolist()))
            if got is None:
                continue
            cvals, lvals = _ref_values(scn, p)
            ineq, eqres = [], []
            if nl:
                for v, lo, hi in zip(cvals, nl["lower_bounds"], nl["upper_bounds"]):
                    if abs(hi - lo) < 1e-15:
                        probe("equality")
                        eqres.append(abs(v - lo))
                        continue
                    if np.isfinite(lo) and np.isfinite(hi):
                        probe("two_sided")
                    ineq += [v - lo, hi - v]
            if ml is not None:
                for v, lo, hi in zip(lvals, ml[1], ml[2]):
                    if abs(hi - lo) < 1e-15:
                        eqres.append(abs(v - lo))
                    else:
                        ineq += [v - lo, hi - v]
            ineq = np.array([s_ for s_ in ineq if np.isfinite(s_)])
            eqres = np.array(eqres)
            cfg_feasible = bool(np.all(ineq >= 0)) and bool(np.all(eqres <= 1e-6))
            margin_ok = bool(np.all(np.abs(ineq) > 1e-6)) and not bool(np.any((eqres > 1e-8) & (eqres < 1e-4)))
            # handed feasibility
            if method == DE:
                probe("de_objects")
                hin, heq = [], []
                for c in cons:
                    if hasattr(c, "A"):
                        v = np.asarray(c.A, float) @ np.asarray(p, float)
                    else:
                        v = got.get(("c", None))
                        if v is None:
                            continue
                        v = v.reshape(-1)
                    for vi, lo, hi in zip(v, np.asarray(c.lb, float), np.asarray(c.ub, float)):
                        if lo == hi:
                            heq.append(abs(vi - lo))
                        else:
                            hin += [vi - lo, hi - vi]
                hin = np.array([s_ for s_ in hin if np.isfinite(s_)])
                heq = np.array(heq)
                handed_feasible = bool(np.all(hin >= 0)) and bool(np.all(heq <= 1e-6))
                hmargin = bool(np.all(np.abs(hin) > 1e-6)) and not bool(np.any((heq > 1e-8) & (heq < 1e-4)))
            else:
                hsl_ok, hmargin = True, True
                for k, c in enumerate(cons):
                    v = got.get(("c", k))
                    if v is None:
                        continue
                    v = float(np.asarray(v).reshape(-1)[0])
                    if c["type"] == "eq":
                        hsl_ok = hsl_ok and abs(v) <= 1e-6
                        if 1e-8 < abs(v) < 1e-4:
                            hmargin = False
                    else:
                        hsl_ok = hsl_ok and v >= 0
                        if abs(v) <= 1e-6:
                            hmargin = False
                handed_feasible = hsl_ok
            if not (margin_ok and hmargin):
                continue
            compared += 1
            probe("feasibility_compared")
            probe("feasible_probe" if cfg_feasible else "infeasible_probe")
            if cfg_feasible != handed_feasible:
                viol.append({"clause": "feasibility-not-equivalent", "sig": {"method": method},
                             "detail": f"x_free={np.round(p, 4).tolist()}: configured problem {'feasible' if cfg_feasible else 'infeasible'} "
                                       f"(non-linear values {None if cvals is None else np.round(cvals, 4).tolist()} bounds {nl}; linear {None if lvals is None else np.round(lvals, 4).tolist()}), "
                                       f"handed problem {'feasible' if handed_feasible else 'infeasible'}"})
        # ---- Jacobians: derivative of the handed value, same sign ------------------------------
        pr = scn["fake"].get("probes", [])
        if pr and method != DE:
            base = by_point.get(tuple(np.round(np.asarray(pr[0], float), 12).tolist()), {})
            nfree = int(mask.sum())
            for k, c in enumerate(cons):
                J = base.get(("j", k))
                v0 = base.get(("c", k))
                if J is None or v0 is None:
                    continue
                fd = np.zeros(nfree)
                ok = True
                for i in range(nfree):
                    gi = by_point.get(tuple(np.round(np.asarray(pr[1 + i], float), 12).tolist()), {}).get(("c", k))
                    if gi is None:
                        ok = False
                        break
                    fd[i] = (float(gi.reshape(-1)[0]) - float(v0.reshape(-1)[0])) / (pr[1 + i][i] - pr[0][i])
                if not ok:
                    continue
                probe("jacobian_compared")
                compared += 1
                if not np.allclose(J.reshape(-1), fd, rtol=1e-6, atol=1e-7):
                    viol.append({"clause": "jacobian-not-derivative-of-value", "sig": {},
                                 "detail": f"constraint entry {k} ({c['type']}): handed jac {J.tolist()}, derivative of handed fun {fd.tolist()}"})

    nl = cfg.get("nonlinear_constraints") or {}
    lin = cfg.get("linear_constraints") or {}
    key = (method, str(nl.get("lower_bounds")) and [(np.isfinite(a), np.isfinite(b), a == b) for a, b in zip(nl.get("lower_bounds", []), nl.get("upper_bounds", []))],
           [(np.isfinite(a), np.isfinite(b), a == b) for a, b in zip(lin.get("lower_bounds", []), lin.get("upper_bounds", []))],
           str(cfg["variables"].get("mask")),
           [(np.isfinite(a), np.isfinite(b)) for a, b in zip(*_bounds_of(cfg, np.ones(mask.size, bool)))],
           "options" in cfg["optimizer"] and bool(cfg["optimizer"]["options"]), "options" in cfg["optimizer"],
           cfg["optimizer"].get("max_iterations") is not None, scn.get("expect_reject"))
    from sim.seeds import H
    return {
        "violations": _dedupe(viol),
        "nontrivial": compared > 0,
        "key": f"{H(str(key)):016x}",
        "probes": probes,
        "fired": dict(ctx.evaluator.fired),
        "digest": harness.trace_digest(ctx),
        "evals": len(ctx.evaluator.calls),
        "events": len(ctx.events),
        "stratum": scn.get("stratum"),
        "summary": {"exits": oracles.exits_summary(ctx), "compared": compared, "method": method},
    }


def _dedupe(viol):
    seen, out = set(), []
    for v in viol:
        k = (v["clause"], repr(sorted(v["sig"].items())))
        if k not in seen:
            seen.add(k)
            out.append(v)
    return out


def reductions(scn: dict):
    opt = scn["configs"][0]["optimizer"]
    for key in ("speculative", "split_evaluations", "tolerance"):
        if key in opt:
            c = copy.deepcopy(scn)
            del c["configs"][0]["optimizer"][key]
            yield c
