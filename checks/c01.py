"""C01  Ensemble function values are the normalized weighted estimate over realizations.

Scripted runs (optimizer and evaluator step) over random ensembles with NaN failures; every
delivered FunctionResults is recomputed from what the simulated evaluator returned.  A twin
run (batches split, request order permuted, other functions' values changed) must report
identical numbers for the untouched function (independence clause)."""
from __future__ import annotations

import copy
import random

import numpy as np

from sim import gen, harness, model, oracles

PROP = "C01"
LEVEL = "exploration"
COUNT = {"quick": 6000, "thorough": None}
BUDGET = {"quick": 40, "thorough": 600}
CHUNK = 4000
RULE = (
    "scenario i is generated from seed H(VERIF_SEED,'C01',i): random ensemble (1-6 realizations, 1-3 objectives, "
    "0-2 constraints), raw weights with zeros, estimator and filter maps incl. -1 entries, transforms, NaN fault plan, "
    "request script (functions single/batch, gradient, both) through the scripted optimizer or the evaluator step. "
    "A run is non-trivial when at least one reported function value was compared with the reference (a positive-weight "
    "realization succeeded); distinct = distinct coarse scenario key (sizes, zero-weight/mask patterns, filter kinds and "
    "maps, estimator maps, transform kinds, step kind, request-kind sequence, fault plan)."
)
ASSUMPTIONS = [
    "the reported weight row of a filtered function must equal the reference weights of the filter mapped to it (when the ranking is free of near ties - exact ties are ranked by realization index); the value is then recomputed from that row",
    "value comparison rtol 1e-9 / atol 1e-12; twin-run comparison rtol 1e-12",
    "SimEvaluator and the scripted optimizer are stubs playing the user and the algorithm; all of ropt is real",
]
COMPONENTS = {
    "real": ["EnOptConfig validation", "EnsembleEvaluator", "EnsembleOptimizer", "realization filters",
             "function estimators", "Plan / optimizer step / evaluator step", "results.*", "VariableScaler"],
    "stub": ["SimEvaluator (user evaluator)", "sim/scripted optimizer (algorithm)", "sim/inject sampler",
             "objective/constraint scalers (user supplied)"],
}
PROBES = ["filter_row_compared", "compared_values", "filtered_function", "unfiltered_next_to_filtered", "stddev_compared",
          "batch_request", "nan_rows_seen", "zero_weight_realization", "twin_compared", "weighted_compared"]


def generate(seed: int, index: int, tier: str) -> dict:
    rng = random.Random(seed)
    stratum = index % 4
    kn = {}
    if stratum == 0:  # fault-free, no filters: trigger-free for everything
        kn = {"filters": False}
    elif stratum == 1:  # filters on every function or none (no -1 next to a filter)
        kn = {"filters": True}
    scn = gen.base_scenario(rng, PROP, nr_max=6, **kn)
    if stratum != 0:
        gen.add_nan_faults(rng, scn, rate=0.6)
    scn["stratum"] = ["plain", "filters", "mixed", "mixed"][stratum]
    scn["twin_seed"] = rng.getrandbits(32)
    return scn


def _twin(scn: dict) -> dict | None:
    """Same user-domain problem: batches split into singles, order permuted, values of the
    functions outside the target's influence set shifted."""
    if any(f.get("eval") is not None or f.get("vec") is not None for f in scn.get("faults", [])):
        return None
    cfg = scn["configs"][0]
    c = model.cfg_counts(cfg)
    rng = random.Random(scn["twin_seed"])
    funcs = [("o", j) for j in range(c["no"])] + [("c", j) for j in range(c["nc"])]
    target = funcs[rng.randrange(len(funcs))]
    infl = {target}
    f = model.filter_of(cfg, *target)
    if f >= 0:
        flt = cfg["realization_filters"][f]
        if flt["method"].endswith("objective"):
            infl |= {("o", j) for j in flt["options"]["sort"]}
        else:
            infl.add(("c", flt["options"]["sort"]))
    twin = copy.deepcopy(scn)
    offs = {}
    for kind, j in funcs:
        if (kind, j) not in infl:
            offs[f"{kind}{j}"] = round(rng.uniform(-5, 5), 3)
    twin["world"]["offsets"] = offs
    opts = twin["configs"][0]["optimizer"]["options"]
    new = []
    for e in opts["script"]:
        if e.get("batch"):
            new.extend({"op": "f", "pts": [p]} for p in e["pts"])
        else:
            new.append(e)
    rng.shuffle(new)
    opts["script"] = new
    step = twin["plan"]["steps"][0]
    if step.get("variables") is not None and len(step["variables"]) > 1:
        step["variables"] = list(reversed(step["variables"]))
    twin["_target"] = list(target)
    return twin


def _function_table(ctx, target):
    """x (user-domain bytes) -> list of reported optimizer-domain values of the target function."""
    table: dict[bytes, list[float]] = {}
    for ln in oracles.linked_results(ctx):
        if not ln.is_function or ln.opt.functions is None:
            continue
        arr = ln.opt.functions.objectives if target[0] == "o" else ln.opt.functions.constraints
        if arr is None:
            continue
        key = np.asarray(ln.user.evaluations.variables).round(12).tobytes()
        table.setdefault(key, []).append(float(arr[target[1]]))
    return table


def execute(scn: dict) -> dict:
    ctx = harness.run_scenario(scn)
    viol: list[dict] = []
    probes: dict[str, int] = {}

    def probe(name, n=1):
        probes[name] = probes.get(name, 0) + n

    compared = 0
    filter_ref: dict = {}
    for ln in oracles.linked_results(ctx):
        if not ln.is_function:
            continue
        cfg = ln.cfg
        if ln.call is None or ln.rows is None:
            continue
        if ln.call.kind == "f" and ln.call.variables.shape[0] > model.cfg_counts(cfg)["nr"]:
            probe("batch_request")
        tm = oracles.tm_for(ctx, cfg)
        c = model.cfg_counts(cfg)
        # sanity: the rows really belong to this result's point (else it is C06's business)
        xu = np.asarray(ln.user.evaluations.variables, dtype=float)
        if not np.allclose(ln.call.variables[ln.rows], xu[None, :], rtol=1e-9, atol=1e-12):
            continue
        fn = ln.opt.functions
        if fn is None:
            continue
        yo, yc = oracles.returned_opt_values(ln, tm)
        failed = oracles.failed_rows(ln)
        if failed.any():
            probe("nan_rows_seen")
        rw = model.realization_weights(cfg)
        if np.any(rw == 0):
            probe("zero_weight_realization")
        anyf = oracles.has_filters(cfg)
        for kind, n, rep, y in (("o", c["no"], fn.objectives, yo), ("c", c["nc"], fn.constraints, yc)):
            for j in range(n):
                w, filtered = oracles.weights_in_force(ln, kind, j)
                if w is None:
                    continue
                if filtered:
                    probe("filtered_function")
                    # the weights in force must be the ones produced by the filter mapped to this function
                    fi = model.filter_of(cfg, kind, j)
                    key = (ln.call.k, ln.pos, fi)
                    if key not in filter_ref:
                        filter_ref[key] = oracles.ref_filter_weights(cfg, cfg["realization_filters"][fi], yo, yc, failed,
                                                                     model.realization_weights(cfg), tm)
                    fw, ties = filter_ref[key]
                    if fw is not None and not ties:
                        probe("filter_row_compared")
                        if not np.allclose(w, fw, rtol=0, atol=1e-12):
                            viol.append({
                                "clause": "weights-in-force-not-from-mapped-filter", "sig": {"filters": len(cfg["realization_filters"])},
                                "detail": f"{'objective' if kind == 'o' else 'constraint'} {j} at eval {ln.call.k} is mapped to filter {fi} "
                                          f"({cfg['realization_filters'][fi]['method']}): weights in force {np.asarray(w).tolist()}, that filter's weights {fw.tolist()}"})
                            continue
                elif anyf:
                    probe("unfiltered_next_to_filtered")
                w = np.where(failed, 0.0, w)
                if w.sum() <= 0 or np.any(w < 0):
                    continue
                est = model.estimator_of(cfg, kind, j)
                ref = model.estimate(est, y[:, j], w)
                if ref is None:
                    continue
                compared += 1
                probe("compared_values")
                if est == "stddev":
                    probe("stddev_compared")
                got = float(rep[j])
                if not model.close(got, ref):
                    viol.append({
                        "clause": "function-value",
                        "sig": {"filtered": filtered, "config_has_filters": anyf, "estimator": est},
                        "detail": f"{'objective' if kind == 'o' else 'constraint'} {j} at eval {ln.call.k}: "
                                  f"reported {got!r}, reference {ref!r} (weights in force {np.round(w / w.sum(), 6).tolist()})",
                    })
        if not np.any(np.isnan(fn.objectives)):
            refw = float(np.dot(model.objective_weights(cfg), np.asarray(fn.objectives, dtype=float)))
            probe("weighted_compared")
            compared += 1
            if not model.close(float(fn.weighted_objective), refw):
                viol.append({
                    "clause": "weighted-objective", "sig": {},
                    "detail": f"eval {ln.call.k}: weighted objective {float(fn.weighted_objective)!r}, reference {refw!r}",
                })

    # independence clause: twin run
    twin = _twin(scn) if compared else None
    if twin is not None and not any(e[0] == "exception" for e in ctx.exits):
        tctx = harness.run_scenario(twin)
        target = tuple(twin["_target"])
        a = _function_table(ctx, target)
        b = _function_table(tctx, target)
        for key in a.keys() & b.keys():
            vals = a[key] + b[key]
            probe("twin_compared")
            ref = vals[0]
            for v in vals[1:]:
                if not (np.isnan(v) and np.isnan(ref)) and not np.isclose(v, ref, rtol=1e-12, atol=1e-13):
                    viol.append({
                        "clause": "independence", "sig": {},
                        "detail": f"function {target} reported {ref!r} and {v!r} for the same point when batch layout/"
                                  f"order/other functions' values changed",
                    })
                    break

    return {
        "violations": _dedupe(viol),
        "nontrivial": compared > 0,
        "key": oracles.scenario_key(scn),
        "probes": probes,
        "fired": dict(ctx.evaluator.fired),
        "digest": harness.trace_digest(ctx),
        "evals": len(ctx.evaluator.calls),
        "events": len(ctx.events),
        "stratum": scn.get("stratum"),
        "summary": {"exits": oracles.exits_summary(ctx), "compared": compared},
    }


def _dedupe(viol: list[dict]) -> list[dict]:
    seen, out = set(), []
    for v in viol:
        k = (v["clause"], repr(sorted(v["sig"].items())))
        if k not in seen:
            seen.add(k)
            out.append(v)
    return out


def reductions(scn: dict):
    from sim.reduce import generic_reductions

    yield from generic_reductions(scn)
