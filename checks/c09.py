"""C09  Fixed (masked-out) variables never move and never receive a gradient.

All masks for n <= 5 by stratified seeds, built-in and injected samplers incl. several
samplers on disjoint variable sets, variable scaling, scripted / real (SLSQP, Nelder-Mead,
differential_evolution) back-ends, multi-step plans and nested plans whose inner
optimization owns the complementary variables and returns results at varying points."""
from __future__ import annotations

import copy
import random

import numpy as np

from ropt.enums import EventType
from ropt.results import FunctionResults, GradientResults

from sim import gen, harness, model, oracles
from sim.seeds import H
from sim.simtransforms import TransformModel

PROP = "C09"
LEVEL = "exploration"
COUNT = {"quick": 6000, "thorough": None}
BUDGET = {"quick": 45, "thorough": 600}
CHUNK = 4000
RULE = (
    '35% of the nested family run the same step object once more without a nested plan. '
    "n = 1..5 variables; the mask is the binary expansion of (index//4) mod (2^n - 1) + 1, so every non-empty mask of every "
    "n is reached (all-free and single-free included); index%4 selects the family: 0/1 scripted single or multi-step plan, "
    "2 real back-end through the simwrap recorder (slsqp / nelder-mead / differential_evolution, short runs), 3 nested plan "
    "(inner optimization owns the complementary variables, scripted, inner results at varying points). Samplers: built-in or "
    "inject, 1-3 samplers assigned per variable; variable scale/offset transforms in 35%. Non-trivial = a mask with at least one "
    "fixed variable and at least one evaluator row or result checked; distinct = (family, n, mask, sampler layout, transforms, requests)."
)
ASSUMPTIONS = [
    "evaluator rows are attributed to their step through the identity of context.config",
    "in nested plans the value 'last delivered by the inner optimization' is the inner tracker's result at the end of the inner run",
]
COMPONENTS = {
    "real": ["EnsembleOptimizer._get_completed_variables / nested result handling", "EnsembleEvaluator._expand_gradients", "samplers", "SciPy plug-in (family 2)", "VariableScaler"],
    "stub": ["SimEvaluator", "sim/scripted optimizer", "simwrap recorder", "sim/inject sampler"],
}
PROBES = ["all_failed_gradient_checked", "inner_result_changes_between_runs", "relative_on_unbounded_fixed_rejected", "rows_checked", "results_checked", "gradient_zero_checked", "fixed_variable_present", "all_free_mask", "single_free_mask",
          "nested_inner_result_delivered", "nested_rows_checked", "step_run_again_without_nested_plan", "backend_sees_free_only", "real_backend", "several_samplers",
          "with_variable_transform", "perturbed_rows_checked", "multi_step"]
REAL = ["slsqp", "nelder-mead", "differential_evolution"]


def _mask_for(n: int, counter: int) -> list[bool]:
    m = counter % ((1 << n) - 1) + 1
    return [bool((m >> i) & 1) for i in range(n)]


def generate(seed: int, index: int, tier: str) -> dict:
    rng = random.Random(seed)
    family = index % 4
    counter = index // 4
    n = 1 + counter % 5
    mask = _mask_for(n, counter // 5)
    if family == 3 and n < 2:
        n = 2
        mask = [True, False]
    if family == 3 and all(mask):
        mask[rng.randrange(n)] = False
    scn = gen.base_scenario(rng, PROP, nv=n, nr_max=3, no_max=2, nc_max=(1 if family in (0, 1) else 0), npert_max=3,
                            filters=False, stddev=False, linear=False, mask=False, transforms=None,
                            bounds_style=("finite" if family == 2 else None), script_len=rng.randint(1, 4),
                            inject_p=0.5, zero_real_weights=False, rms=None, pms=None, step="optimizer",
                            world_kind="quadratic")
    cfg = scn["configs"][0]
    tr = scn.get("transforms")
    if tr:
        tr.pop("obj", None)
        tr.pop("con", None)
        if not tr.get("var"):
            scn["transforms"] = None
    if not all(mask):
        cfg["variables"]["mask"] = mask
    if family == 0 and not all(mask) and counter % 3 == 0:
        # relative perturbation magnitudes next to a fixed variable without finite bounds: the library may refuse
        # the configuration, but if it runs the fixed entries must stay what they are (inf * 0 is NaN)
        x0 = cfg["variables"]["initial_values"]
        lbs, ubs = [], []
        for i in range(n):
            if mask[i]:
                lbs.append(round(x0[i] - rng.uniform(0.5, 2.0), 3)); ubs.append(round(x0[i] + rng.uniform(0.5, 2.0), 3))
            else:
                side = rng.choice(["both", "lower", "upper"])
                lbs.append(-gen.INF if side in ("both", "lower") else round(x0[i] - 1.0, 3))
                ubs.append(gen.INF if side in ("both", "upper") else round(x0[i] + 1.0, 3))
        cfg["variables"]["lower_bounds"], cfg["variables"]["upper_bounds"] = lbs, ubs
        cfg["gradient"]["perturbation_types"] = rng.choice([2, [2] * n, [2 if (not mask[i] or rng.random() < 0.5) else 1 for i in range(n)]])
        cfg["gradient"]["perturbation_magnitudes"] = round(rng.uniform(0.01, 0.1), 3)
        scn["may_reject"] = True
    if family == 0 and not all(mask) and counter % 3 == 1:
        # threshold 0 and a NaN-tolerant algorithm: gradient evaluations in which every perturbed row fails (so every
        # realization fails) still report gradients - whose fixed entries are exactly zero like in any other gradient
        cfg["realizations"]["realization_min_success"] = 0
        cfg["optimizer"]["options"]["allow_nan"] = True
        npert_ = cfg["gradient"]["number_of_perturbations"]
        scn["faults"] = [{"kind": "nan", "eval": None, "real": None, "pert": p_, "col": None} for p_ in range(npert_)]
        scn["all_failed_gradients"] = True
    # every point a back-end or a step may start from lies inside the bounds (the quantifier's
    # "initial values inside the bounds"); given as optimizer-domain images
    tm0 = TransformModel(scn.get("transforms"), n, 1, 0)
    lb = cfg["variables"].get("lower_bounds", [-gen.INF] * n)
    ub = cfg["variables"].get("upper_bounds", [gen.INF] * n)
    cfg["optimizer"]["options"]["points"] = [
        [float(v) for v in tm0.x_to_opt(np.array(gen.gen_point_inside(rng, lb, ub)))] for _ in range(rng.randint(2, 3))]
    for e in cfg["optimizer"]["options"]["script"]:
        e["pts"] = [rng.randrange(-1, len(cfg["optimizer"]["options"]["points"])) for _ in e["pts"]]
    # several samplers on disjoint variable sets
    ns = rng.choice([1, 1, 2, 3])
    if ns > 1:
        methods = ["norm", "uniform", "lhs", "sobol", "sim/inject"]
        cfg["samplers"] = []
        for _ in range(ns):
            m = rng.choice(methods)
            s = {"method": m, "shared": rng.random() < 0.4}
            if m == "sim/inject":
                s["options"] = {"design": "hash", "sseed": rng.getrandbits(20), "amp": 1.0}
            cfg["samplers"].append(s)
        cfg["gradient"]["samplers"] = [rng.randrange(ns) for _ in range(n)]
    scn["family"] = family
    if family == 1:
        k = rng.randint(2, 3)
        pts = cfg["optimizer"]["options"]["points"]
        steps = []
        for _ in range(k):
            kind = rng.choice(["optimizer", "evaluator"])
            st = {"kind": kind, "cfg": 0}
            if rng.random() < 0.5:
                st["variables"] = list(pts[rng.randrange(len(pts))]) if kind == "optimizer" else [list(pts[rng.randrange(len(pts))]) for _ in range(rng.randint(1, 2))]
            steps.append(st)
        scn["plan"]["steps"] = steps
    elif family == 2:
        method = rng.choice(REAL)
        opt = {"method": f"simwrap/{method}", "tolerance": 1e-3}
        opt["options"] = {"maxiter": rng.randint(1, 3)} if method != "differential_evolution" else \
            {"maxiter": 1, "popsize": 2, "seed": rng.randint(1, 99), "tol": 0.5}
        if method == "differential_evolution" and rng.random() < 0.5:
            opt["parallel"] = True
        cfg["optimizer"] = opt
        scn["simwrap"] = True
        scn["method"] = method
    elif family == 3:
        inner = copy.deepcopy(cfg)
        inner["variables"]["mask"] = [not m for m in mask]
        inner["optimizer"]["options"]["script"] = [{"op": rng.choice(["f", "fg"]), "pts": [rng.randrange(-1, len(inner["optimizer"]["options"]["points"]))]}
                                                   for _ in range(rng.randint(1, 3))]
        if rng.random() < 0.5:
            # an inner algorithm that moves on from where it is started: every inner run delivers other values
            # for the outer's fixed variables, also between a function and a gradient request at one outer point
            for e in inner["optimizer"]["options"]["script"]:
                e["pts"] = [{"rel": [round(rng.uniform(-0.3, 0.3), 2) for _ in range(n)]}]
            scn["inner_moves"] = True
            # (the walk must not leave the bounds - the statement speaks of values inside the bounds - so there are none)
            for c_ in (cfg, inner):
                c_["variables"].pop("lower_bounds", None)
                c_["variables"].pop("upper_bounds", None)
                if any(t == 2 for t in np.atleast_1d(c_["gradient"].get("perturbation_types", 1))):
                    c_["gradient"].pop("perturbation_types", None)
        scn["configs"].append(inner)
        for e in cfg["optimizer"]["options"]["script"]:
            e.pop("batch", None)
            e["pts"] = e["pts"][:1]
        if rng.random() < 0.5 and cfg["optimizer"]["options"]["script"]:
            # function request followed by a gradient request at the same outer point
            p0 = cfg["optimizer"]["options"]["script"][0]["pts"]
            cfg["optimizer"]["options"]["script"][:1] = [{"op": "f", "pts": list(p0)}, {"op": "g", "pts": list(p0)}]
        scn["plan"]["steps"] = [{"kind": "optimizer", "cfg": 0,
                                 "nested": {"steps": [{"kind": "optimizer", "cfg": 1}], "recorders": ["a"],
                                            "trackers": [{"what": rng.choice(["best", "last"]), "tol": None, "sources": [0]}]}}]
        if rng.random() < 0.35:
            # the user runs the same step object once more, this time as a plain optimization without a nested
            # plan: nothing of the first run's nested optimization may take part in it
            scn["plan"]["steps"].append({"kind": "optimizer", "cfg": 0, "same_as": 0})
            scn["rerun_plain"] = True
    scn["stratum"] = ["scripted", "multi-step", "real", "nested"][family]
    return scn


def _user(tm, x):
    return tm.x_to_user(np.asarray(x, float))


def execute(scn: dict) -> dict:
    ctx = harness.run_scenario(scn)
    viol: list[dict] = []
    probes: dict[str, int] = {}

    def probe(name, n=1):
        probes[name] = probes.get(name, 0) + n

    family = scn["family"]
    cfgs = scn["configs"]
    nv = len(scn["world"]["var_ids"])
    tm = TransformModel(scn.get("transforms"), nv, 1, 0)
    if tm.has_var:
        probe("with_variable_transform")
    if len(cfgs[0].get("samplers", [])) > 1:
        probe("several_samplers")
    mask0 = model.mask_of(cfgs[0])
    if mask0.all():
        probe("all_free_mask")
    else:
        probe("fixed_variable_present")
    if mask0.sum() == 1:
        probe("single_free_mask")
    if family == 1:
        probe("multi_step")
    if family == 2:
        probe("real_backend")
    checked = 0
    # --- map validated config objects (one per step run) to their step and run ordinal -----------
    runs = []  # (config object, source, expected fixed user-domain values provider)
    cfg_runs: dict[int, dict] = {}
    order = []
    for rec in ctx.events:
        if rec.type in (EventType.START_OPTIMIZER_STEP, EventType.START_EVALUATOR_STEP):
            info = {"config": rec.config, "source": rec.source, "start_event": rec.n}
            cfg_runs[id(rec.config)] = info
            order.append(info)
    top_steps = scn["plan"]["steps"]
    # expected fixed values for each run
    inner_tracker = next((t for t in ctx.trackers if t["level"] == 1), None)
    outer_requests = []
    if family == 3:
        outer_cfg_obj = next((i["config"] for i in order if ctx.step_meta[i["source"]]["level"] == 0), None)
        outer_requests = [b for b in ctx.backend_log if b.get("ev") == "request" and b.get("config") is outer_cfg_obj]
    inner_run_no = 0
    outer_fixed_timeline = []  # (event number from which it holds, values on ~mask0 in user domain)
    outer_runs = 0
    for info in order:
        meta = ctx.step_meta[info["source"]]
        raw = cfgs[meta["cfg"]]
        mask = model.mask_of(raw)
        info["mask"] = mask
        if meta["level"] == 0:
            info["outer_run"] = outer_runs
            outer_runs += 1
            if info["outer_run"] == 1:
                probe("step_run_again_without_nested_plan")
        elif scn.get("rerun_plain") and outer_runs >= 2:
            viol.append({"clause": "nested-optimization-of-earlier-run-ran-again", "sig": {},
                         "detail": f"event {info['start_event']}: an inner step started during the second run of the step, "
                                   "which was given no nested optimization"})
        if meta["level"] == 0:
            sspec = top_steps[info["source"]] if info["source"] < len(top_steps) else {}
            v = sspec.get("variables")
            if v is not None and np.ndim(v) == 1:
                start_user = _user(tm, v)
            elif v is not None:
                start_user = None  # evaluator step with explicit vectors: every vector is what it is
            else:
                start_user = np.asarray(raw["variables"]["initial_values"], float)
            info["expected"] = None if start_user is None else start_user[~mask]
        else:
            # inner run: its fixed variables are the outer's requested values
            if inner_run_no < len(outer_requests):
                xo = np.asarray(outer_requests[inner_run_no]["x"], float)
                x0_opt = tm.x_to_opt(np.asarray(cfgs[0]["variables"]["initial_values"], float))
                full = x0_opt.copy()
                # outer fixed values may already have been replaced by an earlier inner result
                if outer_fixed_timeline:
                    full_user = tm.x_to_user(full)
                    full_user[~mask0] = outer_fixed_timeline[-1][1]
                    full = tm.x_to_opt(full_user)
                full[mask0] = xo
                info["expected"] = tm.x_to_user(full)[~mask]
            else:
                info["expected"] = None
            inner_run_no += 1
            # what did this inner run deliver?
            end = next((r for r in ctx.events if r.n > info["start_event"] and r.type == EventType.FINISHED_OPTIMIZER_STEP and r.config is info["config"]), None)
            if end is not None and inner_tracker is not None and end.tracker_state is not None:
                held = end.tracker_state[ctx.trackers.index(inner_tracker)]
                if held is not None:
                    probe("nested_inner_result_delivered")
                    if outer_fixed_timeline and not np.array_equal(outer_fixed_timeline[-1][1], np.asarray(held.evaluations.variables, float)[~mask0]):
                        probe("inner_result_changes_between_runs")
                    outer_fixed_timeline.append((end.n, np.asarray(held.evaluations.variables, float)[~mask0]))
    # --- evaluator rows ------------------------------------------------------------------------
    call_event = {}
    last_event_before_call = {}
    ev_idx = 0
    for c in ctx.evaluator.calls:
        info = cfg_runs.get(id(c.config))
        if info is None:
            continue
        mask = info["mask"]
        if mask.all():
            continue
        meta = ctx.step_meta[info["source"]]
        exp = info["expected"]
        if meta["level"] == 0 and family == 3 and info.get("outer_run", 0) == 0:
            # outer rows: start values until an inner result was delivered, then that result's values.
            # find the most recent inner delivery before this call: calls are ordered like events; use batch ids
            delivered = [v for (n, v) in outer_fixed_timeline if _event_before_call(ctx, n, c.k)]
            if delivered:
                exp = delivered[-1]
        if exp is None:
            continue
        rows = c.variables[:, ~mask]
        checked += 1
        probe("rows_checked", rows.shape[0])
        if c.kind in ("g", "fg"):
            probe("perturbed_rows_checked")
        if meta["level"] > 0 or family == 3:
            probe("nested_rows_checked")
        if not np.allclose(rows, exp[None, :], rtol=1e-9, atol=1e-12):
            bad = int(np.argmax(np.any(~np.isclose(rows, exp[None, :], rtol=1e-9, atol=1e-12), axis=1)))
            viol.append({"clause": "fixed-variable-moved-in-evaluator-row",
                         "sig": {"level": meta["level"], "nested": family == 3, "transforms": tm.has_var, "kind": c.kind},
                         "detail": f"evaluator call {c.k} ({c.kind}) row {bad} (perturbation {None if c.perturbations is None else int(c.perturbations[bad])}): "
                                   f"fixed entries {rows[bad].tolist()}, expected {exp.tolist()} (mask {mask.tolist()})"})
    # --- results (both domains) and gradients -----------------------------------------------------
    for ln in oracles.linked_results(ctx):
        info = cfg_runs.get(id(ln.rec.config))
        if info is None:
            continue
        mask = info["mask"]
        if mask.all():
            continue
        checked += 1
        probe("results_checked")
        uv = np.asarray(ln.user.evaluations.variables, float)
        ov = np.asarray(ln.opt.evaluations.variables, float)
        if not np.allclose(tm.x_to_user(ov)[~mask], uv[~mask], rtol=1e-9, atol=1e-12):
            viol.append({"clause": "result-domains-disagree-on-fixed", "sig": {}, "detail": f"event {ln.rec.n}"})
        if ln.call is not None and ln.rows is not None:
            rows = ln.call.variables[ln.rows][:, ~mask]
            if not np.allclose(rows if ln.is_function else rows, uv[~mask][None, :], rtol=1e-9, atol=1e-12):
                viol.append({"clause": "reported-fixed-differs-from-evaluator-row", "sig": {"function": ln.is_function},
                             "detail": f"event {ln.rec.n}: reported variables {uv.tolist()}, evaluator rows fixed entries {rows.tolist()}"})
        if not ln.is_function:
            pv = np.asarray(ln.user.evaluations.perturbed_variables, float)
            if not np.allclose(pv[..., ~mask], uv[~mask], rtol=1e-9, atol=1e-12):
                viol.append({"clause": "perturbation-moved-fixed-variable", "sig": {},
                             "detail": f"event {ln.rec.n}: perturbed variables {pv[..., ~mask].tolist()} vs {uv[~mask].tolist()}"})
            for res in (ln.user, ln.opt):
                g = res.gradients
                if g is None:
                    continue
                probe("gradient_zero_checked")
                if scn.get("all_failed_gradients") and np.all(np.asarray(ln.opt.realizations.failed_realizations)):
                    probe("all_failed_gradient_checked")
                arrs = [np.asarray(g.weighted_objective), np.asarray(g.objectives)]
                if g.constraints is not None:
                    arrs.append(np.asarray(g.constraints))
                if any(np.any(a[..., ~mask] != 0.0) for a in arrs):
                    viol.append({"clause": "fixed-variable-gradient-not-zero", "sig": {}, "detail": f"event {ln.rec.n}: {[a.tolist() for a in arrs]}"})
    # --- the algorithm only sees free variables ----------------------------------------------------
    for b in ctx.backend_log:
        if b.get("ev") == "start":
            raw_mask = None
            for info in order:
                if info["config"] is b.get("config"):
                    raw_mask = info["mask"]
            if raw_mask is not None:
                probe("backend_sees_free_only")
                if b["n_free"] != int(raw_mask.sum()):
                    viol.append({"clause": "backend-sees-fixed-variables", "sig": {}, "detail": f"x0 of length {b['n_free']} with mask {raw_mask.tolist()}"})
    if getattr(ctx, "fake", None) is not None:
        for r in ctx.fake.callback_log:
            probe("backend_sees_free_only")
            if np.asarray(r["x"]).shape[-1] != int(mask0.sum()):
                viol.append({"clause": "backend-sees-fixed-variables", "sig": {"real": True},
                             "detail": f"callback variables of shape {np.asarray(r['x']).shape} with mask {mask0.tolist()}"})
                break
    for e in ctx.exits:
        if e[0] == "exception" and scn.get("may_reject") and not ctx.evaluator.calls and (
                "ValidationError" in str(e[2]) or "ConfigError" in str(e[2])):
            probe("relative_on_unbounded_fixed_rejected")
            continue
        if e[0] == "exception":
            viol.append({"clause": "run-raised", "sig": {"what": str(e[2]).split(":")[0], "family": scn["stratum"]}, "detail": f"{e}"})
    key = (scn["stratum"], nv, str(cfgs[0]["variables"].get("mask")), str(cfgs[0]["gradient"].get("samplers")),
           str([s["method"] for s in cfgs[0].get("samplers", [])]), tm.has_var, scn.get("method"),
           str([(e["op"], len(e["pts"])) for e in (cfgs[0]["optimizer"].get("options") or {}).get("script", [])]))
    return {
        "violations": _dedupe(viol),
        "nontrivial": checked > 0 and not mask0.all(),
        "key": f"{H(str(key)):016x}",
        "probes": probes,
        "fired": dict(ctx.evaluator.fired),
        "digest": harness.trace_digest(ctx),
        "evals": len(ctx.evaluator.calls),
        "events": len(ctx.events),
        "stratum": scn.get("stratum"),
        "summary": {"exits": oracles.exits_summary(ctx), "checked": checked},
    }


def _event_before_call(ctx, event_n: int, call_k: int) -> bool:
    """True when event number event_n was emitted before evaluator call call_k started:
    the first event that carries results of call_k (or a later call) comes after the call."""
    for rec in ctx.events:
        if rec.results is None:
            continue
        for item in (rec.transformed if rec.transformed is not None else rec.results):
            if isinstance(item.batch_id, int) and item.batch_id >= call_k:
                return event_n < rec.n
    return True


def _dedupe(viol):
    seen, out = set(), []
    for v in viol:
        k = (v["clause"], repr(sorted(v["sig"].items())))
        if k not in seen:
            seen.add(k)
            out.append(v)
    return out


def reductions(scn: dict):
    if len(scn["configs"]) > 1:
        return
    from sim.reduce import generic_reductions

    for c in generic_reductions(scn):
        if len(c["world"]["var_ids"]) == len(scn["world"]["var_ids"]) and c["configs"][0]["variables"].get("mask") == scn["configs"][0]["variables"].get("mask"):
            yield c
