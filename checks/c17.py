"""C17  Samplers obey the perturbation-sample contract, including QMC point integrity.

Every built-in method x shared x masks x per-variable sampler assignments x counts, 1-5
gradient requests per run (repeated calls on the same sampler).  A tap around the real
SciPy sampler records what generate_samples returned and what the QMC engine produced
during that call."""
from __future__ import annotations

import random

import numpy as np

from sim import backend, gen, harness, model, oracles

PROP = "C17"
LEVEL = "exploration"
COUNT = {"quick": 5000, "thorough": None}
BUDGET = {"quick": 45, "thorough": 600}
CHUNK = 4000
RULE = (
    '30% of the runs hand the step a validated configuration object from which a second configuration with uniform<->truncnorm exchanged is derived and asked for one gradient afterwards. '
    "scripted runs with 1-5 gradient requests; 1-3 samplers of methods uniform/norm/truncnorm/sobol/halton/lhs (method "
    "cycles with the index so all are covered), shared on/off, masks, per-variable sampler assignment (incl. samplers "
    "left without variables), 1-6 realizations, 1-6 perturbations, 1-5 variables, seeds. Non-trivial = at least one "
    "generate_samples() call was checked; distinct = coarse scenario key + methods."
)
ASSUMPTIONS = [
    "the QMC engines' own points (tapped at QMCEngine.random) are the reference sequence; the check is robust to how the engine is seeded or chunked",
    "monitor fit with tapped randomness (DESIGN.md): verdicts depend only on configuration, seed and call index",
]
COMPONENTS = {
    "real": ["SciPySampler (all methods)", "scipy.stats / scipy.stats.qmc engines", "EnsembleEvaluator._init_samplers / _perturb_variables"],
    "stub": ["tap wrapper around the sampler", "SimEvaluator", "sim/scripted optimizer"],
}
PROBES = ["derived_default_sampler_checked", "short_assignment", "explicit_options_sampler", "calls_checked", "qmc_calls", "lhs_stratification_checked", "shared_checked", "unshared_checked",
          "masked_columns_checked", "repeated_call", "sampler_without_variables", "bounded_checked"]
METHODS = ["uniform", "norm", "truncnorm", "sobol", "halton", "lhs"]
BOUNDED = {"uniform", "truncnorm", "sobol", "halton", "lhs"}
QMC = {"sobol", "halton", "lhs"}


def generate(seed: int, index: int, tier: str) -> dict:
    rng = random.Random(seed)
    scn = gen.base_scenario(rng, PROP, nv_max=5, nr_max=6, npert_max=6, no_max=1, nc_max=1, filters=False, stddev=False,
                            linear=False, transforms=False, script_len=rng.randint(1, 5), ops=("g", "fg"),
                            bounds_style="none", rms=None, pms=None, zero_real_weights=False, step="optimizer",
                            mask=(rng.random() < 0.4))
    cfg = scn["configs"][0]
    nv = len(scn["world"]["var_ids"])
    ns = rng.choice([1, 1, 2, 3])
    cfg["samplers"] = [{"method": "tap/" + (METHODS[index % 6] if i == 0 else rng.choice(METHODS)),
                        "shared": rng.random() < 0.5} for i in range(ns)]
    # some samplers carry explicit distribution options; default-configured ones next to them (and after
    # them, in the same process) must still honour the default range
    for smp in cfg["samplers"]:
        m = smp["method"].split("/")[1]
        if rng.random() < 0.3:
            if m == "uniform":
                smp["options"] = {"loc": -5.0, "scale": 10.0}
            elif m == "truncnorm":
                smp["options"] = {"a": -3.0, "b": 3.0}
            elif m == "norm":
                smp["options"] = {"scale": 2.0}
    if ns > 1 and rng.random() < 0.4:
        m0 = cfg["samplers"][0]["method"]
        cfg["samplers"][-1] = {"method": m0, "shared": rng.random() < 0.5}  # same method, default options
    if ns > 1:
        assign = [rng.randrange(ns) for _ in range(nv)]
        if rng.random() < 0.3:
            assign = [rng.randrange(1, ns) for _ in range(nv)]  # sampler 0 gets no variables
        if rng.random() < 0.2:
            assign[rng.randrange(nv)] = -1
        m = cfg["variables"].get("mask") or [True] * nv
        if not any(a >= 0 and mm for a, mm in zip(assign, m)):
            assign[[i for i, mm in enumerate(m) if mm][0]] = rng.randrange(ns)
        cfg["gradient"]["samplers"] = assign
        if rng.random() < 0.2:
            # "all variables use sampler k", written the short way (size-one arrays are broadcast)
            cfg["gradient"]["samplers"] = [rng.randrange(ns)]
    elif rng.random() < 0.15:
        cfg["gradient"]["samplers"] = [0]
    cfg["gradient"]["boundary_types"] = 1
    if rng.random() < 0.3:
        scn["validated_config_object"] = True
    scn["stratum"] = cfg["samplers"][0]["method"]
    return scn


def execute(scn: dict) -> dict:
    backend.TAP_LOG.clear()
    ctx = harness.run_scenario(scn)
    viol: list[dict] = []
    probes: dict[str, int] = {}

    def probe(name, n=1):
        probes[name] = probes.get(name, 0) + n

    cfg = scn["configs"][0]
    c = model.cfg_counts(cfg)
    nr, npert, nv = c["nr"], c["np"], c["nv"]
    assign = cfg["gradient"].get("samplers")
    if assign is not None and len(assign) == 1:
        assign = list(assign) * nv
        probe("short_assignment")
    if assign is not None:
        used = {a for a, m in zip(assign, model.mask_of(cfg)) if a >= 0 and m}
        if len(used) < len(cfg["samplers"]):
            probe("sampler_without_variables")
    ex = ctx.exits[0] if ctx.exits else None
    if ex is not None and ex[0] == "exception":
        viol.append({"clause": "sampler-setup-exception", "sig": {},
                     "detail": f"run ended with {ex[2]} (samplers {cfg['samplers']}, assignment {assign}, mask {cfg['variables'].get('mask')})"})
    checked = 0
    for rec in backend.TAP_LOG:
        s = rec["samples"]
        method = rec["method"]
        given = np.ones(nv, bool) if rec["mask"] is None else np.asarray(rec["mask"], bool)
        # the variables this sampler handles, from the raw configuration: free and assigned to it
        mask = model.mask_of(cfg) & (np.ones(nv, bool) if assign is None else (np.asarray(assign) == rec["index"]))
        where = f"sampler {rec['index']} ({method}, shared={rec['shared']}) call {rec['call']}"
        if not np.array_equal(given, mask):
            viol.append({"clause": "sampler-given-wrong-variables", "sig": {},
                         "detail": f"{where}: handles variables {np.where(given)[0].tolist()}, configuration says {np.where(mask)[0].tolist()} "
                                   f"(mask {cfg['variables'].get('mask')}, assignment {assign})"})
            continue
        checked += 1
        probe("calls_checked")
        if rec["call"] > 0:
            probe("repeated_call")
        if s.shape != (nr, npert, nv):
            viol.append({"clause": "sample-shape", "sig": {}, "detail": f"{where}: shape {s.shape}, expected {(nr, npert, nv)}"})
            continue
        if (~mask).any():
            probe("masked_columns_checked")
            if np.any(s[..., ~mask] != 0.0):
                viol.append({"clause": "unhandled-column-not-zero", "sig": {}, "detail": f"{where}: mask {mask.tolist()} samples {s.tolist()}"})
                continue
        h = s[..., mask]
        if rec["shared"]:
            probe("shared_checked")
            if not all(np.array_equal(h[0], h[r]) for r in range(nr)):
                viol.append({"clause": "shared-not-identical", "sig": {}, "detail": f"{where}: realizations differ"})
                continue
        elif nr > 1 and h.size:
            probe("unshared_checked")
            if all(np.array_equal(h[0], h[r]) for r in range(1, nr)):
                viol.append({"clause": "unshared-identical", "sig": {}, "detail": f"{where}: all realizations received identical perturbations"})
                continue
        explicit = bool(cfg["samplers"][rec["index"]].get("options"))
        if explicit:
            probe("explicit_options_sampler")
        if method in BOUNDED and not explicit:
            probe("bounded_checked")
            if np.any(np.abs(h) > 1.0 + 1e-12):
                viol.append({"clause": "out-of-range", "sig": {"method": method}, "detail": f"{where}: max |sample| {np.abs(h).max()}"})
                continue
        if method in QMC and h.size:
            probe("qmc_calls")
            pts = [p for p in rec["engine_points"]]
            if not pts:
                viol.append({"clause": "qmc-engine-not-used", "sig": {}, "detail": where})
                continue
            eng = np.vstack(pts) * 2.0 - 1.0
            got = (h[0] if rec["shared"] else h.reshape(-1, h.shape[-1]))
            if got.shape != eng.shape:
                viol.append({"clause": "qmc-point-count", "sig": {}, "detail": f"{where}: {got.shape} vs engine {eng.shape}"})
                continue
            a = got[np.lexsort(got.T[::-1])]
            b = eng[np.lexsort(eng.T[::-1])]
            if not np.allclose(a, b, rtol=0, atol=1e-12):
                viol.append({"clause": "qmc-point-integrity", "sig": {"method": method},
                             "detail": f"{where}: perturbation vectors {got.round(4).tolist()} are not the engine points {eng.round(4).tolist()}"})
                continue
            if method == "lhs":
                n = got.shape[0]
                probe("lhs_stratification_checked")
                strata = np.floor((got + 1.0) / 2.0 * n).astype(int).clip(0, n - 1)
                for col in range(strata.shape[1]):
                    if sorted(strata[:, col].tolist()) != list(range(n)):
                        viol.append({"clause": "lhs-stratification", "sig": {},
                                     "detail": f"{where}: strata of variable {col}: {strata[:, col].tolist()}"})
                        break

    # a second configuration derived from the validated one the run used: the settings of a default-configured
    # sampler copied with only the method exchanged (uniform <-> truncnorm) give a default-configured sampler of the
    # other method, which keeps to [-1, 1] - nothing the first run did to its own sampler shows up in it
    if scn.get("validated_config_object") and (ex is None or ex[0] != "exception"):
        from ropt.config.enopt import EnOptConfig
        from ropt.ensemble_evaluator import EnsembleEvaluator

        config1 = next((r.config for r in ctx.events if isinstance(r.config, EnOptConfig)), None)
        swap = {"uniform": "truncnorm", "truncnorm": "uniform"}
        ks = [k for k, sm in enumerate(cfg["samplers"]) if not sm.get("options") and sm["method"].split("/")[1] in swap]
        if config1 is not None and ks:
            new = list(config1.samplers)
            for k in ks:
                new[k] = new[k].model_copy(update={"method": "tap/" + swap[cfg["samplers"][k]["method"].split("/")[1]]})
            config2 = config1.model_copy(update={"samplers": tuple(new)})
            mark = len(backend.TAP_LOG)
            try:
                ee = EnsembleEvaluator(config2, None, ctx.evaluator, ctx.context.plugin_manager)
                ee.calculate(np.asarray(config2.variables.initial_values, dtype=np.float64), compute_functions=True, compute_gradients=True)
            except Exception as exc:  # noqa: BLE001
                viol.append({"clause": "sampler-setup-exception", "sig": {"derived": True},
                             "detail": f"configuration derived from the validated one (sampler methods exchanged): {type(exc).__name__}: {exc}"})
            for rec in backend.TAP_LOG[mark:]:
                if rec["index"] in ks:
                    probe("derived_default_sampler_checked")
                    given = np.ones(nv, bool) if rec["mask"] is None else np.asarray(rec["mask"], bool)
                    h = rec["samples"][..., given]
                    if h.size and np.any(np.abs(h) > 1.0 + 1e-12):
                        viol.append({"clause": "out-of-range", "sig": {"method": rec["method"], "derived": True},
                                     "detail": f"sampler {rec['index']} ({rec['method']}, no options given) of a configuration derived from the one "
                                               f"an earlier run used: max |sample| {np.abs(h).max()}"})
    return {
        "violations": _dedupe(viol),
        "nontrivial": checked > 0,
        "key": oracles.scenario_key(scn, str(assign)),
        "probes": probes,
        "fired": dict(ctx.evaluator.fired),
        "digest": harness.trace_digest(ctx),
        "evals": len(ctx.evaluator.calls),
        "events": len(ctx.events),
        "stratum": scn.get("stratum"),
        "summary": {"exits": oracles.exits_summary(ctx), "checked": checked},
    }


def _dedupe(viol):
    seen, out = set(), []
    for v in viol:
        k = (v["clause"], repr(sorted(v["sig"].items())))
        if k not in seen:
            seen.add(k)
            out.append(v)
    return out


def reductions(scn: dict):
    from sim.reduce import generic_reductions

    yield from generic_reductions(scn)
