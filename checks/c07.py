"""C07  Values handed to the optimizer match the ensemble for any request order.

FakeSciPy receives what the SciPy plug-in passes to scipy.optimize and executes a seeded
script over {objective, gradient, constraint value k, constraint Jacobian k, (DE) population
objective / constraint} x points of a pool (identical or well separated), for every
combination of speculative x split_evaluations and gradient-based, gradient-free and
population methods.  Callback invocations are recorded by the simwrap plug-in."""
from __future__ import annotations

import copy
import random

import numpy as np

from sim import gen_scipy, harness, model, oracles
from sim.gen_scipy import DE, GRADIENT, NOGRAD

PROP = "C07"
LEVEL = "exploration"
COUNT = {"quick": 6000, "thorough": None}
BUDGET = {"quick": 45, "thorough": 600}
CHUNK = 4000
RULE = (
    'Kept-object stratum (index%12==7): one EnsembleOptimizer object started 2-3 times at points with the same free and other fixed variables, the request script replayed at every start; variable-transform stratum (index%12==3): a variable scaler with scales and offsets, values referenced at the user-domain image. '
    "even indices: short-script stratum - the request sequence (length 1-4) is the base-A expansion of the stratum counter "
    "over the scenario's alphabet {f, g, c_k, j_k} x {2 pool points}, so all short orders are reached as the counter grows; "
    "odd indices: sampled scripts of length 1-10 over a 3-4 point pool with identical copies. Method, constraints (kinds "
    "supported by the method), mask, bounds, speculative, split_evaluations, parallel (DE) are seeded. Non-trivial = at least "
    "one value returned to the algorithm was compared with the reference at its point and the script visits >= 2 distinct "
    "points or repeats a point; distinct = (method, flags, constraint layout, request sequence)."
)
ASSUMPTIONS = [
    "one realization, quadratic world, identity perturbation design: reference gradient = forward difference with the configured step (rtol 1e-6)",
    "ensemble stratum (every 6th run: 2-3 realizations, one losing a perturbed evaluation at every gradient evaluation): function and constraint values are compared with the weighted mean over all realizations, gradients only between the speculative and the non-speculative run",
    "not asserted: that the ensemble layer avoids re-evaluating unperturbed rows when a gradient is requested first (the statement speaks of quantities)",
    "scipy.optimize itself is replaced by the FakeSciPy stub; the SciPy plug-in, its caches and NormalizedConstraints are real",
]
COMPONENTS = {
    "real": ["SciPyOptimizer (caches, _fun/_jac, NormalizedConstraints, option parsing)", "EnsembleOptimizer callback", "EnsembleEvaluator"],
    "stub": ["FakeSciPy (scipy.optimize.minimize / differential_evolution)", "simwrap recording wrapper", "SimEvaluator", "sim/inject sampler"],
}
PROBES = ["evaluator_level_clauses_checked", "ensemble_with_failed_perturbations", "values_compared", "constraint_first_at_new_point", "jacobian_first_at_new_point", "gradient_first_at_new_point",
          "repeat_same_point", "population_request", "speculative", "split", "speculative_twin_compared", "gradient_free_method",
          "callback_invocations", "linear_rows_in_script", "shape_change",
          "with_variable_transform", "optimizer_object_restarted", "restarts_compared", "restart_same_free_other_fixed"]


def _generate_restarts(rng: random.Random) -> dict:
    """One EnsembleOptimizer object started two or three times; later starts keep the free variables of the point the
    algorithm asked for last and differ in the fixed variables (a different point with the same free part)."""
    for _ in range(40):
        scn = gen_scipy.scipy_scenario(rng, PROP)
        cfg = scn["configs"][0]
        if cfg["variables"].get("mask") is not None and "linear_constraints" not in cfg:
            break
    cfg = scn["configs"][0]
    alpha = gen_scipy.alphabet(scn)
    pool = scn["fake"]["points"]
    script = []
    for _ in range(rng.randint(1, 5)):
        q, k = alpha[rng.randrange(len(alpha))]
        script.append({"q": q, "k": k, "pt": rng.randrange(-1, len(pool))})
    if rng.random() < 0.7:
        # the run ends at the point it began with
        script[-1]["pt"] = script[0]["pt"]
    if scn["method"] == DE:
        for e in script:
            e["pts"] = [e["pt"]]
    scn["fake"]["script"] = script
    x0 = [float(v) for v in cfg["variables"]["initial_values"]]
    mask = cfg["variables"].get("mask") or [True] * len(x0)
    lb = cfg["variables"].get("lower_bounds")
    ub = cfg["variables"].get("upper_bounds")
    starts = [x0]
    for _ in range(rng.randint(1, 2)):
        nxt = list(starts[-1])
        for i, free in enumerate(mask):
            if not free or rng.random() < 0.25:
                v = nxt[i] + rng.choice([-1, 1]) * round(rng.uniform(0.2, 1.5), 2)
                if lb is not None and np.isfinite(np.atleast_1d(lb)[i % np.size(lb)]):
                    v = max(v, float(np.atleast_1d(lb)[i % np.size(lb)]))
                if ub is not None and np.isfinite(np.atleast_1d(ub)[i % np.size(ub)]):
                    v = min(v, float(np.atleast_1d(ub)[i % np.size(ub)]))
                nxt[i] = float(v)
        starts.append(nxt)
    scn["starts"] = starts
    scn["entry"] = "optimizer_object_restarts"
    scn["stratum"] = "optimizer-object-restarted"
    return scn


def _execute_restarts(scn: dict) -> dict:
    ctx = harness.run_scenario(scn)
    viol: list[dict] = []
    probes: dict[str, int] = {"optimizer_object_restarted": 1}
    cfg = scn["configs"][0]
    marks = list(getattr(ctx, "restart_marks", [])) + [len(ctx.fake.log)]
    compared = 0
    mask = np.asarray(cfg["variables"].get("mask") or [True] * len(scn["starts"][0]), bool)
    for i, e in enumerate(ctx.exits):
        if e[0] != "ret":
            viol.append({"clause": "request-sequence-raised", "sig": {"exception": str(e[2]).split(":")[0], "entry": "restart"},
                         "detail": f"start {i} of one EnsembleOptimizer object ended with {e}"})
    for i in range(min(len(marks) - 1, len(ctx.exits))):
        if ctx.exits[i][0] != "ret":
            break
        c = copy.deepcopy(cfg)
        c["variables"]["initial_values"] = list(scn["starts"][i])
        if i > 0:
            probes["restarts_compared"] = probes.get("restarts_compared", 0) + 1
            a, b = np.asarray(scn["starts"][i - 1], float), np.asarray(scn["starts"][i], float)
            if np.array_equal(a[mask], b[mask]) and not np.array_equal(a[~mask], b[~mask]):
                probes["restart_same_free_other_fixed"] = probes.get("restart_same_free_other_fixed", 0) + 1
        nviol = len(viol)
        compared += _compare_log(ctx, c, viol, probes, log=ctx.fake.log[marks[i]:marks[i + 1]])
        for v in viol[nviol:]:
            v["sig"] = {**v["sig"], "start": min(i, 1)}
            v["detail"] = f"start {i} of one EnsembleOptimizer object at {scn['starts'][i]}: " + v["detail"]
    from sim.seeds import H
    key = ("restart", scn["method"], str(cfg["variables"].get("mask")), len(scn["starts"]),
           str([(e["q"], e.get("k"), e.get("pt")) for e in scn["fake"]["script"]]))
    return {
        "violations": _dedupe(viol),
        "nontrivial": compared > 0 and len(ctx.exits) >= 2,
        "key": f"{H(key):016x}",
        "probes": probes,
        "fired": dict(ctx.evaluator.fired),
        "digest": harness.trace_digest(ctx) + _log_digest(ctx),
        "evals": len(ctx.evaluator.calls),
        "events": len(ctx.events),
        "stratum": scn.get("stratum"),
        "summary": {"exits": [list(e) for e in ctx.exits], "compared": compared, "method": scn["method"]},
    }


def generate(seed: int, index: int, tier: str) -> dict:
    rng = random.Random(seed)
    if index % 12 == 7:
        return _generate_restarts(rng)
    ensemble = index % 6 == 5
    scn = gen_scipy.scipy_scenario(rng, PROP, method=(rng.choice(GRADIENT) if ensemble else None))
    if ensemble:
        # several realizations of which one loses perturbed evaluations (never the unperturbed one): it is failed for
        # the gradient but its function values count - whatever evaluations happen to be combined
        cfg = scn["configs"][0]
        nr = rng.randint(2, 3)
        scn["world"]["real_ids"] = list(range(nr))
        cfg["realizations"] = {"weights": [round(rng.uniform(0.5, 2.0), 3) for _ in range(nr)], "realization_min_success": 1}
        npert = cfg["gradient"]["number_of_perturbations"]
        cfg["gradient"]["perturbation_min_success"] = npert
        scn["faults"] = [{"kind": "nan", "eval": None, "real": rng.randrange(nr), "pert": rng.randrange(npert), "col": None}]
        scn["ensemble"] = True
    alpha = gen_scipy.alphabet(scn)
    pool = scn["fake"]["points"]
    method = scn["method"]
    script = []
    if index % 2 == 0:
        counter = index // 2
        npts = 2
        syms = [(q, k, p) for (q, k) in alpha for p in range(npts)]
        A = len(syms)
        L = 1 + counter % 4
        n = counter // 4
        for _ in range(L):
            q, k, p = syms[n % A]
            n //= A
            script.append({"q": q, "k": k, "pt": p})
        scn["stratum"] = "short"
    else:
        for _ in range(rng.randint(1, 10)):
            q, k = alpha[rng.randrange(len(alpha))]
            script.append({"q": q, "k": k, "pt": rng.randrange(-1, len(pool))})
        scn["stratum"] = "sampled"
    if method == DE:
        par = bool(scn["configs"][0]["optimizer"].get("parallel"))
        for e in script:
            if par:
                e["pts"] = [rng.randrange(len(pool)) for _ in range(rng.randint(1, 4))]
            else:
                e["pts"] = [e["pt"]]
    scn["fake"]["script"] = script
    if index % 12 == 3 and "linear_constraints" not in scn["configs"][0] and not ensemble:
        # a variable transform (scales and offsets): the algorithm works in the optimizer domain, the value handed to it
        # for x is the ensemble value at the user-domain image of x
        nv_ = len(scn["world"]["var_ids"])
        scn["transforms"] = {"var": {"scales": [round(rng.uniform(0.25, 4.0), 3) for _ in range(nv_)],
                                     "offsets": [round(rng.uniform(-1.0, 1.0), 3) for _ in range(nv_)] if rng.random() < 0.6 else None}}
        scn["stratum"] = "variable-transform"
    return scn


class Ref:
    """Reference values for a scenario (optimizer domain == user domain, no transforms)."""

    def __init__(self, ctx, cfg) -> None:
        self.cfg = cfg
        self.world = ctx.world
        self.mask = model.mask_of(cfg)
        self.tm = oracles.TransformModel(ctx.scn.get("transforms"), len(cfg["variables"]["initial_values"]), 1, 0)
        # (x0 and every vector the algorithm works with: optimizer domain; the world is asked at the user-domain image)
        self.x0 = self.tm.x_to_opt(np.asarray(cfg["variables"]["initial_values"], float))
        self.ow = model.objective_weights(cfg)
        self.h = float(np.atleast_1d(cfg["gradient"]["perturbation_magnitudes"])[0])
        nl = cfg.get("nonlinear_constraints")
        self.nl_spec = model.normalized_spec(nl["lower_bounds"], nl["upper_bounds"]) if nl else []
        self.ml = model.masked_linear(cfg)
        self.lin_spec = model.normalized_spec(self.ml[1], self.ml[2]) if self.ml is not None else []
        self.nc = model.cfg_counts(cfg)["nc"]

    def full(self, xf):
        x = self.x0.copy()
        x[self.mask] = xf
        return x

    def raw(self, xf):
        nr = len(self.world.real_ids)
        if nr == 1:
            o, c = self.world.values(self.tm.x_to_user(self.full(xf))[None, :], np.array([0]))
            return float(self.ow @ o[0]), (None if c is None else c[0])
        # ensemble: weighted mean over all realizations (none of them fails in an unperturbed evaluation)
        w = model.realization_weights(self.cfg)
        o, c = self.world.values(np.repeat(self.full(xf)[None, :], nr, axis=0), np.arange(nr))
        return float(self.ow @ (w @ o)), (None if c is None else w @ c)

    def grad_raw(self, xf):
        """forward differences with the configured step: (objective grad, constraint jac)"""
        f0, c0 = self.raw(xf)
        n = len(xf)
        go = np.zeros(n)
        gc = np.zeros((self.nc, n))
        for i in range(n):
            xp = np.array(xf, float)
            xp[i] += self.h
            f1, c1 = self.raw(xp)
            go[i] = (f1 - f0) / self.h
            if self.nc:
                gc[:, i] = (c1 - c0) / self.h
        return go, gc

    def normalized(self, xf, k):
        spec = self.nl_spec + [("L",) + s for s in self.lin_spec]
        s = spec[k]
        if s[0] == "L":
            _, i, typ, rhs, sign = s
            return sign * (float(self.ml[0][i] @ np.asarray(xf, float)) - rhs)
        i, typ, rhs, sign = s
        return sign * (self.raw(xf)[1][i] - rhs)

    def normalized_jac(self, xf, k):
        spec = self.nl_spec + [("L",) + s for s in self.lin_spec]
        s = spec[k]
        if s[0] == "L":
            _, i, typ, rhs, sign = s
            return sign * self.ml[0][i]
        i, typ, rhs, sign = s
        return sign * self.grad_raw(xf)[1][i]

    def is_linear(self, k):
        return k >= len(self.nl_spec)


def _same_point(a, b) -> bool:
    return a.shape == b.shape and np.allclose(a, b)


def _compare_log(ctx, cfg, viol, probes, log=None):
    def probe(name, n=1):
        probes[name] = probes.get(name, 0) + n

    ref = Ref(ctx, cfg)
    method = ctx.scn["method"]
    compared = 0
    seen_points: list[np.ndarray] = []
    last = None
    for rec in (ctx.fake.log if log is None else log):
        if "ret" not in rec:
            continue
        x = rec["x"]
        q = rec["q"]
        new_point = last is None or not _same_point(last, x)
        if last is not None and last.shape != x.shape:
            probe("shape_change")
        if new_point and q == "c":
            probe("constraint_first_at_new_point")
        if new_point and q == "j":
            probe("jacobian_first_at_new_point")
        if new_point and q == "g":
            probe("gradient_first_at_new_point")
        if not new_point:
            probe("repeat_same_point")
        last = x
        got = np.asarray(rec["ret"], float)
        where = f"request {rec['i']} {q}{'' if rec.get('k') is None else rec['k']} at x={np.round(x, 4).tolist()}"
        if method == DE:
            cols = [x[:, s] for s in range(x.shape[1])] if x.ndim > 1 else [x]
            if x.ndim > 1:
                probe("population_request")
            if q == "f":
                want = np.array([ref.raw(c)[0] for c in cols])
                want = want if x.ndim > 1 else want[0]
            else:
                want = np.stack([ref.raw(c)[1] for c in cols], axis=1)
                want = want if x.ndim > 1 else want[:, 0]
            tol = 1e-9
        elif q == "f":
            want, tol = ref.raw(x)[0], 1e-9
        elif ctx.scn.get("ensemble") and (q == "g" or (q == "j" and not ref.is_linear(rec["k"]))):
            continue  # gradients over a partly failed ensemble: compared through the speculative twin only
        elif ref.tm.has_var and q in ("g", "j"):
            probe("with_variable_transform")
            continue  # derivatives under a variable transform: compared through the speculative twin only
        elif q == "g":
            want, tol = ref.grad_raw(x)[0], 1e-6
        elif q == "c":
            want, tol = ref.normalized(x, rec["k"]), 1e-9
            if ref.is_linear(rec["k"]):
                probe("linear_rows_in_script")
        else:
            want, tol = ref.normalized_jac(x, rec["k"]), 1e-6
        compared += 1
        probe("values_compared")
        want = np.asarray(want, float)
        ok = got.shape == want.shape or got.size == want.size
        if ok:
            ok = np.allclose(got.reshape(want.shape), want, rtol=tol, atol=tol * 10)
        if not ok:
            viol.append({"clause": "value-not-of-this-point",
                         "sig": {"q": q, "new_point": bool(new_point)},
                         "detail": f"{where}: returned {np.round(got, 6).tolist()}, ensemble value at this point {np.round(want, 6).tolist()} "
                                   f"(method {method}, previous request at {'the same' if not new_point else 'a different'} point)"})
    return compared


def execute(scn: dict) -> dict:
    if scn.get("entry") == "optimizer_object_restarts":
        return _execute_restarts(scn)

    def _setup(ctx_):
        ctx_.call_stamps = {}
        ctx_.evaluator.pre_hooks.append(lambda ev, k: ctx_.call_stamps.__setitem__(k, ctx_.fake.next_seq()))

    ctx = harness.run_scenario(scn, setup=_setup)
    viol: list[dict] = []
    probes: dict[str, int] = {}

    def probe(name, n=1):
        probes[name] = probes.get(name, 0) + n

    cfg = scn["configs"][0]
    method = scn["method"]
    opt = cfg["optimizer"]
    spec, split = bool(opt.get("speculative")), bool(opt.get("split_evaluations"))
    if scn.get("ensemble") and ctx.evaluator.fired.get("nan_row"):
        probe("ensemble_with_failed_perturbations")
    if spec:
        probe("speculative")
    if split:
        probe("split")
    if method in NOGRAD or method == DE:
        probe("gradient_free_method")
    ex = ctx.exits[0] if ctx.exits else None
    compared = 0
    if ex is None or ex[0] != "ret":
        viol.append({"clause": "request-sequence-raised", "sig": {"exception": str(ex[2]).split(":")[0] if ex else "none"},
                     "detail": f"method {method} speculative={spec} split={split} parallel={opt.get('parallel')}: run ended with {ex}"})
    else:
        compared = _compare_log(ctx, cfg, viol, probes)
    # callback level
    cb = ctx.fake.callback_log
    probe("callback_invocations", len(cb))
    # "current point" = the point of the algorithm's latest request; the quantities obtained for
    # it must not be requested again through the callback until the algorithm moves on
    merged = sorted([("req", r) for r in ctx.fake.log] + [("cb", r) for r in cb], key=lambda t: t[1]["seq"])
    run_kinds: set[str] = set()
    prev = None
    i = -1
    for what, rec in merged:
        if what == "req":
            x = rec["x"]
            if prev is None or not _same_point(prev, x):
                run_kinds = set()
            prev = x
            continue
        i += 1
        if split and rec["rf"] and rec["rg"]:
            viol.append({"clause": "split-evaluation-computes-both", "sig": {},
                         "detail": f"callback invocation {i} has return_functions and return_gradients set although split_evaluations is on"})
        if (method in NOGRAD or method == DE) and rec["rg"]:
            viol.append({"clause": "gradient-free-method-evaluates-gradients", "sig": {"speculative": spec},
                         "detail": f"callback invocation {i} of gradient-free method {method} asks for gradients (speculative={spec})"})
        for kind, flag in (("functions", rec["rf"]), ("gradients", rec["rg"])):
            if flag:
                if kind in run_kinds:
                    viol.append({"clause": "quantity-evaluated-twice-for-current-point", "sig": {"kind": kind},
                                 "detail": f"callback invocation {i}: {kind} requested again for the current point {np.round(rec['x'], 4).tolist()}"})
                run_kinds.add(kind)
    # the same two clauses at the level of the evaluations actually made (an evaluation = one evaluator call):
    # with split_evaluations no evaluator call carries unperturbed and perturbed rows together, and the ensemble
    # functions of the current point are not run a second time
    if split:
        for c in ctx.evaluator.calls:
            if c.kind == "fg":
                viol.append({"clause": "split-evaluation-computes-both", "sig": {"level": "evaluator"},
                             "detail": f"evaluator call {c.k} carries unperturbed and perturbed rows although split_evaluations is on "
                                       f"(requests so far: {[(r['q'], r.get('k')) for r in ctx.fake.log][:6]})"})
                break
    if method != DE:
        prevc = None
        stamps = getattr(ctx, "call_stamps", {})
        reqs = sorted((r["seq"], r["x"]) for r in ctx.fake.log)
        last_req_x = None
        ri = 0
        for c in ctx.evaluator.calls:
            # requests issued before this evaluator call: the algorithm moving to another point ends the run at a point
            while ri < len(reqs) and reqs[ri][0] < stamps.get(c.k, float("inf")):
                if last_req_x is not None and not _same_point(last_req_x, reqs[ri][1]):
                    prevc = None
                last_req_x = reqs[ri][1]
                ri += 1
            if c.perturbations is None:
                has_f = True
                xrow = c.variables[0]
            else:
                unp = np.where(np.asarray(c.perturbations) < 0)[0]
                has_f = unp.size > 0
                xrow = c.variables[unp[0]] if has_f else None
            if has_f:
                if prevc is not None and np.array_equal(prevc, xrow):
                    probe("function_rows_repeat_checked")
                    viol.append({"clause": "quantity-evaluated-twice-for-current-point", "sig": {"kind": "functions", "level": "evaluator"},
                                 "detail": f"evaluator call {c.k} ({c.kind}) runs the unperturbed ensemble at {np.round(xrow, 4).tolist()} again, "
                                           f"right after an evaluation that already ran it there"})
                    break
                prevc = np.array(xrow, copy=True)
            else:
                # a gradient-only evaluation at another point than the last function evaluation ends the run at that point
                if prevc is not None and c.variables.shape[1] == prevc.shape[0]:
                    pass
        probe("evaluator_level_clauses_checked")
    if method in NOGRAD or method == DE:
        if any(c.kind in ("g", "fg") for c in ctx.evaluator.calls):
            viol.append({"clause": "gradient-free-method-evaluates-gradients", "sig": {"speculative": spec},
                         "detail": f"evaluator received perturbation rows for gradient-free method {method}"})
    # speculative twin: same values, only the number of evaluations may differ
    if ex is not None and ex[0] == "ret" and not viol:
        twin = copy.deepcopy(scn)
        twin["configs"][0]["optimizer"]["speculative"] = not spec
        tctx = harness.run_scenario(twin)
        tex = tctx.exits[0] if tctx.exits else None
        if tex is not None and tex[0] == "ret":
            for a, b in zip(ctx.fake.log, tctx.fake.log):
                if "ret" in a and "ret" in b:
                    probe("speculative_twin_compared")
                    if not np.allclose(np.asarray(a["ret"], float), np.asarray(b["ret"], float), rtol=1e-9, atol=1e-12):
                        viol.append({"clause": "speculative-changes-values", "sig": {},
                                     "detail": f"request {a['i']} {a['q']}: {np.asarray(a['ret']).tolist()} with speculative={spec}, "
                                               f"{np.asarray(b['ret']).tolist()} with speculative={not spec}"})
                        break
    pts = [tuple(np.round(r["x"], 9).ravel().tolist()) for r in ctx.fake.log if "ret" in r]
    key = (method, spec, split, bool(opt.get("parallel")), str(cfg.get("nonlinear_constraints")) != "None",
           "linear_constraints" in cfg, str(cfg["variables"].get("mask")),
           str([(e["q"], e.get("k"), e.get("pt"), len(e.get("pts") or [])) for e in scn["fake"]["script"]]))
    from sim.seeds import H
    return {
        "violations": _dedupe(viol),
        "nontrivial": compared > 0 and (len(set(pts)) >= 2 or len(pts) > len(set(pts))),
        "key": f"{H(key):016x}",
        "probes": probes,
        "fired": dict(ctx.evaluator.fired),
        "digest": harness.trace_digest(ctx) + _log_digest(ctx),
        "evals": len(ctx.evaluator.calls),
        "events": len(ctx.events),
        "stratum": scn.get("stratum"),
        "summary": {"exits": oracles.exits_summary(ctx), "compared": compared, "method": method},
    }


def _log_digest(ctx) -> str:
    from sim.seeds import digest_bytes
    chunks = []
    for r in ctx.fake.log:
        chunks.append(f"{r['i']}{r['q']}{r.get('k')}{r.get('skipped')}".encode())
        if "ret" in r:
            chunks.append(np.asarray(r["ret"], float).tobytes())
    for r in ctx.fake.callback_log:
        chunks.append(f"{r['rf']}{r['rg']}".encode() + np.asarray(r["x"], float).tobytes())
    return digest_bytes(*chunks)


def _dedupe(viol):
    seen, out = set(), []
    for v in viol:
        k = (v["clause"], repr(sorted(v["sig"].items())))
        if k not in seen:
            seen.add(k)
            out.append(v)
    return out


def reductions(scn: dict):
    # shrink the fake script (ddmin handles lists named "script" inside optimizer options only)
    s = scn["fake"]["script"]
    if scn.get("entry") == "optimizer_object_restarts" and len(scn["starts"]) > 2:
        c = copy.deepcopy(scn)
        del c["starts"][-1]
        yield c
    for i in range(len(s)):
        if len(s) > 1:
            c = copy.deepcopy(scn)
            del c["fake"]["script"][i]
            yield c
    opt = scn["configs"][0]["optimizer"]
    for key in ("speculative", "split_evaluations", "parallel", "max_iterations", "tolerance", "options"):
        if key in opt:
            c = copy.deepcopy(scn)
            del c["configs"][0]["optimizer"][key]
            yield c
