"""C19  Plug-in lookup is deterministic, case-insensitive and side-effect free.

Model-based: seeded operation histories over 1-3 managers created at seeded times (each
loads the process-wide cached entry-point plug-ins): add_plugin (normal / prioritized,
random case, duplicates incl. after prioritisation), get_plugin ('name/method', bare
method, unknown, wrong case), is_supported, plugins(); a universe of 4 stub plug-ins per
type with overlapping method sets and discovery flags, all six plug-in types.  After every
operation the result (plug-in identity or exception kind) and the listing of every manager
are compared with a reference registry."""
from __future__ import annotations

import random

from ropt.exceptions import ConfigError
from ropt.plugins import PluginManager
from ropt.plugins.base import Plugin

from sim.seeds import H, digest_bytes

PROP = "C19"
LEVEL = "exploration"
COUNT = {"quick": 8000, "thorough": None}
BUDGET = {"quick": 40, "thorough": 600}
CHUNK = 4000
RULE = (
    "even indices: short histories (length 1-4) whose operations are the base-A expansion of the stratum counter over a reduced "
    "alphabet (one manager, one plug-in type chosen by the counter); odd indices: sampled histories of length 5-30 over 1-3 "
    "managers and all six plug-in types. Operations: new_manager, add (4 stub plug-ins x normal/prioritized x random case), "
    "get ('name/method' with right/wrong/unknown names and methods, bare methods), is_supported, list. Non-trivial = a history "
    "with at least one add followed by a lookup; distinct = the operation sequence."
)
ASSUMPTIONS = [
    "the initial registry of a manager is read from another fresh manager's plugins() listing (entry-point order); the model takes over from there",
    "only the six valid plug-in types are generated; bare 'default' is not generated (the statement does not cover either)",
    "stub plug-ins support their methods in lower case; case-insensitivity is asserted for plug-in names, as the statement says",
]
COMPONENTS = {
    "real": ["PluginManager (add_plugin, get_plugin, is_supported, plugins, _from_entry_points cache)", "entry-point plug-ins incl. ExternalOptimizerPlugin"],
    "stub": ["4 stub plug-ins per type with overlapping method sets and discovery flags", "reference registry model"],
}
PROBES = ["add_under_installed_name_first", "lookup_repeated_after_add", "ops", "duplicate_rejected", "prioritized_add", "bare_lookup_found", "bare_lookup_skipped_undiscoverable", "named_lookup_found",
          "lookup_failed", "wrong_case_name", "second_manager", "external_not_discovered", "listing_compared", "duplicate_after_prioritize"]
TYPES = ["optimizer", "sampler", "realization_filter", "function_estimator", "plan_handler", "plan_step"]
# universe: (base name, methods, allows_discovery)
UNIVERSE = [("alpha", {"m1", "m2"}, True), ("beta", {"m1", "m2", "m3"}, True), ("gamma", {"m1", "m3", "m4"}, False), ("deltaßσ", {"m4", "slsqp", "norm", "mean"}, True)]
# (the last name contains letters whose upper-case forms do not lower() back - sharp s, final sigma: caseless means casefold)
METHODS = ["m1", "m2", "m3", "m4", "m5", "slsqp", "norm", "mean"]


def _make_stub(ptype: str, idx: int):
    from ropt.plugins._manager import _PLUGIN_TYPES

    base = _PLUGIN_TYPES[ptype]
    name, methods, disc = UNIVERSE[idx]

    class Stub(base):  # type: ignore[misc, valid-type]
        def create(self, *a, **k):  # pragma: no cover
            raise NotImplementedError

        def is_supported(self, method: str) -> bool:
            return method in methods

        @property
        def allows_discovery(self) -> bool:
            return disc

        def __repr__(self) -> str:
            return f"<stub {ptype}:{name}>"

        if idx == 1:
            # a plug-in object that happens to be falsy (e.g. a registry-like plug-in with __len__ == 0) is a plug-in
            # like any other
            def __len__(self) -> int:
                return 0

    return Stub()


def _case(rng: random.Random, name: str) -> str:
    return "".join(ch.upper() if rng.random() < 0.4 else ch for ch in name)


def _sym_ops(ptype: str):
    """reduced alphabet for the short stratum"""
    ops = []
    for i in range(4):
        ops.append({"op": "add", "m": 0, "type": ptype, "plugin": i, "name": UNIVERSE[i][0], "prio": False})
        ops.append({"op": "add", "m": 0, "type": ptype, "plugin": i, "name": UNIVERSE[i][0].upper(), "prio": True})
    # registration under the name of an installed plug-in (a duplicate for the types that have one of that name)
    ops.append({"op": "add", "m": 0, "type": ptype, "plugin": 0, "name": "SciPy", "prio": True})
    ops.append({"op": "add", "m": 0, "type": ptype, "plugin": 1, "name": "Default", "prio": True})
    for meth in ("m1", "m3", "m4", "slsqp"):
        ops.append({"op": "get", "m": 0, "type": ptype, "method": meth})
    for nm in ("alpha", "GAMMA", UNIVERSE[3][0], UNIVERSE[3][0].upper(), "scipy", "external", "default"):
        ops.append({"op": "get", "m": 0, "type": ptype, "method": f"{nm}/m1"})
        ops.append({"op": "supported", "m": 0, "type": ptype, "method": f"{nm}/m4"})
    return ops


def generate(seed: int, index: int, tier: str) -> dict:
    rng = random.Random(seed)
    if index % 2 == 0:
        counter = index // 2
        ptype = TYPES[counter % 6]
        n = counter // 6
        alpha = _sym_ops(ptype)
        L = 1 + n % 4
        n //= 4
        ops = []
        for _ in range(L):
            ops.append(dict(alpha[n % len(alpha)]))
            n //= len(alpha)
        return {"prop": PROP, "ops": ops, "managers": 1, "stratum": "short", "allow_empty_script": True}
    ops = []
    managers = 1
    focal = rng.choice(TYPES)
    lookups: list[dict] = []
    for _ in range(rng.randint(5, 30)):
        c = rng.random()
        ptype = focal if rng.random() < 0.8 else rng.choice(TYPES)
        m = rng.randrange(managers)
        # the same lookup again after the registry changed: lookups must not leave anything behind
        if lookups and ops and ops[-1]["op"] == "add" and rng.random() < 0.6:
            ops.append(dict(rng.choice(lookups)))
            continue
        if c < 0.06 and managers < 3:
            ops.append({"op": "new"})
            managers += 1
        elif c < 0.4:
            i = rng.randrange(4)
            nm = UNIVERSE[i][0] if rng.random() < 0.85 else rng.choice(["scipy", "default", "external"])
            ops.append({"op": "add", "m": m, "type": ptype, "plugin": i, "name": _case(rng, nm), "prio": rng.random() < 0.4})
        elif c < 0.7:
            if rng.random() < 0.5:
                meth = rng.choice(METHODS)
            else:
                nm = rng.choice(["alpha", "beta", "gamma", UNIVERSE[3][0], "scipy", "external", "default", "nope"])
                meth = f"{_case(rng, nm)}/{rng.choice(METHODS + ['default'])}"
            ops.append({"op": "get", "m": m, "type": ptype, "method": meth})
            lookups.append(ops[-1])
        elif c < 0.9:
            if rng.random() < 0.5:
                meth = rng.choice(METHODS)
            else:
                nm = rng.choice(["alpha", "beta", "gamma", UNIVERSE[3][0], "scipy", "external", "nope"])
                meth = f"{_case(rng, nm)}/{rng.choice(METHODS)}"
            ops.append({"op": "supported", "m": m, "type": ptype, "method": meth})
            lookups.append(ops[-1])
        else:
            ops.append({"op": "list", "m": m, "type": ptype})
    return {"prop": PROP, "ops": ops, "managers": 1, "stratum": "sampled", "allow_empty_script": True}


class Model:
    def __init__(self, initial: dict) -> None:
        self.reg = {t: list(initial[t]) for t in TYPES}  # ordered (lower name, plugin)

    def add(self, t, name, plugin, prio):
        low = name.casefold()
        if any(n == low for n, _ in self.reg[t]):
            return "ConfigError"
        if prio:
            self.reg[t].insert(0, (low, plugin))
        else:
            self.reg[t].append((low, plugin))
        return None

    def get(self, t, method):
        parts = method.split("/", 1)
        if len(parts) > 1:
            for n, p in self.reg[t]:
                if n == parts[0].casefold():
                    return p if p.is_supported(parts[1]) else "ConfigError"
            return "ConfigError"
        for n, p in self.reg[t]:
            if p.allows_discovery and p.is_supported(parts[0]):
                return p
        return "ConfigError"


def execute(scn: dict) -> dict:
    viol: list[dict] = []
    probes: dict[str, int] = {}

    def probe(name, n=1):
        probes[name] = probes.get(name, 0) + n

    stubs = {t: [_make_stub(t, i) for i in range(4)] for t in TYPES}
    managers: list[PluginManager] = []
    models: list[Model] = []

    def new_manager():
        pm = PluginManager()
        managers.append(pm)
        # the initial registry is read from a *different* fresh manager: the manager under test is not touched before
        # the first operation of the history reaches it
        models.append(Model({t: list(PluginManager().plugins(t)) for t in TYPES}))

    new_manager()
    log = []
    added = looked = False
    prioritized_names: set = set()
    seen_lookups: set = set()
    mutated_since: dict = {}
    for i, op in enumerate(scn["ops"]):
        probe("ops")
        kind = op["op"]
        lk = (op.get("m", 0), op.get("type"), op.get("method"))
        if kind in ("get", "supported"):
            if lk in seen_lookups and mutated_since.get(lk):
                probe("lookup_repeated_after_add")
            seen_lookups.add(lk)
            mutated_since[lk] = False
        elif kind == "add":
            for key in list(mutated_since):
                if key[0] == op.get("m", 0) % max(len(managers), 1) and key[1] == op.get("type"):
                    mutated_since[key] = True
        if kind == "new":
            if len(managers) < 3:
                new_manager()
                probe("second_manager")
            log.append("new")
            continue
        m = op.get("m", 0) % len(managers)
        pm, md = managers[m], models[m]
        t = op["type"]
        where = f"op {i} {op} on manager {m}"
        if kind == "add":
            plugin = stubs[t][op["plugin"]]
            want = md.add(t, op["name"], plugin, op["prio"])
            try:
                pm.add_plugin(t, op["name"], plugin, prioritize=op["prio"])
                got = None
            except ConfigError:
                got = "ConfigError"
            except Exception as e:  # noqa: BLE001
                got = type(e).__name__
            added = added or want is None
            if op["prio"] and want is None:
                probe("prioritized_add")
                prioritized_names.add((m, t, op["name"].casefold()))
            if want == "ConfigError":
                probe("duplicate_rejected")
                if i == 0 and op["name"].casefold() in ("scipy", "default", "external"):
                    probe("add_under_installed_name_first")
                if (m, t, op["name"].casefold()) in prioritized_names:
                    probe("duplicate_after_prioritize")
            if got != want:
                viol.append({"clause": "add-plugin-outcome", "sig": {"want": str(want)}, "detail": f"{where}: got {got}, reference {want}"})
            log.append(f"add:{got}")
        elif kind in ("get", "supported"):
            try:
                want = md.get(t, op["method"])
            except RecursionError:
                want = "model-recursion"
            looked = looked or added
            if "/" in op["method"] and op["method"].split("/")[0] != op["method"].split("/")[0].lower():
                probe("wrong_case_name")
            if kind == "get":
                try:
                    got = pm.get_plugin(t, op["method"])
                except ConfigError:
                    got = "ConfigError"
                except Exception as e:  # noqa: BLE001
                    got = type(e).__name__
                if isinstance(got, str) and got != "ConfigError":
                    viol.append({"clause": "lookup-raised-unexpected-exception", "sig": {"what": got},
                                 "detail": f"{where}: {got} (unsupported requests must raise ConfigError)"})
                    break
                if want == "model-recursion":
                    continue
                if want == "ConfigError":
                    probe("lookup_failed")
                elif "/" in op["method"]:
                    probe("named_lookup_found")
                else:
                    probe("bare_lookup_found")
                    # was an undiscoverable supporter skipped?
                    try:
                        for n, p in md.reg[t]:
                            if p is want:
                                break
                            if (not p.allows_discovery) and p.is_supported(op["method"]):
                                probe("bare_lookup_skipped_undiscoverable")
                                if n == "external":
                                    probe("external_not_discovered")
                    except RecursionError:
                        pass
                if got is not want:
                    viol.append({"clause": "get-plugin-result", "sig": {"bare": "/" not in op["method"]},
                                 "detail": f"{where}: got {got!r}, reference {want!r} (registry order {[n for n, _ in md.reg[t]]})"})
                log.append(f"get:{got if isinstance(got, str) else [n for n, p in md.reg[t] if p is got]}")
            else:
                try:
                    got = pm.is_supported(t, op["method"])
                except Exception as e:  # noqa: BLE001
                    got = type(e).__name__
                if isinstance(got, str):
                    viol.append({"clause": "lookup-raised-unexpected-exception", "sig": {"what": got}, "detail": f"{where}: is_supported raised {got}"})
                    break
                if want == "model-recursion":
                    continue
                if got != (want != "ConfigError"):
                    viol.append({"clause": "is-supported-not-equivalent-to-lookup", "sig": {},
                                 "detail": f"{where}: is_supported={got}, lookup in the reference {'fails' if want == 'ConfigError' else 'succeeds'}"})
                log.append(f"sup:{got}")
        # cross-invariant after every operation: every manager lists exactly the reference registry
        for k, (pmk, mdk) in enumerate(zip(managers, models)):
            for tt in TYPES:
                try:
                    listing = list(pmk.plugins(tt))
                except Exception as e:  # noqa: BLE001
                    viol.append({"clause": "listing-raised", "sig": {"what": type(e).__name__},
                                 "detail": f"after {where}: plugins({tt!r}) of manager {k} raised {type(e).__name__}: {e}"})
                    break
                probe("listing_compared")
                if [(n, id(p)) for n, p in listing] != [(n, id(p)) for n, p in mdk.reg[tt]]:
                    viol.append({"clause": "registry-differs-from-reference", "sig": {"other_manager": k != m},
                                 "detail": f"after {where}: manager {k} lists {[n for n, _ in listing]} for {tt}, reference {[n for n, _ in mdk.reg[tt]]}"})
                    break
        if viol:
            break
    key = H(str([(o.get("op"), o.get("m"), o.get("type"), o.get("plugin"), o.get("prio"), (o.get("name") or "").lower(), (o.get("method") or "").lower()) for o in scn["ops"]]))
    return {
        "violations": _dedupe(viol),
        "nontrivial": added and looked,
        "key": f"{key:016x}",
        "probes": probes,
        "fired": {},
        "digest": digest_bytes(repr(log).encode()),
        "evals": 0,
        "events": len(scn["ops"]),
        "stratum": scn.get("stratum"),
        "summary": {"ops": len(scn["ops"]), "managers": len(managers)},
    }


def _dedupe(viol):
    seen, out = set(), []
    for v in viol:
        k = (v["clause"], repr(sorted(v["sig"].items())))
        if k not in seen:
            seen.add(k)
            out.append(v)
    return out


def reductions(scn: dict):
    return []
