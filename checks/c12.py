"""C12  The tracked best result is the feasible optimum over the whole history.

Histories are produced by real steps under the scripted optimizer: objective values with
ties (repeated points), NaN objectives (threshold 0 with a NaN-tolerant back-end),
infeasible results (points outside bounds / linear / non-linear constraints), gradient-only
results, several steps and nested plans feeding best/last trackers with different source
sets and tolerances, transforms incl. a sign-flipping (maximisation) objective transform.
After every event the tracker contents are compared with the model fold."""
from __future__ import annotations

import copy
import random

import numpy as np

from ropt.enums import EventType
from ropt.results import FunctionResults

from sim import gen, harness, model, oracles
from sim.seeds import H
from sim.simtransforms import TransformModel

PROP = "C12"
LEVEL = "exploration"
COUNT = {"quick": 6000, "thorough": None}
BUDGET = {"quick": 45, "thorough": 600}
CHUNK = 4000
RULE = (
    'Half of the BasicOptimizer scenarios call run() two or three times on one object, with all evaluations failing in 60% of the later runs. '
    "plans of 1-3 sequential steps (optimizer/evaluator; 15% nested) under the scripted optimizer with request scripts of "
    "length 1-6 over a pool of 2-4 points that contains repeated points (ties) and points outside the bounds / linear / "
    "non-linear constraints; 35% of runs inject an all-realizations NaN evaluation with realization_min_success=0 and a "
    "NaN-tolerant back-end; 30% prescribe objective values of exactly 0.0 / -0.0 / 1.0 for whole evaluations; transforms in 45% (sign flip in half of those); 2-3 trackers per plan with what in {best,last}, "
    "tolerance in {None,0,1e-10,1e-3,0.5} and source subsets. A further stratum (index%10==9) drives BasicOptimizer with real "
    "SLSQP/Nelder-Mead. Non-trivial = at least 2 function results reached a tracker and its state was compared after every "
    "event; distinct = (plan shape, request kinds, feasibility/NaN pattern of the history, tracker specs)."
)
ASSUMPTIONS = [
    "feasibility is read from the reported constraint violations of the optimizer-domain result (their correctness is C13)",
    "ties: any minimiser may be held; with no valid (feasible, non-NaN) result so far the tracker may hold nothing or a NaN result",
    "'last' trackers: whether a NaN-objective result counts as 'most recent feasible function result' is left open by the statement; both readings are accepted",
]
COMPONENTS = {
    "real": ["DefaultTrackerHandler", "_update_optimal_result / _get_last_result", "optimizer/evaluator steps", "BasicOptimizer (10% of runs, real SLSQP/Nelder-Mead)", "ConstraintInfo"],
    "stub": ["SimEvaluator", "sim/scripted optimizer", "objective scaler incl. sign flip"],
}
PROBES = ["zero_objective_in_history", "nan_and_valid_in_one_event", "states_compared", "nan_result_in_history", "nan_first", "infeasible_in_history", "tie_in_history", "sign_flip",
          "untracked_source_result", "gradient_only_event", "nested", "basic_optimizer", "basic_optimizer_run_again", "basic_optimizer_run_again_without_results", "best_tracker", "last_tracker",
          "improvement_after_first"]


def generate(seed: int, index: int, tier: str) -> dict:
    rng = random.Random(seed)
    if index % 10 == 9:
        return _basic(rng)
    nested = rng.random() < 0.15
    nv = rng.randint(2, 3) if nested else rng.randint(1, 3)
    scn = gen.base_scenario(rng, PROP, nv=nv, nr_max=3, no_max=2, nc_max=2, npert_max=2, filters=False, stddev=False,
                            mask=False, linear=(rng.random() < 0.4), bounds_style=rng.choice(["finite", "mixed", "none"]),
                            transforms=(rng.random() < 0.45), script_len=rng.randint(1, 6), ops=("f", "f", "fg", "g"),
                            inject_p=1.0, step="optimizer", zero_real_weights=False, pms=None, rms=None)
    cfg = scn["configs"][0]
    tr = scn.get("transforms")
    if tr and rng.random() < 0.5:
        no = len(scn["world"]["obj_ids"])
        tr["obj"] = {"scales": (tr.get("obj") or {}).get("scales") or [1.0] * no, "flip": True}
    # pool: inside and outside the feasible region, with repeats
    tm = TransformModel(tr, nv, len(scn["world"]["obj_ids"]), len(scn["world"]["con_ids"]))
    pts = []
    for _ in range(rng.randint(2, 3)):
        xu = np.array([round(rng.uniform(-3.5, 3.5), 2) for _ in range(nv)])
        pts.append([float(v) for v in tm.x_to_opt(xu)])
    pts.append(list(pts[rng.randrange(len(pts))]))
    cfg["optimizer"]["options"]["points"] = pts
    cfg["gradient"]["boundary_types"] = 1
    for e in cfg["optimizer"]["options"]["script"]:
        e["pts"] = [rng.randrange(0, len(pts)) for _ in e["pts"]]
    nan_mode = rng.random() < 0.35
    if nan_mode:
        cfg["realizations"]["realization_min_success"] = 0
        cfg["optimizer"]["options"]["allow_nan"] = True
        for _ in range(rng.randint(1, 2)):
            f = {"kind": "nan", "eval": rng.choice([0, 0, 1, 2, 3]), "real": None, "pert": None, "col": None}
            if rng.random() < 0.5:
                f["vec"] = rng.choice([0, 0, 1])  # only one vector of a batch fails (e.g. the first)
            scn["faults"].append(f)
    else:
        cfg["optimizer"]["options"]["allow_nan"] = False
    if rng.random() < 0.3:
        # evaluations whose objectives are exactly zero (or another round value): an optimum of 0.0 / -0.0 is a value like any other
        for _ in range(rng.randint(1, 2)):
            f = {"kind": "set", "eval": rng.choice([0, 0, 1, 2]), "value": rng.choice([0.0, 0.0, -0.0, 1.0])}
            if rng.random() < 0.3:
                f["vec"] = rng.choice([0, 1])
            scn["faults"].append(f)
    # plan
    nsteps = 1 if nested else rng.randint(1, 3)
    steps = []
    for i in range(nsteps):
        kind = rng.choice(["optimizer", "optimizer", "evaluator"])
        st = {"kind": kind, "cfg": 0}
        if kind == "evaluator":
            st["variables"] = [pts[rng.randrange(len(pts))] for _ in range(rng.randint(1, 3))]
        steps.append(st)
    if nested:
        inner = copy.deepcopy(cfg)
        mask = [i == 0 for i in range(nv)]
        cfg["variables"]["mask"] = mask
        inner["variables"]["mask"] = [not m for m in mask]
        inner["optimizer"]["options"]["script"] = [{"op": "f", "pts": [rng.randrange(len(pts))]} for _ in range(rng.randint(1, 2))]
        scn["configs"].append(inner)
        for e in cfg["optimizer"]["options"]["script"]:
            e.pop("batch", None)
            e["pts"] = e["pts"][:1]
        steps = [{"kind": "optimizer", "cfg": 0,
                  "nested": {"steps": [{"kind": "optimizer", "cfg": 1}], "recorders": ["a"],
                             "trackers": [{"what": "best", "tol": rng.choice([None, 1e-10]), "sources": [0]}]}}]
    trackers = []
    for _ in range(rng.randint(2, 3)):
        src = sorted(rng.sample(range(len(steps)), rng.randint(1, len(steps))))
        trackers.append({"what": rng.choice(["best", "best", "last"]), "tol": rng.choice([None, 0.0, 1e-10, 1e-3, 0.5]), "sources": src})
    scn["plan"] = {"steps": steps, "recorders": ["a"], "trackers": trackers}
    scn["stratum"] = "nested" if nested else f"steps{nsteps}"
    return scn


def _basic(rng: random.Random) -> dict:
    nv = rng.randint(1, 3)
    method = rng.choice(["slsqp", "nelder-mead"])
    scn = gen.base_scenario(rng, PROP, nv=nv, nr_max=3, no_max=2, nc_max=(1 if method == "slsqp" else 0), npert_max=3,
                            filters=False, stddev=False, mask=False, linear=False, world_kind="quadratic",
                            bounds_style=rng.choice(["finite", "none"]), transforms=(rng.random() < 0.5),
                            inject_p=0.0, step="optimizer", zero_real_weights=False, pms=None, rms=None)
    cfg = scn["configs"][0]
    if cfg.get("nonlinear_constraints"):
        nl = cfg["nonlinear_constraints"]
        nl["lower_bounds"] = [-gen.INF] * len(nl["lower_bounds"])
    tr = scn.get("transforms")
    if tr:
        tr.pop("var", None)  # BasicOptimizer + variable transform on a dict config is C11's finding
        if rng.random() < 0.5:
            no = len(scn["world"]["obj_ids"])
            tr["obj"] = {"scales": (tr.get("obj") or {}).get("scales") or [1.0] * no, "flip": True}
        if not any(tr.values()):
            scn["transforms"] = None
    cfg["optimizer"] = {"method": method, "options": {"maxiter": rng.randint(2, 5)}, "tolerance": 1e-3}
    scn["entry"] = "basic"
    if rng.random() < 0.5:
        # one BasicOptimizer object run two or three times; in some runs every evaluation fails, so that the run
        # has no feasible result at all and must report none (not what an earlier run of the object found)
        allfail = [{"kind": "nan", "eval": None, "real": None, "pert": None, "col": None}]
        scn["run_faults"] = [list(scn.get("faults") or [])] + [
            (allfail if rng.random() < 0.6 else list(scn.get("faults") or [])) for _ in range(rng.randint(1, 2))]
    scn["basic_tol"] = rng.choice([1e-10, 1e-3, 0.5])
    scn["stratum"] = "basic"
    return scn


def _feasible(titem, tol) -> bool:
    if tol is None:
        return True
    ci = titem.constraint_info
    if ci is None:
        return True
    for v in (ci.bound_violation, ci.linear_violation, ci.nonlinear_violation):
        if v is not None and np.any(np.asarray(v) > tol):
            return False
    return True


def fold_check(history, held_after, what, tol, where, viol, probes):
    """history: list of (event#, user item, opt item) for tracked sources, in order.
    held_after: dict event# -> held object after that event."""
    def probe(name, n=1):
        probes[name] = probes.get(name, 0) + n

    probe("best_tracker" if what == "best" else "last_tracker")
    valid = []      # (value, user item)
    nan_items = []
    seen_events = sorted(held_after)
    hi = 0
    compared = 0
    last_any = None      # most recent feasible function result (NaN included)
    last_valid = None    # most recent feasible function result with a defined objective
    for n in seen_events:
        while hi < len(history) and history[hi][0] <= n:
            _, u, o = history[hi]
            hi += 1
            if isinstance(o, FunctionResults) and o.functions is not None and _feasible(o, tol):
                val = float(o.functions.weighted_objective)
                last_any = u
                if np.isnan(val):
                    nan_items.append(u)
                else:
                    valid.append((val, u))
                    last_valid = u
        held = held_after[n]
        compared += 1
        if what == "best":
            if valid:
                best = min(v for v, _ in valid)
                ok = any(held is u and v == best for v, u in valid)
                if not ok:
                    hv = None
                    for v, u in valid:
                        if held is u:
                            hv = v
                    desc = ("nothing" if held is None else
                            (f"a result with optimizer-domain objective {hv}" if hv is not None else
                             ("a NaN-objective result" if any(held is u for u in nan_items) else "an infeasible/foreign result")))
                    viol.append({"clause": "best-tracker-not-optimum",
                                 "sig": {"holds": "nan" if any(held is u for u in nan_items) else ("none" if held is None else ("worse" if hv is not None else "other"))},
                                 "detail": f"{where} after event {n}: tracker holds {desc}; feasible history values (optimizer domain) {[round(v, 6) for v, _ in valid]}, minimum {best}"})
                    return compared
            else:
                if held is not None and not any(held is u for u in nan_items):
                    viol.append({"clause": "best-tracker-holds-invalid", "sig": {},
                                 "detail": f"{where} after event {n}: no feasible function result exists yet but the tracker holds one"})
                    return compared
        else:
            ok = held is last_any or held is last_valid
            if not ok:
                viol.append({"clause": "last-tracker-not-most-recent-feasible", "sig": {},
                             "detail": f"{where} after event {n}: tracker does not hold the most recent feasible function result"})
                return compared
    return compared


def execute(scn: dict) -> dict:
    if scn.get("entry") == "basic":
        return _execute_basic(scn)
    ctx = harness.run_scenario(scn)
    viol: list[dict] = []
    probes: dict[str, int] = {}

    def probe(name, n=1):
        probes[name] = probes.get(name, 0) + n

    if (scn.get("transforms") or {}).get("obj", {}) and scn["transforms"]["obj"].get("flip"):
        probe("sign_flip")
    if scn["stratum"] == "nested":
        probe("nested")
    compared = 0
    nresults = 0
    pattern = []
    for ti, tr in enumerate(ctx.trackers):
        spec = tr["spec"]
        srcs = set(tr["sources"])
        history = []
        held_after = {}
        for rec in ctx.events:
            if rec.tracker_state is not None:
                held_after[rec.n] = rec.tracker_state[ti]
            if rec.type != EventType.FINISHED_EVALUATION or rec.results is None:
                continue
            opt = rec.transformed if rec.transformed is not None else rec.results
            if rec.source not in srcs:
                if ti == 0:
                    probe("untracked_source_result")
                continue
            if not any(isinstance(o, FunctionResults) for o in opt) and ti == 0:
                probe("gradient_only_event")
            vals_here = [float(o.functions.weighted_objective) for o in opt if isinstance(o, FunctionResults) and o.functions is not None]
            if ti == 0 and any(np.isnan(v) for v in vals_here) and any(not np.isnan(v) for v in vals_here):
                probe("nan_and_valid_in_one_event")
            for u, o in zip(rec.results, opt):
                history.append((rec.n, u, o))
        if ti == 0:
            vals = []
            for _, u, o in history:
                if isinstance(o, FunctionResults) and o.functions is not None:
                    nresults += 1
                    v = float(o.functions.weighted_objective)
                    feas = _feasible(o, spec.get("tol"))
                    pattern.append(("nan" if np.isnan(v) else "v", feas))
                    if np.isnan(v):
                        probe("nan_result_in_history")
                        if not vals:
                            probe("nan_first")
                    elif not feas:
                        probe("infeasible_in_history")
                    else:
                        if v == 0.0:
                            probe("zero_objective_in_history")
                        if v in vals:
                            probe("tie_in_history")
                        if vals and v < min(vals):
                            probe("improvement_after_first")
                        vals.append(v)
        # only events emitted while this tracker exists count; the states are those seen by the observer
        compared += fold_check(history, held_after, spec.get("what", "best"), spec.get("tol", 1e-10),
                               f"tracker {ti} ({spec})", viol, probes)
    probe("states_compared", compared)
    key = (scn["stratum"], str([s["kind"] for s in scn["plan"]["steps"]]), str(pattern),
           str([(t["what"], t.get("tol"), t["sources"]) for t in scn["plan"]["trackers"]]),
           bool(scn.get("transforms")), bool((scn.get("transforms") or {}).get("obj", {}) and scn["transforms"]["obj"].get("flip")))
    return {
        "violations": _dedupe(viol),
        "nontrivial": nresults >= 2 and compared > 0,
        "key": f"{H(str(key)):016x}",
        "probes": probes,
        "fired": dict(ctx.evaluator.fired),
        "digest": harness.trace_digest(ctx),
        "evals": len(ctx.evaluator.calls),
        "events": len(ctx.events),
        "stratum": scn.get("stratum"),
        "summary": {"exits": oracles.exits_summary(ctx), "compared": compared, "pattern": pattern},
    }


def _execute_basic(scn: dict) -> dict:
    """BasicOptimizer reports exactly the tracked best."""
    import warnings

    from ropt.plan import BasicOptimizer

    from sim.evaluator import SimEvaluator
    from sim.simtransforms import build_transforms
    from sim.world import World

    warnings.simplefilter("ignore")
    viol: list[dict] = []
    probes = {"basic_optimizer": 1}
    ev = SimEvaluator(World(scn["world"]), scn.get("faults"), scn.get("mode"))
    transforms = build_transforms(scn.get("transforms"))
    history = []
    counter = [0]

    def cb(results, transformed=None):
        counter[0] += 1
        opt = transformed if transformed else results
        for u, o in zip(results, opt):
            history.append((counter[0], u, o))

    tol = scn["basic_tol"]
    bo = BasicOptimizer(copy.deepcopy(scn["configs"][0]), ev, transforms=transforms, constraint_tolerance=tol)
    bo.set_results_callback(cb, transformed=transforms is not None)
    exc = None
    compared = 0
    for run_no, run_faults in enumerate(scn.get("run_faults") or [None]):
        if run_faults is not None:
            ev.faults = list(run_faults)
        start = len(history)
        try:
            bo.run()
        except Exception as e:  # noqa: BLE001
            exc = f"{type(e).__name__}: {e}"
            break
        held_after = {counter[0] + 1: bo.results}
        nviol = len(viol)
        compared += fold_check(history[start:], held_after, "best", tol, f"BasicOptimizer.results (run {run_no} of the object)", viol, probes)
        for v in viol[nviol:]:
            v["sig"] = {**v["sig"], "later_run": run_no > 0}
        if run_no > 0:
            probes["basic_optimizer_run_again"] = probes.get("basic_optimizer_run_again", 0) + 1
            if not any(isinstance(o, FunctionResults) and o.functions is not None for _, _, o in history[start:]):
                probes["basic_optimizer_run_again_without_results"] = probes.get("basic_optimizer_run_again_without_results", 0) + 1
        if bo.results is not None and bo.variables is not None and not np.array_equal(bo.variables, bo.results.evaluations.variables):
            viol.append({"clause": "basic-optimizer-variables", "sig": {}, "detail": "variables differ from results.evaluations.variables"})
        if (bo.results is None) != (bo.variables is None):
            viol.append({"clause": "basic-optimizer-variables", "sig": {"one_is_none": True},
                         "detail": f"run {run_no}: results is {'None' if bo.results is None else 'set'} but variables is {'None' if bo.variables is None else 'set'}"})
    if scn.get("transforms") and (scn["transforms"].get("obj") or {}).get("flip"):
        probes["sign_flip"] = 1
    nres = sum(1 for _, u, o in history if isinstance(o, FunctionResults) and o.functions is not None)
    from sim.seeds import digest_bytes
    dg = digest_bytes(*[harness.result_bytes(o) for _, u, o in history], repr(exc).encode(), repr(int(bo.exit_code) if exc is None else None).encode())
    return {
        "violations": _dedupe(viol),
        "nontrivial": nres >= 2 and compared > 0,
        "key": f"{H('basic', oracles.scenario_key(scn), nres):016x}",
        "probes": probes,
        "fired": dict(ev.fired),
        "digest": dg,
        "evals": len(ev.calls),
        "events": counter[0],
        "stratum": "basic",
        "summary": {"exception": exc, "results": nres},
    }


def _dedupe(viol):
    seen, out = set(), []
    for v in viol:
        k = (v["clause"], repr(sorted(v["sig"].items())))
        if k not in seen:
            seen.add(k)
            out.append(v)
    return out


def reductions(scn: dict):
    from sim.reduce import generic_reductions

    if scn.get("entry") == "basic" or len(scn["configs"]) > 1:
        return
    for c in generic_reductions(scn):
        yield c
    if len(scn["plan"]["trackers"]) > 1:
        for i in range(len(scn["plan"]["trackers"])):
            c = copy.deepcopy(scn)
            del c["plan"]["trackers"][i]
            yield c
