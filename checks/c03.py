"""C03  Failed realizations and perturbations are excluded exactly as if absent.

Fault enumeration: for small ensembles (R,P <= 2 quick, <= 3 thorough) run i of the
stratum uses the i-th failure mask over (realization x {unperturbed, perturbation k});
larger ensembles are sampled.  Failure flags must equal the model's (iff), values and
gradients must equal those of the reduced ensemble, and too few successes must give no
functions/gradients and TOO_FEW_REALIZATIONS."""
from __future__ import annotations

import random

import numpy as np

from ropt.enums import OptimizerExitCode

from sim import gen, harness, model, oracles

PROP = "C03"
LEVEL = "fault_enumeration"
COUNT = {"quick": 8000, "thorough": None}
BUDGET = {"quick": 45, "thorough": 600}
CHUNK = 4000
RULE = (
    'Kept-object stratum (index%14==5): one EnsembleEvaluator object answers 2-4 requests at one point while the set of failing realizations changes from request to request. '
    "even indices: small-ensemble stratum - (R,P) cycles over {1..Rmax}x{1..Pmax} (max 2 quick / 3 thorough) and the "
    "failure mask over the R*(P+1) cells (realization x {unperturbed, perturbation k}) is the binary expansion of the "
    "stratum counter (every mask is reached once the counter passes 2^(R(P+1))); the NaN column, both thresholds "
    "(whole range incl. 0 and > count), filters, estimators, weights, script are seeded. Odd indices: sampled larger "
    "ensembles (R<=8, P<=6) with seeded fault plans. Non-trivial = at least one failure flag vector or value was "
    "compared while some cell failed; distinct = coarse scenario key incl. the mask."
)
ASSUMPTIONS = [
    "gradient values are compared only under the C02 conditioning predicate on the reported perturbation matrix",
    "merged-realization gradient *values* are not compared with a reference here (C02 and its recorded finding); merged runs take part in the flag clauses and in the metamorphic 'fails completely' twin",
    "functions=None with enough successes is only flagged without filters/stddev (their own TOO_FEW conditions are C14)",
]
COMPONENTS = {
    "real": ["EnOptConfig validation", "EnsembleEvaluator", "EnsembleOptimizer", "filters", "estimators", "plan steps", "results"],
    "stub": ["SimEvaluator", "sim/scripted optimizer", "sim/inject sampler"],
}
PROBES = ["evaluator_object_kept", "twin_gradients_compared", "flags_compared", "gradient_flags_compared", "values_compared", "gradients_compared",
          "too_few_functions", "too_few_gradients", "perturbation_threshold_failed_realization",
          "all_realizations_failed", "mask_with_failures", "ill_conditioned_skipped"]


def _small(rng: random.Random, counter: int, tier: str) -> dict:
    mx = 2 if tier == "quick" else 3
    shapes = [(r, p) for r in range(1, mx + 1) for p in range(1, mx + 1)]
    R, P = shapes[counter % len(shapes)]
    cells = R * (P + 1)
    maskno = (counter // len(shapes)) % (1 << cells)
    scn = gen.base_scenario(
        rng, PROP, nr=R, npert=P, nv_max=3, no_max=2, nc_max=2, zero_real_weights=(rng.random() < 0.3),
        inject_p=0.85, merge=(rng.random() < 0.25), script_len=rng.randint(1, 3),
    )
    cfg = scn["configs"][0]
    # thresholds over their whole range
    cfg["realizations"]["realization_min_success"] = rng.randint(0, R + 1)
    cfg["gradient"]["perturbation_min_success"] = rng.randint(1, P + 1)
    no, nc = len(scn["world"]["obj_ids"]), len(scn["world"]["con_ids"])
    cell = 0
    for r in range(R):
        for p in range(-1, P):
            if (maskno >> cell) & 1:
                c = rng.random()
                col = None if c < 0.3 else (["o", rng.randrange(no)] if (c < 0.65 or nc == 0) else ["c", rng.randrange(nc)])
                scn["faults"].append({"kind": "nan", "eval": None, "real": r, "pert": p, "col": col})
            cell += 1
    scn["stratum"] = f"small-R{R}P{P}"
    scn["mask_no"] = maskno
    scn["mask_cells"] = cells
    return scn


def _sequence(rng: random.Random) -> dict:
    """One EnsembleEvaluator object kept by the user and asked several times at one point while the set of failing
    realizations changes from request to request: every answer excludes exactly the realizations that failed in the
    evaluations it is made of."""
    nr = rng.randint(2, 4)
    scn = gen.base_scenario(rng, PROP, nr=nr, npert_max=3, nv_max=3, no_max=2, nc_max=1, merge=False, stddev=False, filters=False,
                            transforms=False, linear=False, inject_p=0.8, script_len=1, zero_real_weights=False, step="optimizer")
    cfg = scn["configs"][0]
    cfg["realizations"]["realization_min_success"] = 1
    npert = cfg["gradient"]["number_of_perturbations"]
    cfg["gradient"]["perturbation_min_success"] = rng.randint(1, npert)
    x = [float(v) for v in cfg["variables"]["initial_values"]]
    reqs = []
    for _ in range(rng.randint(2, 4)):
        faults = []
        for r in rng.sample(range(nr), rng.randint(0, nr - 1)):
            faults.append({"kind": "nan", "eval": None, "real": r, "pert": rng.choice([-1, -1, rng.randrange(npert)]), "col": None})
        reqs.append({"op": rng.choice(["f", "fg", "g"]), "x": list(x), "faults": faults})
        if rng.random() < 0.2:
            x = [v + 0.5 for v in x]
    scn["requests"] = reqs
    scn["faults"] = []
    scn["entry"] = "evaluator_object_sequence"
    scn["stratum"] = "evaluator-object-kept"
    return scn


def generate(seed: int, index: int, tier: str) -> dict:
    rng = random.Random(seed)
    if index % 14 == 5:
        return _sequence(rng)
    if index % 2 == 0:
        return _small(rng, index // 2, tier)
    merge = rng.random() < 0.3
    large = index % 50 == 49
    if large:
        # a filter ranking an ensemble with exact ties in its sort key and failed realizations: the tied realizations
        # must be ranked as in the ensemble without the failed ones (sizes beyond those NumPy sorts by insertion)
        scn = gen.base_scenario(rng, PROP, nr=rng.randint(17, 32), npert_max=2, nv_max=3, merge=False, stddev=False, filters=True,
                                inject_p=0.8, script_len=rng.randint(1, 2))
    else:
        scn = gen.base_scenario(rng, PROP, nr_max=8, npert_max=6, nv_max=4, merge=merge, stddev=(False if merge else None), inject_p=0.8)
    gen.add_nan_faults(rng, scn, rate=0.9, max_faults=6)
    scn["stratum"] = "sampled-merged" if scn["configs"][0]["gradient"].get("merge_realizations") else "sampled"
    if len(scn["world"]["real_ids"]) >= 3 and rng.random() < (0.8 if large else 0.3):
        gen.add_ties(rng, scn)
    if large:
        scn["stratum"] = "sampled-large-ties"
    return scn


def execute(scn: dict) -> dict:
    ctx = harness.run_scenario(scn)
    viol: list[dict] = []
    probes: dict[str, int] = {}

    def probe(name, n=1):
        probes[name] = probes.get(name, 0) + n

    cfg0 = scn["configs"][0]
    compared = 0
    if scn.get("entry") == "evaluator_object_sequence":
        probe("evaluator_object_kept")
    partial_failed: set[int] = set()
    first_deficient_call = None
    for ln in oracles.linked_results(ctx):
        cfg = ln.cfg
        if ln.call is None or ln.rows is None:
            continue
        c = model.cfg_counts(cfg)
        rms = model.realization_min_success(cfg)
        tm = oracles.tm_for(ctx, cfg)
        rep_failed = np.asarray(ln.opt.realizations.failed_realizations, dtype=bool)
        plain = not oracles.has_filters(cfg) and all(
            model.estimator_of(cfg, k, j) == "mean" for k, n in (("o", c["no"]), ("c", c["nc"])) for j in range(n))
        if ln.is_function:
            failed = oracles.failed_rows(ln)
            if failed.any():
                probe("mask_with_failures")
            if failed.all():
                probe("all_realizations_failed")
            probe("flags_compared")
            compared += 1
            if not np.array_equal(rep_failed, failed):
                viol.append({"clause": "function-failure-flags", "sig": {},
                             "detail": f"eval {ln.call.k}: reported failed_realizations {rep_failed.tolist()}, model {failed.tolist()}"})
                continue
            nsucc = int((~failed).sum())
            if nsucc < rms:
                probe("too_few_functions")
                if first_deficient_call is None:
                    first_deficient_call = ln.call.k
                if ln.opt.functions is not None:
                    viol.append({"clause": "functions-reported-with-too-few-successes", "sig": {},
                                 "detail": f"eval {ln.call.k}: {nsucc} successes < realization_min_success {rms} but functions reported"})
                continue
            if ln.opt.functions is None:
                if plain:
                    viol.append({"clause": "functions-missing-with-enough-successes", "sig": {},
                                 "detail": f"eval {ln.call.k}: {nsucc} successes >= {rms} but no functions reported"})
                continue
            # values equal those of the reduced ensemble
            yo, yc = oracles.returned_opt_values(ln, tm)
            fn = ln.opt.functions
            for kind, n, rep, y in (("o", c["no"], fn.objectives, yo), ("c", c["nc"], fn.constraints, yc)):
                for j in range(n):
                    w, filtered = oracles.weights_in_force(ln, kind, j)
                    if w is None:
                        continue
                    keep = ~failed
                    wr = np.asarray(w)[keep]
                    if wr.sum() <= 0 or np.any(wr < 0):
                        continue
                    ref = model.estimate(model.estimator_of(cfg, kind, j), y[keep, j], wr)
                    if ref is None:
                        continue
                    probe("values_compared")
                    if not model.close(float(rep[j]), ref):
                        viol.append({"clause": "function-value-reduced-ensemble", "sig": {"filtered": filtered},
                                     "detail": f"eval {ln.call.k} {kind}{j}: reported {float(rep[j])!r}, reduced-ensemble reference {ref!r}"})
        else:
            ref = oracles.gradient_reference(ctx, ln)
            if ref is None:
                continue
            failed = ref["failed"]
            if np.any(ref["p_failed"]) or np.any(ref["f_failed"]):
                probe("mask_with_failures")
            if np.any(failed & ~ref["f_failed"]):
                probe("perturbation_threshold_failed_realization")
                # only realizations with at least one successful perturbation matter here
                for r in np.where(failed & ~ref["f_failed"])[0]:
                    if np.any(~ref["p_failed"][r]):
                        partial_failed.add(int(r))
            probe("gradient_flags_compared")
            compared += 1
            if not np.array_equal(rep_failed, failed):
                viol.append({"clause": "gradient-failure-flags", "sig": {},
                             "detail": f"eval {ln.call.k}: reported failed_realizations {rep_failed.tolist()}, model {failed.tolist()} "
                                       f"(perturbation successes {(~ref['p_failed']).sum(axis=1).tolist()}, min {model.perturbation_min_success(cfg)})"})
                continue
            nsucc = int((~failed).sum())
            if nsucc < rms:
                probe("too_few_gradients")
                if first_deficient_call is None:
                    first_deficient_call = ln.call.k
                if ln.opt.gradients is not None:
                    viol.append({"clause": "gradients-reported-with-too-few-successes", "sig": {},
                                 "detail": f"eval {ln.call.k}: {nsucc} successes < {rms} but gradients reported"})
                continue
            if ln.opt.gradients is None:
                if plain:
                    viol.append({"clause": "gradients-missing-with-enough-successes", "sig": {},
                                 "detail": f"eval {ln.call.k}: {nsucc} successes >= {rms} but no gradients reported"})
                continue
            g = ln.opt.gradients
            for (kind, j), e in ref["funcs"].items():
                if e["ref"] is None:
                    if e["why"] == "ill-conditioned":
                        probe("ill_conditioned_skipped")
                    continue
                rep = np.asarray(g.objectives[j] if kind == "o" else g.constraints[j], dtype=float)
                probe("gradients_compared")
                scale = max(1.0, float(np.max(np.abs(e["ref"]))))
                if not np.allclose(rep, e["ref"], rtol=1e-6, atol=1e-8 * scale):
                    viol.append({"clause": "gradient-value-reduced-ensemble", "sig": {"filtered": e["filtered"], "estimator": e.get("est")},
                                 "detail": f"eval {ln.call.k} {kind}{j}: reported {rep.tolist()}, reduced-ensemble reference {e['ref'].tolist()}"})

    # "exactly as if absent" (metamorphic): a realization that failed for the gradient only because too few of
    # its perturbations succeeded must influence the gradient no more than one that fails completely
    if partial_failed and not any(e[0] == "exception" for e in ctx.exits):
        import copy as _copy
        twin = _copy.deepcopy(scn)
        for r in sorted(partial_failed):
            twin["faults"].append({"kind": "nan", "eval": None, "real": int(r), "pert": None, "col": None})
        tctx = harness.run_scenario(twin)
        ga = [ln for ln in oracles.linked_results(ctx) if not ln.is_function]
        gb = [ln for ln in oracles.linked_results(tctx) if not ln.is_function]
        for a, b in zip(ga, gb):
            if a.opt.gradients is None or b.opt.gradients is None:
                break
            fa = np.asarray(a.opt.realizations.failed_realizations, bool)
            fb = np.asarray(b.opt.realizations.failed_realizations, bool)
            if not np.array_equal(fa, fb) or not np.array_equal(np.asarray(a.opt.evaluations.variables), np.asarray(b.opt.evaluations.variables)):
                break
            probe("twin_gradients_compared")
            x = np.asarray(a.opt.gradients.objectives, float)
            y = np.asarray(b.opt.gradients.objectives, float)
            if not np.allclose(x, y, rtol=1e-9, atol=1e-12, equal_nan=True):
                viol.append({"clause": "partially-failed-realization-influences-gradient",
                             "sig": {"merged": bool(cfg0.get("gradient", {}).get("merge_realizations")), "filters": oracles.has_filters(cfg0)},
                             "detail": f"eval {a.call.k if a.call else '?'}: objective gradients {x.tolist()} with realization(s) {sorted(partial_failed)} failing through "
                                       f"perturbation_min_success, {y.tolist()} when the same realization(s) fail completely"})
                break

    step_kind = scn["plan"]["steps"][0]["kind"]
    # an optimizer step must stop with TOO_FEW_REALIZATIONS at the first deficient evaluation
    # (the statement says "an optimization stops": the evaluator step's code is C14's business)
    # (not in the kept-evaluator stratum: there no optimization runs - the user asks the evaluator again as they please)
    if scn.get("entry") != "evaluator_object_sequence" and step_kind == "optimizer" and first_deficient_call is not None \
            and ctx.exits and ctx.exits[0][0] == "ret":
        code = ctx.exits[0][2]
        if code != int(OptimizerExitCode.TOO_FEW_REALIZATIONS):
            viol.append({"clause": "exit-code-not-too-few", "sig": {"step": step_kind},
                         "detail": f"evaluation {first_deficient_call} had too few successes but the {step_kind} step returned {code}"})
        if step_kind == "optimizer" and len(ctx.evaluator.calls) > first_deficient_call + 1:
            viol.append({"clause": "continued-after-too-few", "sig": {},
                         "detail": f"evaluator called again after deficient evaluation {first_deficient_call}"})

    return {
        "violations": _dedupe(viol),
        "nontrivial": compared > 0 and probes.get("mask_with_failures", 0) > 0,
        "key": oracles.scenario_key(scn, scn.get("mask_no")),
        "probes": probes,
        "fired": dict(ctx.evaluator.fired),
        "digest": harness.trace_digest(ctx),
        "evals": len(ctx.evaluator.calls),
        "events": len(ctx.events),
        "stratum": scn.get("stratum"),
        "summary": {"exits": oracles.exits_summary(ctx), "compared": compared, "mask_no": scn.get("mask_no")},
    }


def _dedupe(viol):
    seen, out = set(), []
    for v in viol:
        k = (v["clause"], repr(sorted(v["sig"].items())))
        if k not in seen:
            seen.add(k)
            out.append(v)
    return out


def reductions(scn: dict):
    from sim.reduce import generic_reductions

    yield from generic_reductions(scn)
