"""C15  Event streams are well formed and aborts latch the plan, at every abort point.

Fault enumeration over abort points: a fault-free baseline of the scenario gives N events
and M evaluator calls; run j of a scenario group raises the user abort at the j-th
(event, receiver) delivery of an optimizer step (observer or handler, inner or outer plan
level) or inside the j-th evaluator call.  Single-step, multi-step and nested plans with
two recording handlers per plan level and observers for every event type."""
from __future__ import annotations

import copy
import os
import random

import numpy as np

from ropt.enums import EventType, OptimizerExitCode

from sim import gen, harness, model, oracles
from sim.seeds import H, run_seed

PROP = "C15"
LEVEL = "fault_enumeration"
COUNT = {"quick": 6000, "thorough": None}
BUDGET = {"quick": 45, "thorough": 600}
CHUNK = 4000
GROUP = 12
RULE = (
    'Groups with number%25==12: a nested plan object handed to the steps of two top-level plans in turn (plain / abort at a seeded inner event delivery of the second run / all evaluations failing). '
    "runs come in groups of 12 sharing one scenario (plan shape single / evaluator-step / multi-step / nested; scripted "
    "optimizers with 1-4 requests, NaN failures and max_functions mixed in). Member 0 is the fault-free baseline; member j "
    "raises the abort at abort point (j-1)*A/11 of the A = (event deliveries of optimizer steps) + (evaluator calls) abort "
    "points of the baseline, so a group sweeps the whole run; groups with A <= 11 cover every abort point. Non-trivial = the "
    "grammar and delivery oracles ran on a run with >= 4 events; distinct = (plan shape, request kinds, abort point kind, "
    "event type and receiver at the abort)."
)
ASSUMPTIONS = [
    "the event at which a receiver raises the abort may miss its later receivers (the exception propagates); every other event must reach all of them exactly once, handlers of the emitting plan first, then ancestors, then observers",
    "observer/handler aborts are generated at the events of optimizer steps (the quantifier's scope) and, since the evaluator step handles them the same way (fix ba9e381), of evaluator steps",
]
COMPONENTS = {
    "real": ["Plan.emit_event / run_step / abort", "DefaultOptimizerStep", "DefaultEvaluatorStep", "EnsembleOptimizer", "tracker handler", "OptimizerContext observers"],
    "real_also": ["BasicOptimizer (4% of the groups: one object, callbacks registered once, run() called 2-3 times)"],
    "stub": ["recording handler plug-in (two per plan level)", "recording observers", "SimEvaluator", "sim/scripted optimizer"],
}
PROBES = ["nested_plan_under_two_plans", "abort_in_second_plan_run", "basic_optimizer_reused", "basic_optimizer_abort_callback_fires", "child_plan", "baseline_runs", "abort_at_event", "abort_in_evaluator", "abort_at_step_start_event", "abort_at_step_finished_event",
          "abort_by_handler", "abort_by_observer", "abort_in_inner_plan", "abort_by_outer_handler_on_inner_event",
          "nested_plan", "multi_step_plan", "unmatched_start_allowed", "further_step_refused", "too_few_in_run", "max_functions_in_run"]

STEP_START = {"optimizer": EventType.START_OPTIMIZER_STEP, "evaluator": EventType.START_EVALUATOR_STEP}
STEP_END = {"optimizer": EventType.FINISHED_OPTIMIZER_STEP, "evaluator": EventType.FINISHED_EVALUATOR_STEP}


def _group_scenario(gseed: int) -> dict:
    rng = random.Random(gseed)
    shape = rng.choice(["single", "single", "evalstep", "multi", "multi", "nested", "nested", "child"])
    nv = rng.randint(2, 3)
    scn = gen.base_scenario(rng, PROP, nv=nv, nr_max=2, no_max=2, nc_max=1, npert_max=2, filters=(rng.random() < 0.2),
                            stddev=False, transforms=(rng.random() < 0.2), linear=False, mask=False, inject_p=1.0,
                            script_len=rng.randint(1, 4), step="optimizer", rms=None, pms=None, zero_real_weights=False)
    cfg = scn["configs"][0]
    cfg["optimizer"]["options"]["allow_nan"] = False
    if rng.random() < 0.3:
        cfg["optimizer"]["max_functions"] = rng.randint(1, 3)
    if rng.random() < 0.3:
        gen.add_nan_faults(rng, scn, rate=1.0, max_faults=2)
    steps = [{"kind": "optimizer", "cfg": 0}]
    if shape == "evalstep":
        steps = [{"kind": "evaluator", "cfg": 0}]
    elif shape == "multi":
        steps = [{"kind": rng.choice(["optimizer", "optimizer", "evaluator"]), "cfg": 0} for _ in range(rng.randint(2, 3))]
        if not any(s["kind"] == "optimizer" for s in steps):
            steps[0]["kind"] = "optimizer"
    elif shape == "child":
        # a plan created with Plan(context, parent=top) whose step the user runs directly: the top-level plan is its
        # ancestor (it gets the events) and must be latched by an abort in the child
        steps = [{"kind": "optimizer", "cfg": 0, "child": True}]
    elif shape == "nested":
        inner = copy.deepcopy(cfg)
        mask = [i == 0 for i in range(nv)] if rng.random() < 0.5 else [i != 0 for i in range(nv)]
        cfg["variables"]["mask"] = mask
        inner["variables"]["mask"] = [not m for m in mask]
        inner["optimizer"]["options"]["script"] = gen.gen_script(rng, len(inner["optimizer"]["options"]["points"]), rng.randint(1, 2), ops=("f", "fg"))
        inner["optimizer"].pop("max_functions", None)
        scn["configs"].append(inner)
        # outer script: single-vector requests only (nested optimization does not support batches)
        for e in cfg["optimizer"]["options"]["script"]:
            e.pop("batch", None)
            e["pts"] = e["pts"][:1]
        steps = [{"kind": "optimizer", "cfg": 0,
                  "nested": {"steps": [{"kind": "optimizer", "cfg": 1} for _ in range(rng.choice([1, 1, 2]))], "recorders": ["a", "b"],
                             "trackers": [{"what": "best", "tol": None, "sources": [0]}]}}]
    # one more step that must be refused after an abort
    steps.append({"kind": "evaluator", "cfg": 0})
    scn["plan"] = {"steps": steps, "recorders": ["a", "b"], "trackers": [{"what": "best", "sources": [0]}]}
    scn["shape"] = shape
    return scn


def two_outer_scenario(rng: random.Random, prop: str) -> dict:
    """A nested plan the user keeps and hands, as nested_optimization, first to a step of one top-level plan and then
    to a step of a second top-level plan."""
    nv = rng.randint(2, 3)
    scn = gen.base_scenario(rng, prop, nv=nv, nr_max=2, no_max=2, nc_max=0, npert_max=2, filters=False,
                            stddev=False, transforms=False, linear=False, mask=False, inject_p=1.0,
                            script_len=rng.randint(1, 3), step="optimizer", rms=None, pms=None, zero_real_weights=False)
    cfg = scn["configs"][0]
    cfg["optimizer"]["options"]["allow_nan"] = False
    cfg["optimizer"].pop("max_functions", None)
    inner = copy.deepcopy(cfg)
    mask = [i == 0 for i in range(nv)]
    cfg["variables"]["mask"] = mask
    inner["variables"]["mask"] = [not m for m in mask]
    inner["optimizer"]["options"]["script"] = gen.gen_script(rng, len(inner["optimizer"]["options"]["points"]), rng.randint(1, 2), ops=("f", "fg"))
    scn["configs"].append(inner)
    for e in cfg["optimizer"]["options"]["script"]:
        e.pop("batch", None)
        e["pts"] = e["pts"][:1]
    scn["faults"] = []
    scn["plan"] = {"steps": [{"kind": "optimizer", "cfg": 0,
                              "nested": {"steps": [{"kind": "optimizer", "cfg": 1}], "recorders": ["a", "b"],
                                         "trackers": [{"what": "best", "tol": None, "sources": [0]}]}}],
                   "recorders": ["a", "b"], "trackers": [{"what": "best", "sources": [0]}]}
    scn["second_outer_plan"] = True
    scn["entry"] = "nested_plan_under_two_plans"
    scn["second"] = rng.choice(["plain", "abort", "abort", "all-fail"])
    scn["abort_rank"] = rng.getrandbits(16)
    scn["shape"] = scn["stratum"] = "nested-plan-kept"
    return scn


def execute_two_outer(scn: dict) -> dict:
    """Events of the second top-level plan's run (and of the nested plan while it runs under it) reach the handlers of
    the nested plan, of the second plan and the observers - not those of the first plan, which is not running; an abort
    in that run latches the nested and the second plan, not the first."""
    viol: list[dict] = []
    probes = {"nested_plan_under_two_plans": 1}
    run = copy.deepcopy(scn)
    if scn["second"] == "all-fail":
        run["second_faults"] = [{"kind": "nan", "eval": None, "real": None, "pert": None, "col": None}]
    ctx = harness.run_scenario(run)
    abort = None
    if scn["second"] == "abort":
        start = getattr(ctx, "second_outer_first_event", len(ctx.events))
        pts = [(rec.n, r) for rec in ctx.events[start:] if rec.source >= 0 and ctx.step_meta[rec.source]["level"] == 1 for r in rec.deliveries]
        if pts:
            n, r = pts[scn["abort_rank"] % len(pts)]
            abort = {"event": n, "receiver": r}
            run["second_event_faults"] = [dict(abort)]
            ctx = harness.run_scenario(run)
            probes["abort_in_second_plan_run"] = 1
    start = getattr(ctx, "second_outer_first_event", len(ctx.events))
    checked = 0
    for rec in ctx.events:
        if rec.source < 0:
            continue
        level = ctx.step_meta[rec.source]["level"]
        sfx = "B" if rec.n >= start else ""
        want = (["h1a", "h1b"] if level == 1 else []) + [f"h0a{sfx}", f"h0b{sfx}"] + ["obs"]
        got = list(rec.deliveries)
        checked += 1
        if abort is not None and rec.n == abort["event"]:
            cut = want[: want.index(abort["receiver"]) + 1] if abort["receiver"] in want else want
            if got not in (cut, want):
                viol.append({"clause": "delivery-at-abort-event", "sig": {"entry": "nested-plan-kept"},
                             "detail": f"event {rec.n} {rec.type.name}: delivered to {got}, expected {cut}"})
            continue
        if got != want:
            viol.append({"clause": "event-delivery", "sig": {"type": rec.type.name, "entry": "nested-plan-kept"},
                         "detail": f"event {rec.n} {rec.type.name} (plan level {level}, during the run of the "
                                   f"{'second' if sfx else 'first'} top-level plan, which was handed the same nested plan object): "
                                   f"delivered to {got}, expected {want}"})
    planA, planB = ctx.built["plan"], ctx.built2["plan"]
    inner = ctx.built["steps"][0]["nested"]["plan"]
    fired = abort is not None and ctx.fired.get("abort_at_event")
    if fired:
        if not planB.aborted or not inner.aborted:
            viol.append({"clause": "plan-not-marked-aborted", "sig": {"entry": "nested-plan-kept"},
                         "detail": f"abort {abort} in the run of the second plan: second plan aborted={planB.aborted}, nested plan aborted={inner.aborted}"})
        if ctx.exits and not (ctx.exits[-1][0] == "ret" and ctx.exits[-1][2] == int(OptimizerExitCode.USER_ABORT)):
            viol.append({"clause": "abort-not-reported-as-user-abort", "sig": {"entry": "nested-plan-kept"}, "detail": f"exits {ctx.exits}"})
    if planA.aborted:
        viol.append({"clause": "plan-aborted-without-abort", "sig": {"entry": "nested-plan-kept"},
                     "detail": f"the first top-level plan (not running, no abort during its own run) is marked aborted; abort {abort}"})
    for e in ctx.exits:
        if e[0] == "exception":
            viol.append({"clause": "run-raised", "sig": {"entry": "nested-plan-kept"}, "detail": f"{e}"})
    return {
        "violations": _dedupe(viol),
        "nontrivial": checked >= 4 and len(ctx.events) > start,
        "key": oracles.scenario_key(scn, ("two-outer", scn["second"], None if abort is None else abort["receiver"])),
        "probes": probes,
        "fired": {**dict(ctx.evaluator.fired), **dict(ctx.fired)},
        "digest": harness.trace_digest(ctx),
        "evals": len(ctx.evaluator.calls),
        "events": len(ctx.events),
        "stratum": scn.get("stratum"),
        "summary": {"exits": oracles.exits_summary(ctx), "second": scn["second"], "abort": abort},
    }


def generate(seed: int, index: int, tier: str) -> dict:
    batch = int(os.environ.get("VERIF_SEED", "0"))
    group = index // GROUP
    if group % 25 == 12:
        return two_outer_scenario(random.Random(run_seed(batch, PROP + "-two-outer", index)), PROP)
    if group % 25 == 24:
        # the plan BasicOptimizer builds, run two or three times with one object: every run is a plan run of its own and
        # must deliver each of its events exactly once to the callbacks registered once by the user
        rng = random.Random(run_seed(batch, PROP + "-basic", index))
        method = rng.choice(["slsqp", "nelder-mead", "l-bfgs-b"])
        scn = gen.base_scenario(rng, PROP, nv=rng.randint(2, 3), nr_max=2, no_max=2, nc_max=0, npert_max=2, filters=False, stddev=False,
                                transforms=False, linear=False, mask=False, inject_p=0.0, world_kind="quadratic",
                                bounds_style=rng.choice(["finite", "none"]),
                                step="optimizer", rms=None, pms=None, zero_real_weights=False)
        # (BasicOptimizer creates its own plug-in manager: built-in sampler and a real SciPy method)
        scn["configs"][0]["optimizer"] = {"method": method, "max_functions": rng.randint(2, 5), "tolerance": 1e-3}
        scn["entry"] = "basic_twice"
        scn["runs"] = rng.choice([2, 2, 3])
        scn["abort_at_poll"] = rng.choice([None, None, 1, 2, 3])
        scn["shape"] = scn["stratum"] = "basic-optimizer-reused"
        return scn
    scn = _group_scenario(run_seed(batch, PROP + "-group", group))
    scn["member"] = index % GROUP
    scn["stratum"] = scn["shape"]
    return scn


def _expected_receivers(ctx, rec) -> list[str]:
    level = ctx.step_meta[rec.source]["level"] if rec.source >= 0 else 0
    out = []
    for lv in range(level, -1, -1):
        out += [f"h{lv}a", f"h{lv}b"]
    return out + ["obs"]


def _abort_points(ctx) -> list[dict]:
    """All abort points of a (baseline) run in execution order."""
    pts = []
    ev_of_call = {}
    for rec in ctx.events:
        if rec.source >= 0:  # (events of optimizer steps - the quantifier's scope - and of evaluator steps alike)
            for r in rec.deliveries:
                pts.append({"kind": "event", "event": rec.n, "receiver": r, "type": int(rec.type)})
    for c in ctx.evaluator.calls:
        pts.append({"kind": "call", "call": c.k})
    return pts


def check_run(ctx, scn, abort, viol, probes) -> int:
    def probe(name, n=1):
        probes[name] = probes.get(name, 0) + n

    checked = 0
    meta = ctx.step_meta
    # where did the abort arise?
    abort_event = abort["event"] if abort and abort["kind"] == "event" else None
    abort_call = abort["call"] if abort and abort["kind"] == "call" else None
    fired = (abort_event is not None and ctx.fired.get("abort_at_event")) or \
            (abort_call is not None and ctx.evaluator.fired.get("evaluator_aborts"))
    # the START_EVALUATION that the abort arose at/inside (if any): event number
    inside_eval_start = None
    if fired and abort_event is not None:
        rec = ctx.events[abort_event]
        if rec.type == EventType.START_EVALUATION:
            inside_eval_start = rec.n
        elif rec.type == EventType.FINISHED_EVALUATION:
            inside_eval_start = "finished"
    # ---- exactly-once delivery, handlers first ------------------------------------------
    for rec in ctx.events:
        if rec.source < 0:
            viol.append({"clause": "event-from-unknown-source", "sig": {}, "detail": f"event {rec.n} {rec.type.name}"})
            continue
        want = _expected_receivers(ctx, rec)
        got = list(rec.deliveries)
        checked += 1
        if fired and abort_event == rec.n:
            r = abort["receiver"]
            cut = want[: want.index(r) + 1] if r in want else want
            if got != cut and got != want:  # (the later receivers may or may not get the event at which one of them aborts)
                viol.append({"clause": "delivery-at-abort-event", "sig": {},
                             "detail": f"event {rec.n} {rec.type.name} (abort raised by {r}): delivered to {got}, expected {cut}"})
            continue
        if got != want:
            viol.append({"clause": "event-delivery", "sig": {"type": rec.type.name},
                         "detail": f"event {rec.n} {rec.type.name} from step {rec.source} (plan level {meta[rec.source]['level']}): delivered to {got}, expected {want}"})
    # ---- per-source grammar -----------------------------------------------------------------
    # evaluator-raised abort: which START_EVALUATION was open?
    if fired and abort_call is not None:
        # the latest START_EVALUATION event delivered before the call: approximate by scanning events with results
        inside_eval_start = "call"
    by_source: dict[int, list] = {}
    for rec in ctx.events:
        by_source.setdefault(rec.source, []).append(rec)
    unmatched_total = 0
    for src, recs in by_source.items():
        if src < 0:
            continue
        kind = meta[src]["kind"]
        state = "idle"
        for rec in recs:
            t = rec.type
            ok = True
            if state == "idle":
                ok = t == STEP_START[kind]
                state = "step"
            elif state == "step":
                if t == EventType.START_EVALUATION:
                    state = "eval"
                elif t == STEP_END[kind]:
                    state = "idle"
                else:
                    ok = False
            elif state == "eval":
                if t == EventType.FINISHED_EVALUATION:
                    state = "step"
                elif t == STEP_END[kind]:
                    # unmatched START_EVALUATION: only when the abort arose at/inside that evaluation
                    unmatched_total += 1
                    state = "idle"
                else:
                    ok = False
            if not ok:
                viol.append({"clause": "event-grammar", "sig": {"step_kind": kind},
                             "detail": f"step {src} ({kind}): unexpected {t.name} at event {rec.n}; stream {[r.type.name for r in recs]}"})
                break
        else:
            if state != "idle":
                viol.append({"clause": "step-finished-event-missing", "sig": {"step_kind": kind, "aborted": bool(fired)},
                             "detail": f"step {src} ({kind}): stream does not end with {STEP_END[kind].name}: {[r.type.name for r in recs]}"})
    if unmatched_total:
        allowed = 0
        if fired and (abort_call is not None or isinstance(inside_eval_start, int)):
            allowed = 1
        # nested: an abort inside an inner evaluation leaves only the inner START unmatched (the outer
        # evaluation has not started yet)
        if unmatched_total > allowed:
            viol.append({"clause": "unmatched-start-evaluation", "sig": {"aborted": bool(fired)},
                         "detail": f"{unmatched_total} START_EVALUATION without FINISHED_EVALUATION (abort: {abort if fired else None})"})
        else:
            probe("unmatched_start_allowed")
    # ---- abort consequences -----------------------------------------------------------------
    top = [e for e in ctx.exits]
    if fired:
        # the step at/inside which the abort arose, and its ancestors, report USER_ABORT
        if abort_event is not None:
            src = ctx.events[abort_event].source
        else:
            # the evaluator call belongs to the step whose (validated) config it carries
            call = ctx.evaluator.calls[abort_call]
            src = next((rec.source for rec in ctx.events if rec.config is call.config), None)
        rets = {e[1]: e for e in ctx.exits if e[0] in ("ret", "exception", "abort_escaped", "evaluator_error")}
        chain = [src] if src is not None else []
        if src is not None and meta[src]["level"] > 0:
            chain.append(0)  # the outer step of the nested plan
        for s in chain:
            e = rets.get(s)
            if e is None or e[0] != "ret" or e[2] != int(OptimizerExitCode.USER_ABORT):
                viol.append({"clause": "abort-not-reported-as-user-abort",
                             "sig": {"at": (ctx.events[abort_event].type.name if abort_event is not None else "evaluator"),
                                     "step_level": meta[s]["level"]},
                             "detail": f"abort {abort}: step {s} ended with {e}"})
        # plan (and parent) marked aborted; further steps refused
        if not ctx.plans[0].aborted:
            viol.append({"clause": "plan-not-marked-aborted", "sig": {"at": (ctx.events[abort_event].type.name if abort_event is not None else "evaluator")},
                         "detail": f"abort {abort}: top-level plan.aborted is False"})
        elif src is not None:
            # every top-level step after the aborted one must be refused
            aborted_top = src if meta[src]["level"] == 0 else 0
            later = [e for e in ctx.exits if meta[e[1]]["level"] == 0 and e[1] > aborted_top]
            if later:
                probe("further_step_refused")
            for e in later:
                if e[0] != "plan_aborted":
                    viol.append({"clause": "step-ran-after-abort", "sig": {}, "detail": f"abort {abort}: later step {e[1]} ended with {e}"})
    else:
        if any(p.aborted for p in ctx.plans):
            viol.append({"clause": "plan-aborted-without-abort", "sig": {}, "detail": f"exits {ctx.exits}"})
        for e in ctx.exits:
            if e[0] != "ret":
                viol.append({"clause": "step-did-not-return", "sig": {"how": e[0]}, "detail": f"step {e[1]} ended with {e}"})
    return checked


def _execute_basic_twice(scn: dict) -> dict:
    """One BasicOptimizer object, callbacks registered once, run() called several times."""
    import warnings

    from ropt.plan import BasicOptimizer
    from ropt.results import FunctionResults

    from sim.evaluator import SimEvaluator
    from sim.seeds import digest_bytes
    from sim.world import World

    warnings.simplefilter("ignore")
    viol: list[dict] = []
    probes = {"basic_optimizer_reused": 1}
    ev = SimEvaluator(World(scn["world"]), scn.get("faults"), scn.get("mode"))
    state = {"run": 0, "polls": 0}
    deliveries: list[list[int]] = []   # per run: id() of every results tuple handed to the callback
    polls: list[int] = []
    kept = []                          # keeps the delivered tuples alive so that id() stays unique

    def results_cb(results):
        kept.append(results)
        deliveries[-1].append(id(results))

    def abort_cb() -> bool:
        state["polls"] += 1
        return scn.get("abort_at_poll") is not None and state["polls"] == scn["abort_at_poll"]

    exc = None
    calls_per_run: list[int] = []
    exits: list = []
    try:
        bo = BasicOptimizer(copy.deepcopy(scn["configs"][0]), ev)
        bo.set_results_callback(results_cb)
        bo.set_abort_callback(abort_cb)
        for _ in range(scn["runs"]):
            deliveries.append([])
            state["polls"] = 0
            before = len(ev.calls)
            bo.run()
            polls.append(state["polls"])
            calls_per_run.append(len(ev.calls) - before)
            exits.append(int(bo.exit_code))
    except Exception as e:  # noqa: BLE001
        # nothing in this scenario family makes the library raise: an exception is a problem of the harness
        raise RuntimeError(f"basic-optimizer-reused scenario raised {type(e).__name__}: {e}") from e
    checked = 0
    if exc is None:
        for k, d in enumerate(deliveries):
            checked += len(d)
            if len(set(d)) != len(d):
                viol.append({"clause": "event-delivered-more-than-once", "sig": {"entry": "basic-optimizer-reused"},
                             "detail": f"run {k + 1} of one BasicOptimizer object: {len(d)} deliveries of {len(set(d))} distinct result "
                                       f"events to a callback registered once"})
        # the runs are identical plan runs (same configuration, deterministic evaluator, same abort rule)
        for k in range(1, len(deliveries)):
            if (len(deliveries[k]), polls[k], calls_per_run[k], exits[k]) != (len(deliveries[0]), polls[0], calls_per_run[0], exits[0]):
                viol.append({"clause": "reused-object-run-differs", "sig": {"entry": "basic-optimizer-reused"},
                             "detail": f"run 1: {len(deliveries[0])} result deliveries, {polls[0]} abort polls, {calls_per_run[0]} evaluator calls, "
                                       f"exit {exits[0]}; run {k + 1}: {len(deliveries[k])}, {polls[k]}, {calls_per_run[k]}, exit {exits[k]}"})
                break
    if scn.get("abort_at_poll") is not None:
        probes["basic_optimizer_abort_callback_fires"] = 1
    return {
        "violations": _dedupe(viol),
        "nontrivial": checked >= 2,
        "key": f"{H('basic', oracles.scenario_key(scn), scn['runs'], scn.get('abort_at_poll')):016x}",
        "probes": probes,
        "fired": dict(ev.fired),
        "digest": digest_bytes(repr((exc, [len(d) for d in deliveries], polls, calls_per_run, exits)).encode()),
        "evals": len(ev.calls),
        "events": sum(len(d) for d in deliveries),
        "stratum": scn.get("stratum"),
        "summary": {"exception": exc, "deliveries": [len(d) for d in deliveries], "polls": polls, "exits": exits},
    }


def execute(scn: dict) -> dict:
    if scn.get("entry") == "basic_twice":
        return _execute_basic_twice(scn)
    if scn.get("entry") == "nested_plan_under_two_plans":
        return execute_two_outer(scn)
    viol: list[dict] = []
    probes: dict[str, int] = {}

    def probe(name, n=1):
        probes[name] = probes.get(name, 0) + n

    base_scn = copy.deepcopy(scn)
    base = _run(base_scn)
    member = scn.get("member", 0)
    abort = scn.get("abort")
    pts = _abort_points(base)
    if scn["shape"] == "child":
        probe("child_plan")
    if scn["shape"] == "nested":
        probe("nested_plan")
    if scn["shape"] == "multi":
        probe("multi_step_plan")
    if any(e[0] == "ret" and e[2] == 1 for e in base.exits):
        probe("too_few_in_run")
    if any(e[0] == "ret" and e[2] == 2 for e in base.exits):
        probe("max_functions_in_run")
    if abort is None and member > 0 and pts:
        a = len(pts)
        j = min(a - 1, ((member - 1) * a) // (GROUP - 1)) if a > GROUP - 1 else (member - 1)
        if j < a:
            abort = pts[j]
    ctx = base
    checked = 0
    if abort is None:
        probe("baseline_runs")
        checked = check_run(base, scn, None, viol, probes)
    else:
        fs = copy.deepcopy(scn)
        if abort["kind"] == "event":
            fs["event_faults"] = [{"event": abort["event"], "receiver": abort["receiver"], "kind": "abort"}]
        else:
            fs.setdefault("faults", []).append({"kind": "abort", "eval": abort["call"]})
        ctx = _run(fs)
        if abort["kind"] == "event":
            probe("abort_at_event")
            t = EventType(abort["type"])
            if t in (EventType.START_OPTIMIZER_STEP,):
                probe("abort_at_step_start_event")
            if t in (EventType.FINISHED_OPTIMIZER_STEP,):
                probe("abort_at_step_finished_event")
            probe("abort_by_observer" if abort["receiver"] == "obs" else "abort_by_handler")
            if abort["event"] < len(ctx.events):
                rec = ctx.events[abort["event"]]
                lv = ctx.step_meta[rec.source]["level"] if rec.source >= 0 else 0
                if lv > 0:
                    probe("abort_in_inner_plan")
                    if abort["receiver"].startswith("h0"):
                        probe("abort_by_outer_handler_on_inner_event")
        else:
            probe("abort_in_evaluator")
        checked = check_run(ctx, scn, abort, viol, probes)
    key = (scn["shape"], str([s["kind"] for s in scn["plan"]["steps"]]),
           str([(e["op"], len(e["pts"])) for e in scn["configs"][0]["optimizer"]["options"]["script"]]),
           None if abort is None else (abort["kind"], abort.get("type"), abort.get("receiver")),
           None if abort is None else (abort.get("event"), abort.get("call")))
    return {
        "violations": _dedupe(viol),
        "nontrivial": checked >= 4,
        "key": f"{H(str(key)):016x}",
        "probes": probes,
        "fired": {**ctx.evaluator.fired, **ctx.fired},
        "digest": harness.trace_digest(ctx),
        "evals": len(ctx.evaluator.calls),
        "events": len(ctx.events),
        "stratum": scn.get("stratum"),
        "summary": {"exits": oracles.exits_summary(ctx), "abort": abort, "events": len(ctx.events)},
    }


def _run(scn: dict):
    ctx = harness.run_scenario(scn)
    return ctx


def _dedupe(viol):
    seen, out = set(), []
    for v in viol:
        k = (v["clause"], repr(sorted(v["sig"].items())))
        if k not in seen:
            seen.add(k)
            out.append(v)
    return out


def reductions(scn: dict):
    from sim.reduce import generic_reductions

    # pin the abort point so the shrinker does not move it around
    return []
