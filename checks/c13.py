"""C13  Constraint differences and violations are reported exactly for all bound kinds.

Monitor attached to simulated runs: the scripted back-end proposes points inside and outside
the bounds / linear constraints, the evaluator supplies constraint values (or fails, so that
none exist), and a tracker consumes the result.  Every FunctionResults (user and optimizer
domain) is compared with value-lower / value-upper and max(lower-value, value-upper, 0)
computed from the raw configuration."""
from __future__ import annotations

import random

import numpy as np

from ropt.enums import EventType
from ropt.results import FunctionResults

from sim import gen, harness, model, oracles

PROP = "C13"
LEVEL = "exploration"
COUNT = {"quick": 6000, "thorough": None}
BUDGET = {"quick": 45, "thorough": 600}
CHUNK = 4000
RULE = (
    "30% of the non-nested scenarios build every configuration part as an object of the user's own and use it for two steps. "
    "scripted optimizer/evaluator-step runs whose request points are drawn in [-4,4]^n (user domain), i.e. inside and "
    "outside the variable bounds and linear constraints; bound vectors mix finite and infinite entries on either side "
    "(styles none/finite/mixed/lower/upper per variable); 0-2 linear and 0-2 non-linear constraints of kinds <=,>=,=,"
    "two-sided; transforms in 35% of runs; NaN failures; a 'last' tracker with tolerance from {None,0,1e-10,1e-3,0.5}. "
    "Non-trivial = at least one result had its differences compared; distinct = coarse scenario key + bound-kind pattern."
)
ASSUMPTIONS = [
    "optimizer-domain linear differences are only checked for internal consistency (violation formula), the user-domain ones against A.x",
    "monitor fit (DESIGN.md): the verdict depends on configuration and point only; the simulator contributes the parties and the observation point",
]
COMPONENTS = {
    "real": ["ConstraintInfo.create / transform_from_optimizer", "EnsembleEvaluator", "tracker handler", "VariableScaler"],
    "stub": ["SimEvaluator", "sim/scripted optimizer", "objective/constraint scalers"],
}
PROBES = ["zero_linear_row", "nested_shared_scaler_linear_checked", "results_checked", "point_outside_finite_bound", "mixed_infinite_bounds", "linear_checked", "nonlinear_checked",
          "functions_none_result", "tracker_rejected_infeasible", "tracker_accepted", "transformed_checked"]


def generate(seed: int, index: int, tier: str) -> dict:
    rng = random.Random(seed)
    scn = gen.base_scenario(rng, PROP, nv_max=4, nr_max=3, npert_max=2, filters=False, stddev=False,
                            bounds_style=rng.choice(["mixed", "mixed", "finite", "lower", "upper", "none"]),
                            linear=(rng.random() < 0.5), script_len=rng.randint(1, 4), ops=("f", "f", "fg"),
                            zero_real_weights=False, rms=None, inject_p=1.0)
    cfg = scn["configs"][0]
    nv = len(scn["world"]["var_ids"])
    tm = oracles.TransformModel(scn.get("transforms"), nv, len(scn["world"]["obj_ids"]), len(scn["world"]["con_ids"]))
    pts = []
    for _ in range(3):
        xu = np.array([round(rng.uniform(-4, 4), 3) for _ in range(nv)])
        pts.append([float(v) for v in tm.x_to_opt(xu)])
    cfg["optimizer"]["options"]["points"] = pts
    cfg["gradient"]["boundary_types"] = 1
    for e in cfg["optimizer"]["options"]["script"]:
        e["pts"] = [rng.randrange(0, 3) for _ in e["pts"]]
    st = scn["plan"]["steps"][0]
    if st["kind"] == "evaluator":
        st["variables"] = [pts[rng.randrange(3)] for _ in range(rng.randint(1, 3))]
    if rng.random() < 0.3:
        gen.add_nan_faults(rng, scn, rate=1.0, max_faults=2)
    scn["plan"]["trackers"] = [{"what": "last", "tol": rng.choice([None, 0.0, 1e-10, 1e-3, 0.5]), "sources": [0]}]
    scn["stratum"] = "monitor"
    if cfg.get("linear_constraints") and rng.random() < 0.2:
        # a row of zeros (a constraint that does not depend on the variables): its value 0 lies inside or outside its bounds
        lc = cfg["linear_constraints"]
        k = rng.randrange(len(lc["coefficients"]))
        lc["coefficients"][k] = [0.0] * nv
        if rng.random() < 0.6:
            lc["lower_bounds"][k], lc["upper_bounds"][k] = 0.5, 3.0
        scn["zero_linear_row"] = True
    tr = scn.get("transforms") or {}
    if nv >= 2 and st["kind"] == "optimizer" and (tr.get("var") or {}).get("scales") and rng.random() < 0.5:
        # a nested plan on the same variables (so: the same variable transform object) whose inner configuration has its
        # own linear constraints, with rows of another magnitude
        import copy as _copy

        if "linear_constraints" not in cfg:
            cfg["linear_constraints"] = {"coefficients": [[round(rng.uniform(-2, 2), 3) or 1.0 for _ in range(nv)]],
                                         "lower_bounds": [-gen.INF], "upper_bounds": [round(rng.uniform(-1, 3), 3)]}
        inner = _copy.deepcopy(cfg)
        mask = [i == 0 for i in range(nv)]
        cfg["variables"]["mask"] = mask
        inner["variables"]["mask"] = [not m for m in mask]
        factor = rng.choice([10.0, 0.1, 25.0])
        lc = inner["linear_constraints"]
        lc["coefficients"] = [[c_ * factor for c_ in row] for row in lc["coefficients"]]
        lc["lower_bounds"] = [b * factor for b in lc["lower_bounds"]]
        lc["upper_bounds"] = [b * factor for b in lc["upper_bounds"]]
        inner["optimizer"]["options"]["script"] = [{"op": "f", "pts": [rng.randrange(3)]}]
        scn["configs"].append(inner)
        for e in cfg["optimizer"]["options"]["script"]:
            e.pop("batch", None)
            e["pts"] = e["pts"][:1]
        scn["plan"]["steps"] = [{"kind": "optimizer", "cfg": 0,
                                 "nested": {"steps": [{"kind": "optimizer", "cfg": 1}], "recorders": ["a"],
                                            "trackers": [{"what": "last", "tol": None, "sources": [0]}]}}]
        scn["nested_shared_scaler"] = True
        scn["stratum"] = "nested"
    elif rng.random() < 0.3:
        # every part of the configuration is an object the user built once and uses for the configuration of two
        # steps: the second step works with the same (user-domain) bounds and rows as the first
        import copy as _copy

        scn["plan"]["steps"].append(_copy.deepcopy(st))
        scn["plan"]["trackers"][0]["sources"] = [0, 1]
        scn["subconfig_objects"] = True
        scn["stratum"] = "settings-objects-used-twice"
    return scn


def _raw_bounds(cfg, nv):
    v = cfg["variables"]
    lb = np.broadcast_to(np.atleast_1d(np.asarray(v.get("lower_bounds", -np.inf), float)), (nv,))
    ub = np.broadcast_to(np.atleast_1d(np.asarray(v.get("upper_bounds", np.inf), float)), (nv,))
    return lb, ub


def _check(name, lower, upper, viol_rep, value, lb, ub, where, out, sig):
    """lower/upper/violation reported vs reference from value and bounds."""
    if lower is None or upper is None or viol_rep is None:
        out.append({"clause": f"{name}-info-missing", "sig": sig,
                    "detail": f"{where}: no {name} constraint information (value {np.asarray(value).tolist()}, lower {np.asarray(lb).tolist()}, upper {np.asarray(ub).tolist()})"})
        return
    rl, ru = value - lb, value - ub
    rv = model.violation(value, lb, ub)
    ok = (np.allclose(lower, rl, rtol=1e-9, atol=1e-9, equal_nan=True)
          and np.allclose(upper, ru, rtol=1e-9, atol=1e-9, equal_nan=True))
    if not ok:
        out.append({"clause": f"{name}-differences", "sig": sig,
                    "detail": f"{where}: reported lower {np.asarray(lower).tolist()} upper {np.asarray(upper).tolist()}, reference {rl.tolist()} {ru.tolist()}"})
        return
    if not np.allclose(viol_rep, rv, rtol=1e-9, atol=1e-9, equal_nan=True):
        out.append({"clause": f"{name}-violation", "sig": sig,
                    "detail": f"{where}: reported violation {np.asarray(viol_rep).tolist()}, reference {rv.tolist()}"})


def execute(scn: dict) -> dict:
    ctx = harness.run_scenario(scn)
    viol: list[dict] = []
    probes: dict[str, int] = {}

    def probe(name, n=1):
        probes[name] = probes.get(name, 0) + n

    compared = 0
    history = []  # (event number, feasible by model, result object)
    tol = scn["plan"]["trackers"][0]["tol"] if scn["plan"].get("trackers") else None
    for ln in oracles.linked_results(ctx):
        if not ln.is_function:
            continue
        cfg = ln.cfg
        c = model.cfg_counts(cfg)
        nv = c["nv"]
        tm = oracles.tm_for(ctx, cfg)
        lb, ub = _raw_bounds(cfg, nv)
        have_bounds = bool(np.any(np.isfinite(lb)) or np.any(np.isfinite(ub)))
        mixed = bool(np.any(~np.isfinite(lb)) and np.any(~np.isfinite(ub)) and have_bounds)
        if mixed:
            probe("mixed_infinite_bounds")
        lin = cfg.get("linear_constraints")
        nl = cfg.get("nonlinear_constraints")
        user: FunctionResults = ln.user
        xu = np.asarray(user.evaluations.variables, float)
        ci = user.constraint_info
        where = f"eval {ln.call.k if ln.call else '?'} x={xu.tolist()}"
        sig = {"mixed_infinite_bounds": mixed}
        feasible = True
        compared += 1
        probe("results_checked")
        if user.functions is None:
            probe("functions_none_result")
        if have_bounds:
            if np.any(model.violation(xu, lb, ub) > 0):
                probe("point_outside_finite_bound")
            if ci is None:
                viol.append({"clause": "bound-info-missing", "sig": sig,
                             "detail": f"{where}: constraint_info is None although finite bounds exist (lower {lb.tolist()}, upper {ub.tolist()})"})
            else:
                _check("bound", ci.bound_lower, ci.bound_upper, ci.bound_violation, xu, lb, ub, where, viol, sig)
            if tol is not None and np.any(model.violation(xu, lb, ub) > tol):
                feasible = False
        if lin is not None:
            A = np.asarray(lin["coefficients"], float)
            llb = np.broadcast_to(np.atleast_1d(np.asarray(lin["lower_bounds"], float)), (A.shape[0],))
            lub = np.broadcast_to(np.atleast_1d(np.asarray(lin["upper_bounds"], float)), (A.shape[0],))
            val = A @ xu
            probe("linear_checked")
            if scn.get("zero_linear_row"):
                probe("zero_linear_row")
            if ci is None:
                viol.append({"clause": "linear-info-missing", "sig": {}, "detail": f"{where}: constraint_info is None"})
            else:
                _check("linear", ci.linear_lower, ci.linear_upper, ci.linear_violation, val, llb, lub, where, viol,
                       {"nested_shared_scaler": True, "level": ctx.step_meta[ln.step]["level"]} if scn.get("nested_shared_scaler") else {})
                if scn.get("nested_shared_scaler"):
                    probe("nested_shared_scaler_linear_checked")
            if tol is not None and np.any(model.violation(val, llb, lub) > tol * 1.0):
                feasible = False
        if nl is not None and user.functions is not None and user.functions.constraints is not None:
            nlb = np.broadcast_to(np.atleast_1d(np.asarray(nl["lower_bounds"], float)), (c["nc"],))
            nub = np.broadcast_to(np.atleast_1d(np.asarray(nl["upper_bounds"], float)), (c["nc"],))
            val = np.asarray(user.functions.constraints, float)
            probe("nonlinear_checked")
            if ci is None:
                viol.append({"clause": "nonlinear-info-missing", "sig": {}, "detail": f"{where}: constraint_info is None"})
            else:
                _check("nonlinear", ci.nonlinear_lower, ci.nonlinear_upper, ci.nonlinear_violation, val, nlb, nub, where, viol, {})
            if tol is not None and np.any(model.violation(val, nlb, nub) > tol):
                feasible = False
        # optimizer-domain result: variables and non-linear constraints against transformed bounds
        if ln.rec.transformed is not None:
            opt: FunctionResults = ln.opt
            oci = opt.constraint_info
            xo = np.asarray(opt.evaluations.variables, float)
            probe("transformed_checked")
            if have_bounds and oci is not None and oci.bound_lower is not None:
                _check("opt-bound", oci.bound_lower, oci.bound_upper, oci.bound_violation, xo, tm.x_to_opt(lb), tm.x_to_opt(ub),
                       where + " (optimizer domain)", viol, sig)
            if nl is not None and opt.functions is not None and opt.functions.constraints is not None and oci is not None:
                nlb = tm.con_to_opt(np.broadcast_to(np.atleast_1d(np.asarray(nl["lower_bounds"], float)), (c["nc"],)))
                nub = tm.con_to_opt(np.broadcast_to(np.atleast_1d(np.asarray(nl["upper_bounds"], float)), (c["nc"],)))
                _check("opt-nonlinear", oci.nonlinear_lower, oci.nonlinear_upper, oci.nonlinear_violation,
                       np.asarray(opt.functions.constraints, float), nlb, nub, where + " (optimizer domain)", viol, {})
        history.append((ln.rec.n, feasible, user, ln.opt))

    # feasibility as consumed by the tracker: after every FINISHED_EVALUATION event the 'last'
    # tracker holds the most recent function result that is feasible (optimizer-domain violations
    # are what it inspects; for pure scalings feasibility under a tolerance can differ between the
    # domains, so margins within a factor 8 of the tolerance are don't-care).
    if ctx.trackers and not viol and not scn.get("transforms"):
        tr = ctx.trackers[0]
        held = tr["plan"].get(tr["id"], "results")
        cands = [h for h in history if h[2].functions is not None]
        want = None
        for h in cands:
            if h[1]:
                want = h[2]
        if cands:
            if want is None and held is not None:
                viol.append({"clause": "tracker-accepted-infeasible", "sig": {},
                             "detail": f"tracker (tol {tol}) holds a result at x={np.asarray(held.evaluations.variables).tolist()} although every result violates a constraint by more than the tolerance"})
            elif want is not None and held is not want:
                viol.append({"clause": "tracker-last-feasible", "sig": {},
                             "detail": f"tracker (tol {tol}) does not hold the most recent feasible result"})
            if want is None:
                probe("tracker_rejected_infeasible")
            else:
                probe("tracker_accepted")

    bk = str([(np.isfinite(a), np.isfinite(b)) for a, b in zip(*_raw_bounds(scn["configs"][0], model.cfg_counts(scn["configs"][0])["nv"]))])
    return {
        "violations": _dedupe(viol),
        "nontrivial": compared > 0,
        "key": oracles.scenario_key(scn, bk),
        "probes": probes,
        "fired": dict(ctx.evaluator.fired),
        "digest": harness.trace_digest(ctx),
        "evals": len(ctx.evaluator.calls),
        "events": len(ctx.events),
        "stratum": scn.get("stratum"),
        "summary": {"exits": oracles.exits_summary(ctx), "compared": compared},
    }


def _dedupe(viol):
    seen, out = set(), []
    for v in viol:
        k = (v["clause"], repr(sorted(v["sig"].items())))
        if k not in seen:
            seen.add(k)
            out.append(v)
    return out


def reductions(scn: dict):
    from sim.reduce import generic_reductions

    yield from generic_reductions(scn)
