"""C14  Every run ends with the documented exit code under any failure pattern.

Fault enumeration over failure points: runs come in groups sharing a scenario (scripted
back-end, or real SLSQP / L-BFGS-B / COBYLA / Nelder-Mead / differential_evolution incl.
parallel); member 0 is the fault-free baseline of length L evaluations, member j injects a
fault (NaN failures on a seeded (realization, perturbation) set, evaluator exception,
evaluator abort, or a max_functions budget) at evaluation index (j-1)*(L+1)/(G-1).
Filters of all four kinds, stddev estimators, thresholds incl. 0, transforms of every
kind, optimizer and evaluator steps, nested plans."""
from __future__ import annotations

import copy
import os
import random

import numpy as np

from ropt.enums import EventType, OptimizerExitCode
from ropt.results import FunctionResults, GradientResults

from sim import gen, harness, model, oracles
from sim.seeds import H, run_seed

PROP = "C14"
LEVEL = "fault_enumeration"
COUNT = {"quick": 6000, "thorough": None}
BUDGET = {"quick": 50, "thorough": 600}
CHUNK = 3000
GROUP = 10
RULE = (
    'Groups with number%25==12: a nested plan object handed to the steps of two top-level plans in turn, every evaluation failing in the second run (delivery clauses only). '
    "groups of 10 runs share a scenario; member 0 = fault-free baseline (L evaluator calls), member j injects its fault at "
    "evaluation (j-1)*(L+1)/9 (a sweep over the run; groups with L<=8 cover every index). Fault kind per member cycles "
    "NaN set / evaluator raises / evaluator aborts / max_functions in 1..L+1. Back-end: scripted (60%), real SLSQP, L-BFGS-B, "
    "COBYLA, Nelder-Mead, differential_evolution (parallel on/off). Knobs: filters of all four kinds, stddev, thresholds "
    "incl. realization_min_success=0, transforms (variables/objectives/constraints), NaN-tolerant back-ends, evaluator step, "
    "nested plan. Non-trivial = the exit-code oracle ran on a run in which at least one fault fired or a budget/threshold "
    "stopped the run; distinct = (back-end, knob vector, fault kind, fault index, expected outcome)."
)
ASSUMPTIONS = [
    "when every positive-weight realization fails but the success count still meets the threshold (zero-weight survivors) only 'returns normally with a documented code' is asserted",
    "rank ties inside a filter make the model's deficiency verdict ambiguous: such runs only assert 'returns normally'",
    "real SciPy algorithms are deterministic: the faulted run follows the baseline until the fault",
    "max_functions budgets the function values handed to the algorithm (recorded at the optimizer callback); with the SciPy plug-in every delivered function result is such an evaluation (asserted); a scripted algorithm that asks for a gradient alone at a new point makes the ensemble layer run the unperturbed rows without a budgeted request",
]
COMPONENTS = {
    "real": ["EnsembleOptimizer (stopping criteria, exit codes)", "optimizer / evaluator steps", "EnsembleEvaluator", "filters", "estimators", "ConstraintInfo", "SciPy plug-in + real scipy.optimize (40% of groups)"],
    "stub": ["SimEvaluator with fault plan", "sim/scripted optimizer (60% of groups)", "objective/constraint scalers"],
}
PROBES = ["nested_plan_under_two_plans", "abort_raised_at_event", "abort_raised_at_event_of_evaluator_step", "delivered_function_results_vs_budget", "estimator_deficiency_in_gradient_only_evaluation", "every_completed_evaluation_delivered", "all_failed_tolerated_run_continues", "too_few_expected", "too_few_by_filter", "too_few_by_estimator", "too_few_by_threshold", "max_functions_expected",
          "user_abort_expected", "evaluator_exception_expected", "finished_expected", "real_scipy_backend", "parallel_de",
          "evaluator_step", "nested", "dontcare_zero_weight_survivors", "failing_results_delivered", "rms_zero_all_failed"]
REAL = ["slsqp", "l-bfgs-b", "cobyla", "nelder-mead", "differential_evolution", "newton-cg"]
DOCUMENTED = {int(c) for c in OptimizerExitCode}


def _group_scenario(gseed: int) -> dict:
    rng = random.Random(gseed)
    backend = "scripted" if rng.random() < 0.6 else rng.choice(REAL)
    step = "optimizer"
    if backend == "scripted" and rng.random() < 0.25:
        step = "evaluator"
    nested = backend == "scripted" and step == "optimizer" and rng.random() < 0.15
    nc_max = 2 if backend in ("scripted", "slsqp", "cobyla", "differential_evolution") else 0
    scn = gen.base_scenario(
        rng, PROP, nv=(rng.randint(2, 3) if nested else None), nv_max=3, nr_max=4, no_max=2, nc_max=nc_max, npert_max=3,
        world_kind="quadratic", linear=False, mask=(False if nested else None), step=step,
        bounds_style=("finite" if backend == "differential_evolution" else ("none" if backend not in ("scripted", "slsqp", "l-bfgs-b", "nelder-mead") else None)),
        script_len=rng.randint(1, 6), inject_p=(0.8 if backend == "scripted" else 0.0), merge=False,
    )
    cfg = scn["configs"][0]
    if backend != "scripted":
        opt = {"method": f"simwrap/{backend}", "tolerance": 1e-3}  # the real plug-in behind a recording callback
        scn["simwrap"] = True
        if backend == "differential_evolution":
            opt["options"] = {"maxiter": rng.randint(1, 2), "popsize": rng.randint(2, 3), "seed": rng.randint(1, 999), "tol": 0.5}
            if rng.random() < 0.5:
                opt["parallel"] = True
        else:
            opt["options"] = {"maxiter": rng.randint(1, 4)}
            if backend == "newton-cg":
                opt["options"]["eps"] = 0.05  # Hessian-vector differences at points well away from the iterate
        if rng.random() < 0.3:
            opt["speculative"] = True
        if rng.random() < 0.3:
            opt["split_evaluations"] = True
        cfg["optimizer"] = opt
        if backend == "cobyla" and cfg.get("nonlinear_constraints"):
            # cobyla: inequality constraints only
            nl = cfg["nonlinear_constraints"]
            for j in range(len(nl["lower_bounds"])):
                if nl["lower_bounds"][j] == nl["upper_bounds"][j]:
                    nl["upper_bounds"][j] = gen.INF
    if nested:
        inner = copy.deepcopy(cfg)
        nv = len(scn["world"]["var_ids"])
        mask = [i == 0 for i in range(nv)]
        cfg["variables"]["mask"] = mask
        inner["variables"]["mask"] = [not m for m in mask]
        inner["optimizer"]["options"]["script"] = gen.gen_script(rng, len(inner["optimizer"]["options"]["points"]), rng.randint(1, 2), ops=("f", "fg"))
        scn["configs"].append(inner)
        for e in cfg["optimizer"]["options"]["script"]:
            e.pop("batch", None)
            e["pts"] = e["pts"][:1]
        scn["plan"]["steps"] = [{"kind": "optimizer", "cfg": 0,
                                 "nested": {"steps": [{"kind": "optimizer", "cfg": 1}], "recorders": ["a"],
                                            "trackers": [{"what": "best", "tol": None, "sources": [0]}]}}]
    # stratum: threshold 0 with a NaN-tolerant back-end - an evaluation in which every realization fails is
    # then *not* a deficiency and the run must go on
    scn["nan_tolerant_stratum"] = False
    if not nested and step == "optimizer" and rng.random() < 0.2:
        if backend == "scripted":
            cfg["optimizer"]["options"]["allow_nan"] = True
        if backend in ("scripted", "differential_evolution"):
            cfg["realizations"]["realization_min_success"] = 0
            scn["nan_tolerant_stratum"] = True
            has_sd = any(e["method"].endswith("stddev") for e in cfg.get("function_estimators", []))
            if backend == "scripted" and not has_sd and rng.random() < 0.4:
                # merged estimation has to cope with an evaluation that leaves no perturbation at all
                cfg["gradient"]["merge_realizations"] = True
                if not any(e["op"] in ("g", "fg") for e in cfg["optimizer"]["options"]["script"]):
                    cfg["optimizer"]["options"]["script"].append({"op": "fg", "pts": [-1]})
    # stratum: the deficiency arises only inside a gradient evaluation that follows its function evaluation (perturbation
    # failures leave a single realization to a stddev estimator while the thresholds are still met)
    scn["gradient_estimator_stratum"] = False
    if backend == "scripted" and step == "optimizer" and not nested and not scn["nan_tolerant_stratum"] and rng.random() < 0.12:
        nr = len(scn["world"]["real_ids"])
        if nr >= 2:
            cfg["realizations"]["weights"] = [round(rng.uniform(0.5, 2.0), 3) for _ in range(nr)]
            cfg["realizations"]["realization_min_success"] = 1
            cfg["gradient"]["perturbation_min_success"] = cfg["gradient"]["number_of_perturbations"]
            cfg["gradient"].pop("merge_realizations", None)
            cfg.pop("realization_filters", None)
            cfg["objectives"].pop("realization_filters", None)
            if cfg.get("nonlinear_constraints"):
                cfg["nonlinear_constraints"].pop("realization_filters", None)
            no = len(scn["world"]["obj_ids"])
            cfg["function_estimators"] = [{"method": "mean"}, {"method": "stddev"}]
            cfg["objectives"]["function_estimators"] = [1] + [rng.randrange(2) for _ in range(no - 1)]
            if cfg.get("nonlinear_constraints"):
                cfg["nonlinear_constraints"]["function_estimators"] = [rng.randrange(2) for _ in scn["world"]["con_ids"]]
            p0 = rng.randrange(max(len(cfg["optimizer"]["options"]["points"]), 1))
            cfg["optimizer"]["options"]["script"] = [{"op": "f", "pts": [p0]}, {"op": "g", "pts": [p0]}, {"op": "f", "pts": [-1]}]
            cfg["optimizer"].pop("max_functions", None)
            scn["gradient_estimator_stratum"] = True
    scn["backend"] = backend
    scn["nested"] = nested
    scn["fault_rng"] = rng.getrandbits(32)
    return scn


def generate(seed: int, index: int, tier: str) -> dict:
    batch = int(os.environ.get("VERIF_SEED", "0"))
    if (index // GROUP) % 25 == 12:
        # a nested plan the user keeps, handed to the steps of two top-level plans in turn; in the run of the second
        # plan every evaluation fails: the inner run ends with TOO_FEW_REALIZATIONS, the outer step with
        # NESTED_OPTIMIZER_FAILED, and the results of the failing evaluation reach the handlers of the plans that run
        from checks.c15 import two_outer_scenario

        scn = two_outer_scenario(random.Random(run_seed(batch, PROP + "-two-outer", index)), PROP)
        scn["second"] = "all-fail"
        return scn
    scn = _group_scenario(run_seed(batch, PROP + "-group", index // GROUP))
    scn["member"] = index % GROUP
    scn["stratum"] = scn["backend"] + ("/" + scn["plan"]["steps"][0]["kind"] if scn["backend"] == "scripted" else "")
    return scn


# ---------------------------------------------------------------------------
_ref_filter_weights = oracles.ref_filter_weights


def _deficiency(ctx, ln, allow_nan, optimizer_step=True):
    """Model verdict for one delivered result: (deficient, reason, dontcare)."""
    cfg = ln.cfg
    c = model.cfg_counts(cfg)
    rms = model.realization_min_success(cfg)
    tm = oracles.tm_for(ctx, cfg)
    cw = model.realization_weights(cfg)
    filters = cfg.get("realization_filters") or []
    if ln.is_function:
        fcall, frows = ln.call, ln.rows
    else:
        fcall, frows = oracles.unperturbed_source(ctx, ln)
        if fcall is None:
            return False, None, True
    f_failed = np.any(np.isnan(fcall.obj[frows]), axis=1)
    if fcall.con is not None:
        f_failed |= np.any(np.isnan(fcall.con[frows]), axis=1)
    failed = f_failed.copy()
    if not ln.is_function:
        nr, npert = c["nr"], c["np"]
        pf = np.any(np.isnan(ln.call.obj[ln.rows]), axis=1)
        if ln.call.con is not None:
            pf |= np.any(np.isnan(ln.call.con[ln.rows]), axis=1)
        succ = (~pf.reshape(nr, npert)).sum(axis=1)
        failed = failed | (succ < model.perturbation_min_success(cfg))
    nsucc = int((~failed).sum())
    if nsucc < rms:
        return True, "threshold", False
    if optimizer_step and rms < 1 and not allow_nan and failed.all():
        # an algorithm that cannot digest NaN: all-failed is too few even with a threshold of zero
        return True, "threshold-zero-all-failed", False
    yo = tm.obj_to_opt(fcall.obj[frows])
    yc = None if fcall.con is None else tm.con_to_opt(fcall.con[frows])
    dontcare = False
    fweights = {}
    for fi, flt in enumerate(filters):
        mapped = any(model.filter_of(cfg, k, j) == fi for k, n in (("o", c["no"]), ("c", c["nc"])) for j in range(n))
        if not mapped:
            continue
        w, ties = _ref_filter_weights(cfg, flt, yo, yc, f_failed, cw, tm)
        if ties:
            dontcare = True
        if w is None or not np.any(w > 0):
            if ln.is_function or ln.call.kind == "fg":
                return True, "filter", dontcare
            return False, None, True
        fweights[fi] = w
    if ln.is_function and f_failed.all():
        # nothing survived and the threshold (zero) tolerates that: every function is reported as NaN,
        # no estimator runs, and that is not a deficiency
        return False, None, dontcare
    for kind, n in (("o", c["no"]), ("c", c["nc"])):
        for j in range(n):
            fi = model.filter_of(cfg, kind, j)
            w = cw if fi < 0 else fweights.get(fi)
            if w is None:
                continue
            w = np.where(failed, 0.0, w)
            if w.sum() <= 0:
                dontcare = True  # zero-weight survivors: the statement fixes no code
                continue
            if model.estimator_of(cfg, kind, j) == "stddev" and np.count_nonzero(w) < 2:
                return True, "estimator", dontcare
    return False, None, dontcare


def _counted(callback_log):
    """Budgeted function evaluations of a real back-end: the vectors whose function values were handed to the
    algorithm (completed requests with return_functions).  Returns (total, [count before each request])."""
    total, before = 0, []
    for r in callback_log:
        before.append(total)
        if r["rf"] and "functions" in r:
            total += int(np.asarray(r["x"]).shape[0]) if np.ndim(r["x"]) > 1 else 1
    return total, before


def check_run(ctx, scn, fault, viol, probes, baseline=None) -> tuple[int, str]:
    def probe(name, n=1):
        probes[name] = probes.get(name, 0) + n

    cfg0 = scn["configs"][0]
    backend = scn["backend"]
    step_kind = scn["plan"]["steps"][0]["kind"]
    opts = cfg0["optimizer"].get("options") or {}
    allow_nan = backend == "differential_evolution" or (backend == "scripted" and bool(opts.get("allow_nan")))
    top = [e for e in ctx.exits if ctx.step_meta[e[1]]["level"] == 0]
    ex = top[0] if top else None
    # walk the delivered results in order
    first_def = None
    dontcare = False
    nfun = 0
    delivered_calls = set()
    for ln in oracles.linked_results(ctx):
        if ln.call is None or ln.rows is None:
            continue
        if ctx.step_meta[ln.step]["level"] != 0 and first_def is None:
            # inner (nested) evaluations: a deficiency there ends the inner step; the outer sees a failed/None result
            d, why, dc = _deficiency(ctx, ln, allow_nan)
            if d or dc:
                dontcare = True
            continue
        delivered_calls.add(ln.call.k)
        if ln.is_function and ln.opt.functions is not None:
            nfun += 1
        if first_def is None:
            d, why, dc = _deficiency(ctx, ln, allow_nan, step_kind == "optimizer")
            dontcare = dontcare or dc
            if d:
                first_def = (ln.call.k, why)
                if why == "threshold-zero-all-failed":
                    probe("rms_zero_all_failed")
                    first_def = (ln.call.k, "threshold")
    if backend == "scripted" and step_kind == "optimizer" and not scn.get("nested"):
        # count what the budget counts: completed requests that asked for functions (a gradient-only
        # request at an uncached point also yields a FunctionResults, which is not a budgeted evaluation)
        nfun = sum((len(b["x"]) if np.ndim(b["x"]) > 1 else 1) for b in ctx.backend_log
                   if b.get("ev") == "request" and b.get("rf") and b.get("done"))
    elif backend != "scripted" and getattr(ctx, "fake", None) is not None:
        nfun = _counted(ctx.fake.callback_log)[0]
    raised = next((c.k for c in ctx.evaluator.calls if c.raised == "raise"), None)
    aborted = next((c.k for c in ctx.evaluator.calls if c.raised == "abort"), None)
    # results of every evaluation that the evaluator completed reach the handlers (also the failing one)
    all_linked = {ln.call.k for ln in oracles.linked_results(ctx) if ln.call is not None}
    for c in ctx.evaluator.calls:
        if c.raised is None and c.k not in all_linked and not scn.get("nested"):
            viol.append({"clause": "evaluation-results-not-delivered", "sig": {"kind": c.kind, "step": step_kind},
                         "detail": f"backend {backend}, fault {fault}: the evaluator completed call {c.k} ({c.kind}) but no results of it were delivered "
                                   f"to the handlers (run ended with {ex})"})
            break
    else:
        probe("every_completed_evaluation_delivered")
    finished = int(OptimizerExitCode.EVALUATION_STEP_FINISHED if step_kind == "evaluator" else OptimizerExitCode.OPTIMIZER_STEP_FINISHED)
    mf = cfg0["optimizer"].get("max_functions") if step_kind == "optimizer" else None
    if scn.get("nested"):
        mf = None  # budgets of nested runs are not modelled (inner and outer requests share one log)
    # ---- the step returns normally -----------------------------------------------------------
    if fault is not None and fault.get("kind") == "event_abort" and ctx.fired.get("abort_at_event"):
        probe("abort_raised_at_event")
        if step_kind == "evaluator":
            probe("abort_raised_at_event_of_evaluator_step")
        allowed = {int(OptimizerExitCode.USER_ABORT)}
        if first_def is not None:
            allowed.add(int(OptimizerExitCode.TOO_FEW_REALIZATIONS))  # (an abort after the deficient evaluation: either reading)
        if ex is None or ex[0] != "ret" or ex[2] not in allowed:
            viol.append({"clause": "event-abort-not-reported-as-user-abort", "sig": {"step": step_kind, "how": ex[0] if ex else "none"},
                         "detail": f"backend {backend}: an {fault['receiver']} raised the user abort at event {fault['event']} of the {step_kind} step; "
                                   f"the step ended with {ex}"})
        return 1, "USER_ABORT"
    if raised is not None:
        probe("evaluator_exception_expected")
        if ex is None or ex[0] != "evaluator_error":
            viol.append({"clause": "evaluator-exception-swallowed", "sig": {"backend": backend, "step": step_kind},
                         "detail": f"the evaluator raised at call {raised} but the step ended with {ex}"})
        return 1, "evaluator_error"
    if ex is None or ex[0] != "ret":
        viol.append({"clause": "internal-exception", "sig": {"what": str(ex[2]).split(":")[0] if ex else "none", "step": step_kind},
                     "detail": f"backend {backend}, fault {fault}: step ended with {ex}"})
        return 1, "exception"
    code = ex[2]
    if code not in DOCUMENTED or code == 0:
        viol.append({"clause": "undocumented-exit-code", "sig": {}, "detail": f"exit code {code}"})
        return 1, "undocumented"
    # ---- budget -----------------------------------------------------------------------------
    if mf is not None:
        slack = 0
        if cfg0["optimizer"].get("parallel") or (backend == "scripted" and any(e.get("batch") for e in opts.get("script", []))):
            slack = max([len(e["pts"]) for e in opts.get("script", []) if e.get("batch")] + [64]) - 1
        if nfun > mf + slack:
            viol.append({"clause": "max-functions-exceeded", "sig": {}, "detail": f"{nfun} function evaluations with max_functions={mf}"})
        if backend != "scripted":
            # the SciPy plug-in asks for the function values whenever an evaluation has to compute them, so every
            # delivered function result is a budgeted evaluation (a scripted algorithm may ask for a gradient alone)
            nres = sum(1 for ln in oracles.linked_results(ctx)
                       if ctx.step_meta[ln.step]["level"] == 0 and ln.is_function and ln.opt.functions is not None)
            probe("delivered_function_results_vs_budget")
            if nres > mf + slack:
                viol.append({"clause": "max-functions-exceeded", "sig": {"counted": "delivered function results"},
                             "detail": f"backend {backend}: {nres} function evaluations were made and delivered with max_functions={mf}"})
    expected = None
    if scn.get("nested"):
        probe("nested")
    if dontcare:
        probe("dontcare_zero_weight_survivors")
        return 1, "dontcare"
    if aborted is not None and (first_def is None or first_def[0] >= aborted):
        probe("user_abort_expected")
        expected = int(OptimizerExitCode.USER_ABORT)
    elif first_def is not None:
        probe("too_few_expected")
        probe("too_few_by_" + first_def[1])
        if first_def[1] == "estimator" and any(c.k == first_def[0] and c.kind == "g" for c in ctx.evaluator.calls):
            probe("estimator_deficiency_in_gradient_only_evaluation")
        expected = int(OptimizerExitCode.TOO_FEW_REALIZATIONS)
        if first_def[0] in delivered_calls:
            probe("failing_results_delivered")
        if step_kind == "optimizer" and any(c.k > first_def[0] for c in ctx.evaluator.calls) and not scn.get("nested"):
            viol.append({"clause": "continued-after-too-few", "sig": {},
                         "detail": f"evaluation {first_def[0]} was deficient ({first_def[1]}) but the evaluator was called again"})
    if expected is not None:
        if code != expected:
            viol.append({"clause": "wrong-exit-code", "sig": {"expected": expected, "got": code, "step": step_kind},
                         "detail": f"backend {backend}, fault {fault}: expected {OptimizerExitCode(expected).name} "
                                   f"({'deficient evaluation ' + str(first_def) if first_def else 'abort at call ' + str(aborted)}), step returned {OptimizerExitCode(code).name}"})
        return 1, OptimizerExitCode(expected).name
    # no deficiency, no abort: finished or budget
    if code == int(OptimizerExitCode.TOO_FEW_REALIZATIONS):
        viol.append({"clause": "too-few-without-deficient-evaluation", "sig": {"step": step_kind},
                     "detail": f"backend {backend}, fault {fault}: TOO_FEW_REALIZATIONS although the model finds every evaluation sufficient"})
        return 1, "TOO_FEW?"
    if code == int(OptimizerExitCode.USER_ABORT):
        viol.append({"clause": "user-abort-without-abort", "sig": {}, "detail": f"backend {backend}, fault {fault}"})
        return 1, "USER_ABORT?"
    if code == int(OptimizerExitCode.NESTED_OPTIMIZER_FAILED):
        if not scn.get("nested"):
            viol.append({"clause": "nested-failed-without-nested-plan", "sig": {}, "detail": f"backend {backend}"})
        return 1, "NESTED"
    if mf is not None:
        want_more = None
        if backend == "scripted" and not scn.get("nested"):
            # exact: the script asks for anything (functions or gradients) after the budget is used up
            done = 0
            want_more = False
            for e in opts.get("script", []):
                if done >= mf:
                    want_more = True
                    break
                if e["op"] in ("f", "fg"):
                    done += len(e["pts"]) if e.get("batch") else 1
        elif baseline is not None:
            # exact for a deterministic algorithm: the baseline made a request when mf budgeted evaluations were done
            want_more = any(c >= mf for c in baseline["before"])
        if want_more is True:
            probe("max_functions_expected")
            if code != int(OptimizerExitCode.MAX_FUNCTIONS_REACHED):
                viol.append({"clause": "wrong-exit-code", "sig": {"expected": 2, "got": code, "step": step_kind},
                             "detail": f"backend {backend}: max_functions={mf} stopped the run (baseline needs {baseline['nfun'] if baseline else '?'} function evaluations) but the step returned {OptimizerExitCode(code).name}"})
            return 1, "MAX_FUNCTIONS"
        if want_more is False and code == int(OptimizerExitCode.MAX_FUNCTIONS_REACHED):
            viol.append({"clause": "max-functions-code-without-budget-stop", "sig": {},
                         "detail": f"backend {backend}: max_functions={mf}, {nfun} function evaluations, nothing more was requested"})
            return 1, "MAX?"
    elif code == int(OptimizerExitCode.MAX_FUNCTIONS_REACHED) and not scn.get("nested"):
        viol.append({"clause": "max-functions-code-without-budget-stop", "sig": {}, "detail": "no max_functions configured"})
    probe("finished_expected")
    if allow_nan and model.realization_min_success(cfg0) == 0 and any(
            c.obj is not None and np.all(np.isnan(c.obj)) for c in ctx.evaluator.calls):
        probe("all_failed_tolerated_run_continues")
    if code not in (finished, int(OptimizerExitCode.MAX_FUNCTIONS_REACHED)):
        viol.append({"clause": "wrong-exit-code", "sig": {"expected": finished, "got": code, "step": step_kind}, "detail": f"backend {backend}, fault {fault}"})
    return 1, "FINISHED"


def _execute_two_outer(scn: dict) -> dict:
    from checks.c15 import execute_two_outer

    out = execute_two_outer(scn)
    # (no exit code is asserted here: the nested plan's tracker may still hold a result of its runs under the first
    # plan, so whether the second outer step ends with NESTED_OPTIMIZER_FAILED or TOO_FEW_REALIZATIONS depends on the
    # user's own nested function; what this stratum decides is that the failing evaluations' events and results
    # reach the handlers of the plans that are running)
    out["probes"] = {"nested_plan_under_two_plans": 1}
    return out


def execute(scn: dict) -> dict:
    if scn.get("entry") == "nested_plan_under_two_plans":
        return _execute_two_outer(scn)
    viol: list[dict] = []
    probes: dict[str, int] = {}

    def probe(name, n=1):
        probes[name] = probes.get(name, 0) + n

    backend = scn["backend"]
    if backend != "scripted":
        probe("real_scipy_backend")
        if scn["configs"][0]["optimizer"].get("parallel"):
            probe("parallel_de")
    if scn["plan"]["steps"][0]["kind"] == "evaluator":
        probe("evaluator_step")
    base = harness.run_scenario(copy.deepcopy(scn))
    L = len(base.evaluator.calls)
    base_info = {"nfun": 0, "before": []}
    if backend != "scripted" and getattr(base, "fake", None) is not None:
        base_info["nfun"], base_info["before"] = _counted(base.fake.callback_log)
    else:
        base_info["nfun"] = sum(1 for ln in oracles.linked_results(base)
                                if base.step_meta[ln.step]["level"] == 0 and ln.is_function and ln.opt.functions is not None)
    member = scn.get("member", 0)
    fault = scn.get("fault")
    ctx = base
    if fault is None and member > 0:
        frng = random.Random(H(scn["fault_rng"], member))
        k = min(L, ((member - 1) * (L + 1)) // (GROUP - 1)) if L + 1 > GROUP - 1 else (member - 1) % (L + 1)
        kind = ["nan", "raise", "abort", "max_functions", "nan", "nan"][member % 6]
        if kind == "max_functions" and (scn["plan"]["steps"][0]["kind"] != "optimizer"):
            kind = "nan"
        cfg = scn["configs"][0]
        nr = len(scn["world"]["real_ids"])
        npert = cfg["gradient"]["number_of_perturbations"]
        if kind == "nan" and scn.get("gradient_estimator_stratum"):
            # all realizations but one lose a perturbed evaluation of evaluation k (k = 1 is the gradient-only evaluation)
            keep = frng.randrange(nr)
            fault = {"kind": "nan", "at": k, "faults": [{"kind": "nan", "eval": k, "real": r, "pert": frng.randrange(npert), "col": None}
                                                         for r in range(nr) if r != keep]}
        elif kind == "nan" and scn.get("nan_tolerant_stratum"):
            # every realization (and perturbation) of one evaluation fails
            fault = {"kind": "nan", "faults": [{"kind": "nan", "eval": k, "real": None, "pert": None, "col": None}], "at": k}
        elif kind == "nan":
            fl = []
            for _ in range(frng.randint(1, 3)):
                f = {"kind": "nan", "eval": (k if frng.random() < 0.7 else None), "real": (frng.randrange(nr) if frng.random() < 0.8 else None),
                     "pert": frng.choice([None, -1] + list(range(npert))), "col": None}
                fl.append(f)
            fault = {"kind": "nan", "faults": fl, "at": k}
        elif kind == "abort" and frng.random() < 0.5 and len(base.events) > 0:
            # the abort is requested the documented way from an event: an observer or a handler raises it at the
            # e-th event of the run (for both kinds of step)
            e = (member * 7 + k) % len(base.events)
            fault = {"kind": "event_abort", "event": e, "receiver": frng.choice(["obs", "h0a"]), "at": e}
        elif kind in ("raise", "abort"):
            fault = {"kind": kind, "faults": [{"kind": kind, "eval": min(k, max(L - 1, 0))}], "at": k}
        else:
            fault = {"kind": "max_functions", "value": 1 + (k % (base_info["nfun"] + 1))}
    checked = 0
    outcome = "baseline"
    if fault is None:
        checked, outcome = check_run(base, scn, None, viol, probes, None)
    else:
        fs = copy.deepcopy(scn)
        if fault["kind"] == "max_functions":
            fs["configs"][0]["optimizer"]["max_functions"] = fault["value"]
        elif fault["kind"] == "event_abort":
            fs["event_faults"] = [{"event": fault["event"], "receiver": fault["receiver"]}]
        else:
            fs["faults"] = list(fs.get("faults", [])) + fault["faults"]
        ctx = harness.run_scenario(fs)
        checked, outcome = check_run(ctx, fs, fault, viol, probes, base_info)
    if ctx.evaluator.alias_errors and False:
        pass
    interesting = bool(ctx.evaluator.fired) or outcome not in ("FINISHED", "baseline")
    key = (backend, scn["plan"]["steps"][0]["kind"], scn.get("nested"), oracles.scenario_key(scn),
           None if fault is None else (fault["kind"], fault.get("at"), fault.get("value")), outcome)
    return {
        "violations": _dedupe(viol),
        "nontrivial": checked > 0 and interesting,
        "key": f"{H(str(key)):016x}",
        "probes": probes,
        "fired": {**ctx.evaluator.fired, **({"max_functions_budget": 1} if fault and fault["kind"] == "max_functions" else {})},
        "digest": harness.trace_digest(ctx),
        "evals": len(ctx.evaluator.calls),
        "events": len(ctx.events),
        "stratum": scn.get("stratum"),
        "summary": {"exits": oracles.exits_summary(ctx), "fault": fault, "outcome": outcome, "baseline_calls": L},
    }


def _dedupe(viol):
    seen, out = set(), []
    for v in viol:
        k = (v["clause"], repr(sorted(v["sig"].items())))
        if k not in seen:
            seen.add(k)
            out.append(v)
    return out


def reductions(scn: dict):
    return []
