"""C04  CVaR filter weights realize the tail expectation over the worst fraction.

Runs whose objective/constraint filter is cvar-*; percentiles from a rational grid and
neighbours one ulp away; NaN failure masks incl. all-failed.  The reported weight row of
every result is compared with exact-rational CVaR weights."""
from __future__ import annotations

import math
import random
from fractions import Fraction

import numpy as np

from ropt.enums import OptimizerExitCode

from sim import gen, harness, model, oracles

PROP = "C04"
LEVEL = "exploration"
COUNT = {"quick": 6000, "thorough": None}
BUDGET = {"quick": 45, "thorough": 600}
CHUNK = 4000
RULE = (
    "every scenario has 1-2 cvar-objective / cvar-constraint filters mapped onto objectives/constraints (maps contain -1); "
    "n = 1..12 realizations (4%: 17-40, 49, 98 or 196, where p*n integer noise and unstable sorting of ties would show); exact ties in the sort key of some filters (20%); percentile from {k/20, k/n, 1/3, 2/3, 0.3, 0.7, 1.0} and, in a third of the runs, its "
    "neighbour one ulp below/above; constraint bound kinds upper-only / lower-only / equality / two-sided; NaN failure "
    "masks incl. all realizations failed; optimizer and evaluator steps. Non-trivial = a weight row was compared with the "
    "exact-rational reference; distinct = coarse scenario key + percentile."
)
ASSUMPTIONS = [
    "order-dependent comparison only when the ranked values of the successful realizations are pairwise > 1e-9 apart or exactly equal (near ties are ambiguous; exact ties are ranked by realization index, as a stable sort does with and without failed realizations)",
    "two-sided / unbounded constraint filters: only the order-independent invariants are asserted (the statement fixes no direction)",
    "the realization just beyond the tail may carry a weight <= 1e-12 when p*n is within 1e-9 of an integer (rounding of p*n); "
    "negative weights and weights on any other realization are violations",
]
COMPONENTS = {
    "real": ["DefaultRealizationFilter (cvar-*)", "EnsembleEvaluator", "config validation", "plan steps", "estimators"],
    "stub": ["SimEvaluator", "sim/scripted optimizer", "sim/inject sampler"],
}
PROBES = ["exact_ties_ranked_by_index", "pn_integer_large_n", "far_one_sided_bound", "ranking_entries_checked", "rows_compared", "ordered_compared", "pn_within_ulp_of_integer", "all_failed", "lower_bounded_constraint",
          "equality_constraint", "upper_bounded_constraint", "objective_flavour", "constraint_flavour", "some_failed",
          "tail_mean_compared", "gradient_result_rows"]


def _percentile(rng: random.Random, n: int) -> float:
    c = rng.random()
    if c < 0.35:
        p = rng.randint(1, n) / n
    elif c < 0.65:
        p = rng.randint(1, 20) / 20
    elif c < 0.8:
        p = rng.choice([1 / 3, 2 / 3, 0.3, 0.7, 0.1, 0.9, 1.0, 0.6])
    else:
        p = round(rng.uniform(0.02, 1.0), 4)
    if rng.random() < 0.33:
        q = math.nextafter(p, 0.0 if rng.random() < 0.5 else 2.0)
        if 0.0 < q <= 1.0:
            p = q
    return p


def generate(seed: int, index: int, tier: str) -> dict:
    rng = random.Random(seed)
    nr = rng.randint(1, 12) if index % 3 else rng.randint(1, 5)
    large = index % 25 == 24
    if large:
        # large ensembles: rounding noise in the mass of the fractional realization needs n >= 49 to show (p * n an
        # integer that 1 / n does not represent), unstable sorting of ties needs n >= 17 without SIMD sorting
        nr = rng.choice([49, 98, 98, 196, rng.randint(17, 40), rng.randint(17, 40)])
    nc = rng.randint(0, 2)
    kinds = ["cvar-objective"] + (["cvar-constraint", "cvar-constraint"] if nc else [])
    scn = gen.base_scenario(rng, PROP, nr=nr, nc=nc, filters=True, filter_kinds=kinds, nv_max=3, npert_max=2,
                            zero_real_weights=(rng.random() < 0.15), stddev=(None if rng.random() < 0.3 else False),
                            script_len=rng.randint(1, 3), inject_p=0.9)
    cfg = scn["configs"][0]
    for f in cfg.get("realization_filters", []):
        f["options"]["percentile"] = _percentile(rng, nr)
        if large and nr in (49, 98, 196) and rng.random() < 0.7:
            f["options"]["percentile"] = rng.choice([0.5, 0.25, 0.75, 0.5])
            scn["pn_integer_large_n"] = True
    if nc:
        # make the bound kinds explicit and varied
        nl = cfg["nonlinear_constraints"]
        for j in range(nc):
            kind = rng.choice(["le", "ge", "eq", "two"])
            v = round(rng.uniform(-1, 1), 3)
            lo, hi = {"le": (-gen.INF, v), "ge": (v, gen.INF), "eq": (v, v), "two": (v, v + 1.0)}[kind]
            if kind in ("le", "ge") and rng.random() < 0.3:
                # a one-sided bound far away from the values: "largest for upper-bounded, smallest for lower-bounded"
                # is a statement about the values, whatever the magnitude of the bound
                big = rng.choice([1e17, 3e16, 1e6])
                lo, hi = (-gen.INF, big) if kind == "le" else (-big, gen.INF)
                scn["far_one_sided_bound"] = True
            nl["lower_bounds"][j], nl["upper_bounds"][j] = lo, hi
    mode = index % 4
    if mode == 1:
        gen.add_nan_faults(rng, scn, rate=1.0, max_faults=5)
    elif mode == 2 and rng.random() < 0.5:
        # everything fails at some evaluation
        scn["faults"].append({"kind": "nan", "eval": rng.randrange(0, 2), "real": None, "pert": None, "col": None})
    scn["stratum"] = ["plain", "nan-faults", "all-failed", "plain"][mode]
    if nr >= 3 and rng.random() < (0.6 if large else 0.2):
        gen.add_ties(rng, scn)
    if large:
        scn["stratum"] = "large-ensemble"
    return scn


def _bound_kind(cfg: dict, tm, j: int) -> str:
    nl = cfg["nonlinear_constraints"]
    lo = float(np.atleast_1d(nl["lower_bounds"])[j if len(np.atleast_1d(nl["lower_bounds"])) > 1 else 0])
    hi = float(np.atleast_1d(nl["upper_bounds"])[j if len(np.atleast_1d(nl["upper_bounds"])) > 1 else 0])
    if abs(hi - lo) < 1e-15:
        return "eq"
    if np.isfinite(lo) and np.isfinite(hi):
        return "two"
    if np.isfinite(hi):
        return "le"
    if np.isfinite(lo):
        return "ge"
    return "none"


def execute(scn: dict) -> dict:
    ctx = harness.run_scenario(scn)
    viol: list[dict] = []
    probes: dict[str, int] = {}

    def probe(name, n=1):
        probes[name] = probes.get(name, 0) + n

    compared = 0
    cfg0 = scn["configs"][0]
    filters = cfg0.get("realization_filters", [])
    all_failed_seen_call = None
    for ln in oracles.linked_results(ctx):
        cfg = ln.cfg
        if ln.call is None or ln.rows is None:
            continue
        tm = oracles.tm_for(ctx, cfg)
        if ln.is_function:
            msg = oracles.ranking_entries_inactive(ctx, cfg, ln.call)
            if msg is not None:
                probe("ranking_entry_inactive")
                viol.append({"clause": "ranked-entry-flagged-inactive", "sig": {}, "detail": msg})
            else:
                probe("ranking_entries_checked")
        nr = model.cfg_counts(cfg)["nr"]
        if ln.is_function:
            fcall, frows = ln.call, ln.rows
        else:
            probe("gradient_result_rows")
            fcall, frows = oracles.unperturbed_source(ctx, ln)
            if fcall is None:
                continue
        yo = tm.obj_to_opt(fcall.obj[frows])
        yc = None if fcall.con is None else tm.con_to_opt(fcall.con[frows])
        failed = np.any(np.isnan(fcall.obj[frows]), axis=1)
        if fcall.con is not None:
            failed |= np.any(np.isnan(fcall.con[frows]), axis=1)
        if failed.any():
            probe("some_failed")
        n = int((~failed).sum())
        for fidx, flt in enumerate(filters):
            if not flt["method"].startswith("cvar"):
                continue
            rows = oracles.filter_rows(ln, fidx)
            if not rows:
                continue
            p = float(flt["options"]["percentile"])
            vals = oracles.sort_key_values(cfg, flt, yo, yc)
            if flt["method"].endswith("objective"):
                probe("objective_flavour")
                badness, direction = vals, "largest"
            else:
                probe("constraint_flavour")
                if scn.get("far_one_sided_bound"):
                    probe("far_one_sided_bound")
                j = int(flt["options"]["sort"])
                bk = _bound_kind(cfg, tm, j)
                lo = tm.con_to_opt(np.asarray(cfg["nonlinear_constraints"]["lower_bounds"], float))[j]
                if bk == "le":
                    probe("upper_bounded_constraint")
                    badness, direction = vals, "largest"
                elif bk == "ge":
                    probe("lower_bounded_constraint")
                    badness, direction = -vals, "smallest"
                elif bk == "eq":
                    probe("equality_constraint")
                    badness, direction = np.abs(vals - lo), "farthest from target"
                else:
                    badness, direction = None, "unspecified"
            if n == 0:
                continue
            k_float = Fraction(p) * n
            near_int = abs(float(k_float) - round(float(k_float))) < 1e-9
            if near_int and Fraction(p) * n != round(float(k_float)):
                probe("pn_within_ulp_of_integer")
            if scn.get("pn_integer_large_n") and Fraction(p) * n == round(float(k_float)) and n >= 49:
                probe("pn_integer_large_n")
            for kind, j, w in rows:
                compared += 1
                probe("rows_compared")
                sig = {"flavour": flt["method"], "direction": direction}
                where = f"eval {ln.call.k} filter {fidx} ({flt['method']}, p={p!r}, n={n}) row {kind}{j}"
                if np.any(w < 0):
                    viol.append({"clause": "negative-weight", "sig": {},
                                 "detail": f"{where}: weights {w.tolist()}"})
                    continue
                if np.any(w[failed] != 0):
                    viol.append({"clause": "failed-realization-has-weight", "sig": {},
                                 "detail": f"{where}: weights {w.tolist()} failed {failed.tolist()}"})
                    continue
                if abs(w.sum() - p) > 1e-12:
                    viol.append({"clause": "weights-do-not-sum-to-p", "sig": {},
                                 "detail": f"{where}: sum {w.sum()!r}"})
                    continue
                if np.any(w > 1.0 / n + 1e-15):
                    viol.append({"clause": "weight-above-1-over-n", "sig": {},
                                 "detail": f"{where}: weights {w.tolist()}"})
                    continue
                if badness is None:
                    # order-independent: the sorted multiset must match
                    exact, _ = model.cvar_weights_exact(np.arange(len(failed))[::-1].astype(float), failed, p)
                    if not np.allclose(sorted(w), sorted(float(x) for x in exact), rtol=0, atol=1e-12):
                        viol.append({"clause": "cvar-weight-multiset", "sig": sig, "detail": f"{where}: weights {w.tolist()}"})
                    continue
                if oracles.near_ties(badness[~failed]):
                    continue  # near ties: assignment ambiguous (exact ties are ranked by realization index)
                if np.unique(badness[~failed]).size < np.count_nonzero(~failed):
                    probe("exact_ties_ranked_by_index")
                exact, order = model.cvar_weights_exact(badness, failed, p)
                ex = np.array([float(x) for x in exact])
                probe("ordered_compared")
                if not np.allclose(w, ex, rtol=0, atol=1e-12):
                    viol.append({"clause": "cvar-weights", "sig": sig,
                                 "detail": f"{where}: reported {w.tolist()}, exact {ex.tolist()} (worst = {direction}, ranked values {np.round(vals, 6).tolist()})"})
                    continue
                # exactly zero elsewhere
                ktail = sum(1 for x in exact if x > 0)
                for rank, i in enumerate(order):
                    if exact[i] == 0 and w[i] != 0:
                        viol.append({"clause": "weight-outside-tail", "sig": sig,
                                     "detail": f"{where}: realization {i} (rank {rank}) has weight {w[i]!r}, tail size {ktail}"})
                        break
                # consequently: the ranked function's value is the tail mean
                if ln.is_function and ln.opt.functions is not None and flt["method"].endswith("constraint") \
                        and kind == "c" and j == int(flt["options"]["sort"]) and model.estimator_of(cfg, "c", j) == "mean":
                    tail = float(np.dot(ex, np.nan_to_num(yc[:, j])) / ex.sum())
                    probe("tail_mean_compared")
                    if not model.close(float(ln.opt.functions.constraints[j]), tail):
                        viol.append({"clause": "tail-mean", "sig": sig,
                                     "detail": f"{where}: reported {float(ln.opt.functions.constraints[j])!r}, CVaR tail mean {tail!r}"})

    # no successful realization at a function evaluation that reaches a cvar filter -> TOO_FEW_REALIZATIONS
    cvar_mapped = any(
        filters[model.filter_of(cfg0, k, j)]["method"].startswith("cvar")
        for k, nn in (("o", model.cfg_counts(cfg0)["no"]), ("c", model.cfg_counts(cfg0)["nc"]))
        for j in range(nn) if model.filter_of(cfg0, k, j) >= 0)
    if cvar_mapped:
        nr = model.cfg_counts(cfg0)["nr"]
        for call in ctx.evaluator.calls:
            if call.obj is None or call.kind == "g":
                continue
            bad = np.any(np.isnan(call.obj), axis=1)
            if call.con is not None:
                bad |= np.any(np.isnan(call.con), axis=1)
            nvec = 1 if call.kind == "fg" else call.obj.shape[0] // nr
            if any(bad[v * nr:(v + 1) * nr].all() for v in range(nvec)):
                probe("all_failed")
                ex = ctx.exits[0] if ctx.exits else None
                if ex is None or ex[0] != "ret" or ex[2] != int(OptimizerExitCode.TOO_FEW_REALIZATIONS):
                    viol.append({"clause": "no-success-not-too-few", "sig": {},
                                 "detail": f"evaluation {call.k}: no realization succeeded; run ended with {ex}"})
                break

    return {
        "violations": _dedupe(viol),
        "nontrivial": compared > 0,
        "key": oracles.scenario_key(scn, [f["options"].get("percentile") for f in filters]),
        "probes": probes,
        "fired": dict(ctx.evaluator.fired),
        "digest": harness.trace_digest(ctx),
        "evals": len(ctx.evaluator.calls),
        "events": len(ctx.events),
        "stratum": scn.get("stratum"),
        "summary": {"exits": oracles.exits_summary(ctx), "compared": compared},
    }


def _dedupe(viol):
    seen, out = set(), []
    for v in viol:
        k = (v["clause"], repr(sorted(v["sig"].items())))
        if k not in seen:
            seen.add(k)
            out.append(v)
    return out


def reductions(scn: dict):
    from sim.reduce import generic_reductions

    for c in generic_reductions(scn):
        if c["configs"][0].get("realization_filters"):
            yield c
