"""C06  Evaluator requests are complete and correctly labelled; inactive entries inert.

The simulated evaluator plays the hostile-but-legal user: finite garbage in every inactive
entry (different garbage in the twin run), memoized result objects and arrays, read-only
arrays, evaluation info.  Every call is checked for completeness and labels, every reported
value against the row with that label, inactive flags against the weights in force, the
evaluator's own arrays against its private copies (before every later call and at the end),
and delivered results for immutability."""
from __future__ import annotations

import copy
import random

import numpy as np

from ropt.enums import EventType
from ropt.results import FunctionResults

from sim import gen, harness, model, oracles
from sim.seeds import H

PROP = "C06"
LEVEL = "exploration"
COUNT = {"quick": 6000, "thorough": None}
BUDGET = {"quick": 45, "thorough": 600}
CHUNK = 4000
RULE = (
    "scripted optimizer / evaluator-step runs over all evaluation kinds (functions single and batch, gradient-only after a "
    "function request = split evaluation, both), realization weights with zeros, filters that zero realizations, transforms "
    "(variables/objectives/constraints), NaN faults; evaluator mode per run: garbage seed (70%), memoize (35%), read-only "
    "arrays (35%), evaluation_info (30%), output buffers re-used and overwritten by the evaluator (20%). Twin run with another garbage seed. Non-trivial = at least one call had its rows "
    "and labels checked and (an inactive entry existed or a hostile mode was on); distinct = coarse scenario key + mode."
)
ASSUMPTIONS = [
    "NaN row propagation is documented behaviour: a row with a NaN in any column is reported as all-NaN",
]
COMPONENTS = {
    "real": ["_evaluator_results.py (contexts, labels, transforms, splitting)", "EnsembleEvaluator", "results.* (_immutable_copy)", "filters", "VariableScaler"],
    "stub": ["SimEvaluator in hostile modes", "sim/scripted optimizer", "objective/constraint scalers"],
}
PROBES = ["labelled_export_checked", "negative_realization_weight", "inactive_realization_seen", "buffer_reused", "calls_checked", "inactive_entry_seen", "garbage_entries", "memo_hits", "readonly_arrays", "split_gradient_call",
          "values_checked", "twin_compared", "results_immutability_checked", "transform_with_memo", "nan_rows", "batch_call",
          "zero_weight_from_filter"]


def generate(seed: int, index: int, tier: str) -> dict:
    rng = random.Random(seed)
    scn = gen.base_scenario(rng, PROP, nr_max=5, nv_max=3, npert_max=3, nc_max=2, inject_p=0.7, merge=False,
                            script_len=rng.randint(2, 6), rms=None if rng.random() < 0.6 else "rand")
    cfg = scn["configs"][0]
    # repeat requests so that memoization has something to hit
    script = cfg["optimizer"]["options"]["script"]
    if rng.random() < 0.6 and script:
        script.append(copy.deepcopy(script[rng.randrange(len(script))]))
    mode = {}
    if rng.random() < 0.7:
        mode["garbage"] = rng.getrandbits(24)
    if rng.random() < 0.35:
        mode["memoize"] = True
    if rng.random() < 0.35:
        mode["readonly"] = True
    if rng.random() < 0.3:
        mode["info"] = True
    if "memoize" not in mode and "readonly" not in mode and rng.random() < 0.3:
        mode["reuse"] = True
    scn["mode"] = mode
    if index % 3 == 0:
        gen.add_nan_faults(rng, scn, rate=1.0, max_faults=3)
    scn["twin_garbage"] = rng.getrandbits(24)
    scn["stratum"] = "+".join(sorted(mode)) or "plain"
    w = cfg["realizations"]["weights"]
    has_sd = any(e["method"].endswith("stddev") for e in cfg.get("function_estimators", []))
    if len(w) >= 2 and not cfg.get("realization_filters") and not has_sd and rng.random() < 0.3:
        # a negative realization weight (legal as long as the sum is positive) is a non-zero weight like any other
        i = rng.randrange(len(w))
        rest = sum(v for k, v in enumerate(w) if k != i)
        if rest > 0.2:
            w[i] = -round(rng.uniform(0.1, 0.5) * rest, 3)
            scn["negative_realization_weight"] = True
    return scn


def _arrays_of(item):
    out = []
    ev = item.evaluations
    for f in ("variables", "objectives", "constraints", "perturbed_variables", "perturbed_objectives", "perturbed_constraints"):
        if hasattr(ev, f) and getattr(ev, f) is not None:
            out.append((f"evaluations.{f}", getattr(ev, f)))
    for key, val in (getattr(ev, "evaluation_info", None) or {}).items():
        if isinstance(val, np.ndarray):
            out.append((f"evaluations.evaluation_info[{key!r}]", val))
    rl = item.realizations
    for f in ("failed_realizations", "objective_weights", "constraint_weights"):
        if getattr(rl, f) is not None:
            out.append((f"realizations.{f}", getattr(rl, f)))
    for part in ("functions", "gradients", "constraint_info"):
        obj = getattr(item, part, None)
        if obj is None:
            continue
        for f in obj.__dataclass_fields__:
            a = getattr(obj, f)
            if isinstance(a, np.ndarray):
                out.append((f"{part}.{f}", a))
    return out


def _core_digest(ctx) -> list:
    """functions, gradients, weights, flags of every delivered result (what must not depend on garbage)."""
    out = []
    for ln in oracles.linked_results(ctx):
        item = ln.opt
        rl = item.realizations
        parts = [np.asarray(rl.failed_realizations)]
        for a in (rl.objective_weights, rl.constraint_weights):
            parts.append(None if a is None else np.asarray(a))
        if ln.is_function:
            fn = item.functions
            parts += [None] if fn is None else [np.asarray(fn.weighted_objective), np.asarray(fn.objectives), None if fn.constraints is None else np.asarray(fn.constraints)]
        else:
            g = item.gradients
            parts += [None] if g is None else [np.asarray(g.weighted_objective), np.asarray(g.objectives), None if g.constraints is None else np.asarray(g.constraints)]
        out.append(parts)
    return out


def execute(scn: dict) -> dict:
    ctx = harness.run_scenario(scn)
    viol: list[dict] = []
    probes: dict[str, int] = {}

    def probe(name, n=1):
        probes[name] = probes.get(name, 0) + n

    ev = ctx.evaluator
    mode = scn.get("mode") or {}
    probe("garbage_entries", ev.fired.get("garbage_entry", 0))
    probe("memo_hits", ev.fired.get("memo_hit", 0))
    probe("buffer_reused", ev.fired.get("buffer_reused", 0))
    if mode.get("readonly"):
        probe("readonly_arrays")
    if mode.get("memoize") and scn.get("transforms"):
        probe("transform_with_memo")
    checked = 0
    inactive_seen = False
    # ---- escaping exceptions caused by the evaluator's legal behaviour -----------------------------
    for e in ctx.exits:
        if e[0] == "exception":
            viol.append({"clause": "run-raised", "sig": {"what": str(e[2]).split(":")[0], "readonly": bool(mode.get("readonly"))},
                         "detail": f"mode {mode}: {e[2]}"})
    # ---- aliasing: the evaluator's own objects/arrays -------------------------------------------
    if ev.alias_errors:
        viol.append({"clause": "evaluator-result-modified", "sig": {"what": ev.alias_errors[0].split(": ", 1)[1].split(" of call")[0]},
                     "detail": f"mode {mode}, transforms {scn.get('transforms')}: " + "; ".join(ev.alias_errors[:3])})
    if scn.get("negative_realization_weight"):
        probe("negative_realization_weight")
    first_by_request: dict[bytes, list] = {}
    for ln in oracles.linked_results(ctx):
        cfg = ln.cfg
        c = model.cfg_counts(cfg)
        nr, npert = c["nr"], c["np"]
        tm = oracles.tm_for(ctx, cfg)
        call = ln.call
        if call is None or ln.rows is None:
            viol.append({"clause": "result-not-linked-to-call", "sig": {}, "detail": f"event {ln.rec.n} batch_id {ln.opt.batch_id}"})
            continue
        checked += 1
        probe("calls_checked")
        if not ln.is_function:
            # the labelled export of the per-(realization, perturbation) values: every slice carries the values of its label
            for res in (ln.opt, ln.user):
                ge = res.evaluations
                for name in ("perturbed_variables", "perturbed_objectives", "perturbed_constraints"):
                    arr = getattr(ge, name)
                    if arr is None:
                        continue
                    arr = np.asarray(arr)
                    exported = ge.to_dict(name)
                    probe("labelled_export_checked")
                    for key, sl in exported.items():
                        if np.shape(sl) != arr[..., key].shape or not np.array_equal(np.asarray(sl), arr[..., key], equal_nan=True):
                            viol.append({"clause": "exported-value-under-wrong-label", "sig": {"field": name},
                                         "detail": f"eval {call.k}: to_dict({name!r})[{key}] has shape {np.shape(sl)} and is not the "
                                                   f"[realization, perturbation] slice {arr[..., key].shape} of the reported field"})
                            break
        if call.kind == "f" and call.variables.shape[0] > nr:
            probe("batch_call")
        # ---- 1. completeness and labels ------------------------------------------------------
        rows = ln.rows
        reals = call.realizations[rows]
        xu = np.asarray(ln.user.evaluations.variables, float)
        if ln.is_function:
            if sorted(reals.tolist()) != list(range(nr)):
                viol.append({"clause": "function-rows-incomplete", "sig": {}, "detail": f"call {call.k}: realization labels {reals.tolist()} for one vector, expected each of 0..{nr - 1} once"})
                continue
            if call.perturbations is not None and np.any(call.perturbations[rows] >= 0):
                viol.append({"clause": "function-row-labelled-as-perturbation", "sig": {}, "detail": f"call {call.k}"})
            if not np.allclose(call.variables[rows], xu[None, :], rtol=1e-9, atol=1e-12):
                viol.append({"clause": "function-row-variables", "sig": {},
                             "detail": f"call {call.k}: evaluator rows {call.variables[rows].tolist()} vs reported user-domain variables {xu.tolist()}"})
            if not np.allclose(tm.x_to_user(np.asarray(ln.opt.evaluations.variables, float)), xu, rtol=1e-9, atol=1e-12):
                viol.append({"clause": "user-domain-variables", "sig": {}, "detail": f"call {call.k}"})
            order = np.argsort(reals, kind="stable")
            ro = call.obj[rows][order]
            rc = None if call.con is None else call.con[rows][order]
            rep_o = np.asarray(ln.opt.evaluations.objectives, float)
            rep_c = None if ln.opt.evaluations.constraints is None else np.asarray(ln.opt.evaluations.constraints, float)
        else:
            perts = call.perturbations[rows]
            pairs = sorted(zip(reals.tolist(), perts.tolist()))
            want = [(r, p) for r in range(nr) for p in range(npert)]
            if pairs != want:
                viol.append({"clause": "gradient-rows-incomplete", "sig": {}, "detail": f"call {call.k}: (realization, perturbation) labels {pairs}, expected {want}"})
                continue
            pv = np.asarray(ln.user.evaluations.perturbed_variables, float)
            idx = np.lexsort((perts, reals))
            got = call.variables[rows][idx].reshape(nr, npert, -1)
            if not np.allclose(got, pv, rtol=1e-9, atol=1e-12):
                viol.append({"clause": "gradient-row-variables", "sig": {}, "detail": f"call {call.k}: rows do not carry the reported (user-domain) perturbed variables"})
            ro = call.obj[rows][idx]
            rc = None if call.con is None else call.con[rows][idx]
            rep_o = np.asarray(ln.opt.evaluations.perturbed_objectives, float).reshape(nr * npert, -1)
            rep_c = None if ln.opt.evaluations.perturbed_constraints is None else np.asarray(ln.opt.evaluations.perturbed_constraints, float).reshape(nr * npert, -1)
            if call.kind == "g":
                probe("split_gradient_call")
        # ---- 2. reported values are the returned values of the labelled rows (NaN rows propagate) ---
        bad = np.any(np.isnan(ro), axis=1)
        if rc is not None:
            bad |= np.any(np.isnan(rc), axis=1)
        if bad.any():
            probe("nan_rows")
        want_o = tm.obj_to_opt(ro)
        want_o[bad, :] = np.nan
        probe("values_checked")
        if not np.allclose(rep_o, want_o, rtol=1e-12, atol=0, equal_nan=True):
            viol.append({"clause": "reported-objective-values", "sig": {"memo_hit": bool(call.memo_hit), "transforms": bool(scn.get("transforms"))},
                         "detail": f"call {call.k} ({call.kind}, memo hit {call.memo_hit}): reported {rep_o.tolist()}, returned rows (optimizer domain) {want_o.tolist()}"})
        if rc is not None and rep_c is not None:
            want_c = tm.con_to_opt(rc)
            want_c[bad, :] = np.nan
            if not np.allclose(rep_c, want_c, rtol=1e-12, atol=0, equal_nan=True):
                viol.append({"clause": "reported-constraint-values", "sig": {"memo_hit": bool(call.memo_hit), "transforms": bool(scn.get("transforms"))},
                             "detail": f"call {call.k}: reported {rep_c.tolist()}, returned rows {want_c.tolist()}"})
        # ---- 3. inactive only if weight zero; split gradient: zero weight => inactive ---------------
        for kind, n, act in (("o", c["no"], call.active_objectives), ("c", c["nc"], call.active_constraints)):
            if act is None:
                if call.kind == "g" and call.active_objectives is not call.active_constraints:
                    # flags exist for the other kind of function only: for this kind everything counts as active
                    for j in range(n):
                        w, filtered = oracles.weights_in_force(ln, kind, j)
                        if w is not None and np.any(np.asarray(w) == 0):
                            viol.append({"clause": "zero-weight-entry-active-in-split-gradient", "sig": {"filtered": filtered, "flags": "absent for this kind"},
                                         "detail": f"call {call.k} (gradient-only): weights {np.asarray(w).tolist()} of {kind}{j} contain zeros but no activity flags are given for "
                                                   f"{'objectives' if kind == 'o' else 'constraints'} (they are for the other kind)"})
                continue
            for j in range(n):
                w, filtered = oracles.weights_in_force(ln, kind, j)
                if w is None:
                    continue
                for r in range(nr):
                    if not act[j, r]:
                        inactive_seen = True
                        probe("inactive_entry_seen")
                        if filtered:
                            probe("zero_weight_from_filter")
                        if w[r] != 0:
                            viol.append({"clause": "inactive-entry-has-weight", "sig": {"filtered": filtered, "kind": call.kind},
                                         "detail": f"call {call.k} ({call.kind}): entry ({kind}{j}, realization {r}) flagged inactive but its weight in force is {w[r]!r}"})
                    elif call.kind == "g" and w[r] == 0:
                        viol.append({"clause": "zero-weight-entry-active-in-split-gradient", "sig": {"filtered": filtered},
                                     "detail": f"call {call.k} (gradient-only): entry ({kind}{j}, realization {r}) has weight 0 but is flagged active"})
        if call.active is not None:
            # the per-realization summary an evaluator may use instead of the per-function flags
            for r in range(nr):
                if call.active[r]:
                    continue
                probe("inactive_realization_seen")
                for kind, n in (("o", c["no"]), ("c", c["nc"])):
                    for j in range(n):
                        w, filtered = oracles.weights_in_force(ln, kind, j)
                        if w is not None and w[r] != 0:
                            viol.append({"clause": "inactive-realization-has-weight", "sig": {"filtered": filtered, "kind": call.kind},
                                         "detail": f"call {call.k} ({call.kind}): context.active flags realization {r} as not needed, but the weight in force of {kind}{j} there is {w[r]!r}"})
        if call.kind == "g" and call.active_objectives is None:
            # all flagged active: then no weight in force may be zero
            for kind, n in (("o", c["no"]), ("c", c["nc"])):
                for j in range(n):
                    w, filtered = oracles.weights_in_force(ln, kind, j)
                    if w is not None and np.any(np.asarray(w) == 0):
                        viol.append({"clause": "zero-weight-entry-active-in-split-gradient", "sig": {"filtered": filtered},
                                     "detail": f"call {call.k} (gradient-only): weights {np.asarray(w).tolist()} of {kind}{j} contain zeros but nothing is flagged inactive"})
        # ---- 6. a repeated memoized request yields the same results --------------------------------
        if mode.get("memoize") and ln.is_function:
            key = call.variables.tobytes() + call.realizations.tobytes() + (b"" if call.perturbations is None else call.perturbations.tobytes()) + str(ln.pos).encode()
            core = [None if ln.opt.functions is None else np.asarray(ln.opt.functions.objectives), rep_o]
            prev = first_by_request.get(key)
            if prev is None:
                first_by_request[key] = core
            else:
                for a, b in zip(prev, core):
                    if (a is None) != (b is None) or (a is not None and not np.allclose(a, b, rtol=1e-12, atol=0, equal_nan=True)):
                        viol.append({"clause": "memoized-request-gives-different-results", "sig": {"transforms": bool(scn.get("transforms"))},
                                     "detail": f"call {call.k}: {None if b is None else b.tolist()} now, {None if a is None else a.tolist()} the first time"})
                        break
    # ---- 7. delivered results are immutable snapshots ----------------------------------------------
    for rec in ctx.events:
        if rec.results is None:
            continue
        items = list(rec.results) + (list(rec.transformed) if rec.transformed is not None else [])
        now = [harness.result_bytes(r) for r in items]
        probe("results_immutability_checked")
        if rec.snap is not None and now != rec.snap:
            viol.append({"clause": "delivered-result-changed", "sig": {}, "detail": f"results of event {rec.n} differ from their snapshot at delivery"})
        for item in items:
            for name, a in _arrays_of(item):
                if a.flags.writeable:
                    viol.append({"clause": "delivered-array-writable", "sig": {"field": name}, "detail": f"event {rec.n}: {type(item).__name__}.{name} accepts writes"})
                    break
    # ---- 4. garbage invariance (twin run) -----------------------------------------------------
    if mode.get("garbage") is not None and not viol and ev.fired.get("garbage_entry"):
        twin = copy.deepcopy(scn)
        twin["mode"]["garbage"] = scn["twin_garbage"]
        tctx = harness.run_scenario(twin)
        a, b = _core_digest(ctx), _core_digest(tctx)
        probe("twin_compared")
        same = len(a) == len(b)
        if same:
            for pa, pb in zip(a, b):
                for x, y in zip(pa, pb):
                    if (x is None) != (y is None) or (x is not None and not np.array_equal(x, y, equal_nan=True)):
                        same = False
        if not same:
            viol.append({"clause": "garbage-in-inactive-entries-influences-results", "sig": {},
                         "detail": "functions/gradients/weights/flags differ between two runs that differ only in what the evaluator returned for inactive entries"})
    return {
        "violations": _dedupe(viol),
        "nontrivial": checked > 0 and (inactive_seen or bool(mode)),
        "key": oracles.scenario_key(scn, str(sorted(mode))),
        "probes": probes,
        "fired": dict(ev.fired),
        "digest": harness.trace_digest(ctx),
        "evals": len(ev.calls),
        "events": len(ctx.events),
        "stratum": scn.get("stratum"),
        "summary": {"exits": oracles.exits_summary(ctx), "checked": checked, "mode": mode},
    }


def _dedupe(viol):
    seen, out = set(), []
    for v in viol:
        k = (v["clause"], repr(sorted(v["sig"].items())))
        if k not in seen:
            seen.add(k)
            out.append(v)
    return out


def reductions(scn: dict):
    from sim.reduce import generic_reductions

    yield from generic_reductions(scn)
