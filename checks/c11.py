"""C11  Scaling transforms change optimizer coordinates only, not user-domain behaviour.

Twin-run refinement: a user-domain scenario is run twice with the same script of user-domain
points - once plain, once with transforms (variable scale/offset, objective scale, constraint
scale; combinations), the transformed run's back-end issuing the optimizer-domain images.
Entry paths: plan.run_step(config=dict, transforms=T), BasicOptimizer(dict, transforms=T)
and BasicOptimizer(validated config, transforms=T).  NaN faults are co-injected identically."""
from __future__ import annotations

import copy
import random
import warnings

import numpy as np

from ropt.config.enopt import EnOptConfig
from ropt.enums import EventType
from ropt.plan import BasicOptimizer
from ropt.results import FunctionResults, GradientResults

from sim import gen, harness, model, oracles
from sim.evaluator import SimEvaluator
from sim.seeds import H, digest_bytes
from sim.simtransforms import TransformModel, build_transforms
from sim.world import World

PROP = "C11"
LEVEL = "exploration"
COUNT = {"quick": 5000, "thorough": None}
BUDGET = {"quick": 45, "thorough": 600}
CHUNK = 4000
RULE = (
    'The settings objects shared by two steps now cover every configuration part that has a class of its own. '
    "index%5 in 0..2: plan path with the scripted back-end (requests = user-domain pool points, issued as optimizer-domain "
    "images in the transformed run); index%5==3: BasicOptimizer(dict, transforms=T); index%5==4: BasicOptimizer(validated, "
    "transforms=T) - both with real SLSQP/Nelder-Mead, compared on the first evaluation (same starting point). Transforms: any "
    "non-empty subset of {variable scale/offset, objective scale, constraint scale}; bounds, linear constraints (non-zero rows, "
    "all bound kinds), absolute and relative perturbations, boundary types, filters with single sort keys, stddev, NaN faults. "
    "Non-trivial = at least one evaluator call and one result were compared pairwise; distinct = coarse scenario key + transform kinds + entry path."
)
ASSUMPTIONS = [
    "rtol 1e-9 for rows and results ('up to rounding')",
    "filters rank by single objectives/constraints only (a weighted sum of differently scaled objectives is domain dependent by construction)",
    "BasicOptimizer paths use real SciPy algorithms, whose iterates are not scale invariant: only the first evaluation (same user-domain point, same samples) is compared",
    "weighted objective and gradients are not part of the statement and are not compared",
]
COMPONENTS = {
    "real": ["VariableScaler", "EnOptConfig validation with transform context", "EnsembleEvaluator (from/to optimizer)", "results transform_from_optimizer", "BasicOptimizer", "optimizer step"],
    "stub": ["objective/constraint scalers (user supplied)", "SimEvaluator", "sim/scripted optimizer"],
}
PROBES = ["settings_objects_shared_by_two_steps", "multi_key_filter_with_objective_scaling", "explicit_step_variables", "calls_compared", "results_compared", "perturbed_rows_compared", "feasibility_points_compared", "roundtrip_checked",
          "variable_transform", "objective_transform", "constraint_transform", "linear_constraints", "relative_perturbation",
          "basic_dict_path", "basic_validated_path", "constraint_info_compared", "nan_faults"]


def generate(seed: int, index: int, tier: str) -> dict:
    rng = random.Random(seed)
    path = ["plan", "plan", "plan", "basic-dict", "basic-validated"][index % 5]
    real = path != "plan"
    method = rng.choice(["slsqp", "nelder-mead"]) if real else None
    nv = rng.randint(1, 3)
    nc_max = 0 if method == "nelder-mead" else 2
    scn = gen.base_scenario(rng, PROP, nv=nv, nr_max=3, no_max=2, nc_max=nc_max, npert_max=3, transforms=True,
                            filters=(rng.random() < 0.3), filter_count=1, stddev=None, mask=(False if real else None),
                            linear=(rng.random() < 0.5 and method != "nelder-mead"),
                            bounds_style=rng.choice(["finite", "finite", "mixed", "none"]),
                            script_len=rng.randint(1, 4), inject_p=0.5, step="optimizer", merge=False,
                            zero_real_weights=False, world_kind="quadratic")
    cfg = scn["configs"][0]
    multi_key = rng.random() < 0.3
    for f in cfg.get("realization_filters", []):
        if f["method"].endswith("objective") and not (multi_key and len(f["options"]["sort"]) > 1):
            f["options"]["sort"] = f["options"]["sort"][:1]
    if any(f["method"].endswith("objective") and len(f["options"]["sort"]) > 1 for f in cfg.get("realization_filters", [])):
        # a filter that ranks by a weighted sum of several objectives, next to an objective scaler with unequal scales
        scn["multi_key_filter"] = True
    tr = scn["transforms"] or {}
    tr.setdefault("var", None), tr.setdefault("obj", None), tr.setdefault("con", None)
    if tr.get("obj"):
        tr["obj"]["flip"] = False
    if not (tr.get("var") or tr.get("obj") or tr.get("con")):
        tr["var"] = {"scales": [round(rng.uniform(0.25, 4), 3) for _ in range(nv)], "offsets": [round(rng.uniform(-1, 1), 3) for _ in range(nv)]}
    scn["transforms"] = tr
    lb = cfg["variables"].get("lower_bounds", [-gen.INF] * nv)
    ub = cfg["variables"].get("upper_bounds", [gen.INF] * nv)
    allfinite = all(np.isfinite(lb)) and all(np.isfinite(ub))
    if allfinite and rng.random() < 0.4:
        cfg["gradient"]["perturbation_magnitudes"] = [round(rng.uniform(0.01, 0.2), 3) for _ in range(nv)]
        cfg["gradient"]["perturbation_types"] = rng.choice([2, [rng.choice([1, 2]) for _ in range(nv)]])
    # user-domain pool of request points (inside the bounds) and seeded feasibility probes (anywhere)
    scn["user_points"] = [gen.gen_point_inside(rng, lb, ub) for _ in range(rng.randint(1, 3))]
    scn["probe_points"] = [[round(rng.uniform(-4, 4), 3) for _ in range(nv)] for _ in range(6)]
    for e in cfg["optimizer"]["options"]["script"]:
        e["pts"] = [rng.randrange(-1, len(scn["user_points"])) for _ in e["pts"]]
    if real:
        cfg["optimizer"] = {"method": method, "options": {"maxiter": 2}, "tolerance": 1e-3}
        if cfg.get("nonlinear_constraints") and method == "slsqp":
            pass
    if rng.random() < 0.25:
        gen.add_nan_faults(rng, scn, rate=1.0, max_faults=2)
        for f in scn["faults"]:
            f["eval"] = None if real else f["eval"]
    if path == "plan" and tr.get("var") and rng.random() < 0.25:
        # the user hands a point to a step explicitly (e.g. the variables of an earlier result: user domain)
        scn["plan"]["steps"].insert(0, {"kind": "evaluator", "cfg": 0, "variables": [list(scn["user_points"][0])]})
        for t in scn["plan"].get("trackers", []):
            t["sources"] = [i + 1 for i in t.get("sources", [])]
        scn["explicit_step_variables"] = True
    elif path == "plan" and rng.random() < 0.2:
        # the variable / non-linear constraint settings are objects the user created once and uses in the configuration
        # of two steps: validating a configuration must not change them (the second step starts from the same point)
        scn["plan"]["steps"].append({"kind": "evaluator", "cfg": 0})
        scn["subconfig_objects"] = True
    scn["path"] = path
    scn["stratum"] = path
    return scn


def _user_fields(item):
    """user-domain fields named by the statement"""
    out = {"variables": np.asarray(item.evaluations.variables, float)}
    ev = item.evaluations
    if isinstance(item, FunctionResults):
        out["objectives(per realization)"] = np.asarray(ev.objectives, float)
        if ev.constraints is not None:
            out["constraints(per realization)"] = np.asarray(ev.constraints, float)
        if item.functions is not None:
            out["function objectives"] = np.asarray(item.functions.objectives, float)
            if item.functions.constraints is not None:
                out["function constraints"] = np.asarray(item.functions.constraints, float)
        ci = item.constraint_info
        if ci is not None:
            for f in ("bound_lower", "bound_upper", "linear_lower", "linear_upper", "nonlinear_lower", "nonlinear_upper",
                      "bound_violation", "linear_violation", "nonlinear_violation"):
                a = getattr(ci, f)
                if a is not None:
                    out["constraint_info." + f] = np.asarray(a, float)
        else:
            out["constraint_info"] = None
    else:
        out["perturbed_variables"] = np.asarray(ev.perturbed_variables, float)
        out["perturbed_objectives"] = np.asarray(ev.perturbed_objectives, float)
        if ev.perturbed_constraints is not None:
            out["perturbed_constraints"] = np.asarray(ev.perturbed_constraints, float)
    return out


def _compare_runs(plain_calls, tcalls, plain_results, tresults, viol, probes, limit=None):
    def probe(name, n=1):
        probes[name] = probes.get(name, 0) + n

    compared = 0
    n = min(len(plain_calls), len(tcalls)) if limit is None else min(limit, len(plain_calls), len(tcalls))
    if limit is None and len(plain_calls) != len(tcalls):
        viol.append({"clause": "number-of-evaluator-calls-differs", "sig": {}, "detail": f"{len(plain_calls)} plain vs {len(tcalls)} transformed"})
    for a, b in zip(plain_calls[:n], tcalls[:n]):
        compared += 1
        probe("calls_compared")
        if a.kind in ("g", "fg"):
            probe("perturbed_rows_compared")
        if a.variables.shape != b.variables.shape or not np.allclose(a.variables, b.variables, rtol=1e-9, atol=1e-9):
            row = 0
            if a.variables.shape == b.variables.shape:
                row = int(np.argmax(np.any(~np.isclose(a.variables, b.variables, rtol=1e-9, atol=1e-9), axis=1)))
            viol.append({"clause": "evaluator-rows-differ", "sig": {"kind": a.kind, "perturbed_row": bool(a.perturbations is not None and a.perturbations[row] >= 0) if a.variables.shape == b.variables.shape else None},
                         "detail": f"evaluator call {a.k} ({a.kind}) row {row}: plain run received {a.variables[row].tolist() if a.variables.shape == b.variables.shape else a.variables.shape}, "
                                   f"transformed run {b.variables[row].tolist() if a.variables.shape == b.variables.shape else b.variables.shape}"})
            return compared
        if not np.array_equal(a.realizations, b.realizations) or (a.perturbations is None) != (b.perturbations is None):
            viol.append({"clause": "evaluator-labels-differ", "sig": {}, "detail": f"call {a.k}"})
            return compared
    m = min(len(plain_results), len(tresults)) if limit is None else min(limit, len(plain_results), len(tresults))
    for (ea, ra), (eb, rb) in zip(plain_results[:m], tresults[:m]):
        if type(ra) is not type(rb):
            viol.append({"clause": "result-kinds-differ", "sig": {}, "detail": f"{type(ra).__name__} vs {type(rb).__name__}"})
            return compared
        fa, fb = _user_fields(ra), _user_fields(rb)
        probe("results_compared")
        compared += 1
        for key in sorted(set(fa) | set(fb)):
            x, y = fa.get(key, "missing"), fb.get(key, "missing")
            if key.startswith("constraint_info."):
                probe("constraint_info_compared")
            if isinstance(x, str) or isinstance(y, str) or x is None or y is None:
                if not (x is None and y is None) and not (isinstance(x, str) and isinstance(y, str)):
                    viol.append({"clause": "user-domain-result-field-missing", "sig": {"field": key.split("(")[0]},
                                 "detail": f"result {ea}: field {key} plain={'present' if isinstance(x, np.ndarray) else x}, transformed={'present' if isinstance(y, np.ndarray) else y}"})
                continue
            if x.shape != y.shape or not np.allclose(x, y, rtol=1e-8, atol=1e-9, equal_nan=True):
                viol.append({"clause": "user-domain-result-differs", "sig": {"field": key.split("(")[0]},
                             "detail": f"result of event {ea}: {key} plain {x.tolist()}, with transforms {y.tolist()}"})
                return compared
    return compared


def _feasibility(scn, vcfg, tm, viol, probes):
    """user point feasible under the raw bounds / linear constraints <=> image feasible under the validated ones."""
    cfg = scn["configs"][0]
    nv = len(scn["world"]["var_ids"])
    lb = np.broadcast_to(np.atleast_1d(np.asarray(cfg["variables"].get("lower_bounds", -np.inf), float)), (nv,))
    ub = np.broadcast_to(np.atleast_1d(np.asarray(cfg["variables"].get("upper_bounds", np.inf), float)), (nv,))
    lin = cfg.get("linear_constraints")
    if lin is not None:
        probes["linear_constraints"] = probes.get("linear_constraints", 0) + 1
    for p in scn["probe_points"] + scn["user_points"]:
        xu = np.asarray(p, float)
        xo = tm.x_to_opt(xu)
        back = tm.x_to_user(xo)
        probes["roundtrip_checked"] = probes.get("roundtrip_checked", 0) + 1
        sl = [xu - lb, ub - xu]
        so = [xo - np.asarray(vcfg.variables.lower_bounds), np.asarray(vcfg.variables.upper_bounds) - xo]
        if lin is not None:
            A = np.asarray(lin["coefficients"], float)
            n = A.shape[0]
            llo = np.broadcast_to(np.atleast_1d(np.asarray(lin["lower_bounds"], float)), (n,))
            lhi = np.broadcast_to(np.atleast_1d(np.asarray(lin["upper_bounds"], float)), (n,))
            eq = np.abs(lhi - llo) < 1e-15
            v = A @ xu
            sl += [(v - llo)[~eq], (lhi - v)[~eq]]
            vo = np.asarray(vcfg.linear_constraints.coefficients) @ xo
            so += [(vo - np.asarray(vcfg.linear_constraints.lower_bounds))[~eq], (np.asarray(vcfg.linear_constraints.upper_bounds) - vo)[~eq]]
        sl = np.concatenate(sl)
        so = np.concatenate(so)
        sl, so = sl[np.isfinite(sl)], so[np.isfinite(so)]
        if np.any(np.abs(sl) < 1e-7) or np.any(np.abs(so) < 1e-7):
            continue
        probes["feasibility_points_compared"] = probes.get("feasibility_points_compared", 0) + 1
        if bool(np.all(sl > 0)) != bool(np.all(so > 0)):
            viol.append({"clause": "feasibility-not-preserved", "sig": {"linear": lin is not None},
                         "detail": f"user point {xu.tolist()}: feasible={bool(np.all(sl > 0))} under the user's bounds/linear constraints, image {xo.tolist()} feasible={bool(np.all(so > 0))} under the validated transformed ones"})
            return


def _results_list(ctx):
    out = []
    for rec in ctx.events:
        if rec.type == EventType.FINISHED_EVALUATION and rec.results is not None:
            for r in rec.results:
                out.append((rec.n, r))
    return out


def execute(scn: dict) -> dict:
    warnings.simplefilter("ignore")
    viol: list[dict] = []
    probes: dict[str, int] = {}

    def probe(name, n=1):
        probes[name] = probes.get(name, 0) + n

    tr = scn["transforms"]
    nv = len(scn["world"]["var_ids"])
    cfg = scn["configs"][0]
    tm = TransformModel(tr, nv, len(scn["world"]["obj_ids"]), len(scn["world"]["con_ids"]))
    for k, name in (("var", "variable_transform"), ("obj", "objective_transform"), ("con", "constraint_transform")):
        if tr.get(k):
            probe(name)
    if np.any(np.atleast_1d(cfg["gradient"].get("perturbation_types", 1)) == 2):
        probe("relative_perturbation")
    if scn.get("faults"):
        probe("nan_faults")
    path = scn["path"]
    compared = 0
    digest = ""
    if path == "plan":
        plain = copy.deepcopy(scn)
        plain["transforms"] = None
        plain["configs"][0]["optimizer"]["options"]["points"] = [list(p) for p in scn["user_points"]]
        trans = copy.deepcopy(scn)
        trans["configs"][0]["optimizer"]["options"]["points"] = [[float(v) for v in tm.x_to_opt(np.asarray(p, float))] for p in scn["user_points"]]
        a = harness.run_scenario(plain)
        b = harness.run_scenario(trans)
        digest = harness.trace_digest(a) + harness.trace_digest(b)
        ea, eb = (a.exits[0] if a.exits else None), (b.exits[0] if b.exits else None)
        stepvar_bad = False
        if scn.get("subconfig_objects") and a.evaluator.calls and b.evaluator.calls:
            probe("settings_objects_shared_by_two_steps")
        if scn.get("explicit_step_variables") and a.evaluator.calls and b.evaluator.calls:
            probe("explicit_step_variables")
            ra, rb = a.evaluator.calls[0].variables, b.evaluator.calls[0].variables
            if ra.shape != rb.shape or not np.allclose(ra, rb, rtol=1e-9, atol=1e-9):
                stepvar_bad = True
                viol.append({"clause": "explicit-step-variables-not-user-domain", "sig": {},
                             "detail": f"run_step(..., variables={scn['user_points'][0]}): without transforms the evaluator receives {ra[0].tolist()}, "
                                       f"with the variable transform {rb[0].tolist()} (the point is read as an optimizer-domain point)"})
        if stepvar_bad:
            pass
        elif ea is not None and eb is not None and (ea[0] != eb[0] or (ea[0] == "ret" and ea[2] != eb[2])):
            viol.append({"clause": "outcome-differs", "sig": {}, "detail": f"plain run ended {ea}, transformed run {eb}"})
        else:
            compared = _compare_runs(a.evaluator.calls, b.evaluator.calls, _results_list(a), _results_list(b), viol, probes)
        vrec = next((r for r in b.events), None)
        if vrec is not None:
            _feasibility(scn, vrec.config, tm, viol, probes)
        evals, events, fired = len(a.evaluator.calls) + len(b.evaluator.calls), len(a.events) + len(b.events), dict(b.evaluator.fired)
    else:
        probe("basic_dict_path" if path == "basic-dict" else "basic_validated_path")
        runs = []
        for use_t in (False, True):
            ev = SimEvaluator(World(scn["world"]), scn.get("faults"), scn.get("mode"))
            transforms = build_transforms(tr) if use_t else None
            raw = copy.deepcopy(cfg)
            conf = raw
            if path == "basic-validated":
                conf = EnOptConfig.model_validate(raw, context=transforms)
            res = []
            exc = None
            try:
                bo = BasicOptimizer(conf, ev, transforms=transforms)
                bo.set_results_callback(lambda results, res=res: res.extend((len(res), r) for r in results))
                bo.run()
            except Exception as e:  # noqa: BLE001
                exc = f"{type(e).__name__}: {e}"
            runs.append((ev, res, exc, conf if path == "basic-validated" else None))
        (eva, resa, exa, _), (evb, resb, exb, vconf) = runs
        if (exa is None) != (exb is None):
            viol.append({"clause": "outcome-differs", "sig": {"path": path}, "detail": f"plain: {exa}; with transforms: {exb}"})
        else:
            compared = _compare_runs(eva.calls, evb.calls, resa, resb, viol, probes, limit=1)
        if vconf is not None:
            _feasibility(scn, vconf, tm, viol, probes)
        evals, events, fired = len(eva.calls) + len(evb.calls), len(resa) + len(resb), dict(evb.fired)
        digest = digest_bytes(*[c.variables.tobytes() for c in eva.calls + evb.calls], repr((exa, exb)).encode())
    if scn.get("multi_key_filter") and (tr.get("obj") or {}).get("scales"):
        probe("multi_key_filter_with_objective_scaling")
        if viol:
            # one defect with many faces (other realizations selected: values, weights, flags, even the outcome differ)
            viol = [{"clause": "multi-key-filter-ranks-scaled-objectives", "sig": {},
                     "detail": f"filter ranking by several objectives, objective scales {tr['obj']['scales']}: " + viol[0]["detail"]}]
    for v in viol:
        v["sig"]["path"] = path
    return {
        "violations": _dedupe(viol),
        "nontrivial": compared >= 2,
        "key": oracles.scenario_key(scn, (path, str(sorted(k for k, v in tr.items() if v)))),
        "probes": probes,
        "fired": fired,
        "digest": digest,
        "evals": evals,
        "events": events,
        "stratum": scn.get("stratum"),
        "summary": {"compared": compared, "path": path, "transforms": sorted(k for k, v in tr.items() if v)},
    }


def _dedupe(viol):
    seen, out = set(), []
    for v in viol:
        k = (v["clause"], repr(sorted(v["sig"].items())))
        if k not in seen:
            seen.add(k)
            out.append(v)
    return out


def reductions(scn: dict):
    from sim.reduce import generic_reductions

    for c in generic_reductions(scn):
        t = c.get("transforms")
        if t and any(t.get(k) for k in ("var", "obj", "con")) and len(c["world"]["var_ids"]) == len(scn["world"]["var_ids"]):
            yield c
