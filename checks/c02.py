"""C02  Stochastic gradient is exact on affine ensembles and zero on fixed variables.

Affine world f_rj(x) = a_rj.x + b_rj; all built-in samplers and injected designs (identity,
+-, random, deliberately rank deficient), masks, magnitudes, bounds near and far, merged and
per-realization estimation, variable scaling, filters, mean/stddev, NaN failures on
perturbed and unperturbed rows; gradient requests with and without a preceding function
request at the same point."""
from __future__ import annotations

import random

import numpy as np

from sim import gen, harness, model, oracles

PROP = "C02"
LEVEL = "exploration"
COUNT = {"quick": 6000, "thorough": None}
BUDGET = {"quick": 45, "thorough": 600}
CHUNK = 4000
RULE = (
    'Kept-object stratum (index%10==7): one EnsembleEvaluator object answers 2-5 requests (functions / gradient / both) at points that share their free variables and differ in the fixed ones, affine world with a mask. '
    "affine ensembles (index-hashed slopes/offsets; identical realizations in 25% of merged runs); samplers: built-in "
    "norm/uniform/truncnorm/sobol/halton/lhs or inject designs identity/pm/hash/rankdef; shared or per realization; "
    "1-6 perturbations; 2-3 samplers on disjoint variable sets in 25%; masks; absolute/relative magnitudes; boundary types; variable scaling; filters; stddev; NaN "
    "faults on perturbation and unperturbed rows (40% of runs); merge_realizations in 35% of runs. A case is non-trivial "
    "when the conditioning predicate of the statement holds on the reported perturbation matrix for every contributing "
    "realization and a gradient was compared; cases missing it are counted as trivial. distinct = coarse scenario key."
)
ASSUMPTIONS = [
    "rtol 1e-6 on gradients under the conditioning bound",
    "merged estimation is compared only when realizations are identical, or all samplers are shared and no perturbation of a contributing realization failed",
    "stddev gradients are skipped when the standard deviation is < 1e-7 (its derivative is undefined at zero; the library reports zeros within 1e-8 of zero)",
]
COMPONENTS = {
    "real": ["_gradient.py (least squares, merged estimation)", "function estimators", "samplers (built-in)", "EnsembleEvaluator", "VariableScaler"],
    "stub": ["affine world + SimEvaluator", "sim/inject sampler", "sim/scripted optimizer"],
}
PROBES = ["evaluator_object_kept", "several_samplers_with_mask", "gradient_at_near_duplicate_point", "gradients_compared", "merged_compared", "merged_identical", "merged_shared", "ill_conditioned_trivial", "stddev_compared",
          "fixed_entries_checked", "cached_function_path", "weighted_gradient_compared", "with_failed_perturbation",
          "builtin_sampler", "filtered_gradient"]


def _generate_sequence(rng: random.Random) -> dict:
    """One EnsembleEvaluator object kept by the user and asked several times: functions, gradients or both, at points
    that share their free variables and differ in the fixed ones (or differ everywhere, or not at all)."""
    scn = gen.base_scenario(rng, PROP, world_kind="affine", nv=rng.randint(2, 4), nr_max=3, npert_max=5, no_max=2, nc_max=1,
                            merge=False, stddev=False, linear=False, transforms=False, mask=True, filters=False,
                            script_len=1, inject_p=0.6, rms=None, pms=None, step="optimizer", bounds_style="none")
    cfg = scn["configs"][0]
    nv = len(scn["world"]["var_ids"])
    cfg["gradient"]["number_of_perturbations"] = max(cfg["gradient"]["number_of_perturbations"], nv + 1)
    cfg["gradient"].pop("perturbation_min_success", None)
    mask = cfg["variables"].get("mask") or [True] * nv
    x = [float(v) for v in cfg["variables"]["initial_values"]]
    reqs = []
    for _ in range(rng.randint(2, 5)):
        reqs.append({"op": rng.choice(["f", "g", "g", "fg"]), "x": list(x)})
        move = rng.choice(["fixed", "fixed", "none", "all"])
        if move != "none":
            x = [v + (rng.choice([-1, 1]) * round(rng.uniform(0.3, 2.0), 2) if (move == "all" or not mask[i]) else 0.0)
                 for i, v in enumerate(x)]
    scn["requests"] = reqs
    scn["faults"] = []
    scn["entry"] = "evaluator_object_sequence"
    scn["stratum"] = "evaluator-object-kept"
    return scn


def generate(seed: int, index: int, tier: str) -> dict:
    rng = random.Random(seed)
    if index % 10 == 7:
        return _generate_sequence(rng)
    merge = rng.random() < 0.35
    scn = gen.base_scenario(rng, PROP, world_kind="affine", nv_max=4, nr_max=4, npert_max=6, no_max=2, nc_max=2,
                            merge=merge, stddev=(False if merge else None), linear=False,
                            script_len=rng.randint(1, 4), ops=("g", "fg", "f", "fg"), inject_p=0.6,
                            rms=None if rng.random() < 0.5 else "rand", step="optimizer")
    cfg = scn["configs"][0]
    nv = len(scn["world"]["var_ids"])
    if merge:
        cfg["gradient"]["merge_realizations"] = True
        if rng.random() < 0.25:
            scn["world"]["identical"] = True
        if rng.random() < 0.7:
            for s in cfg["samplers"]:
                s["shared"] = True
    s0 = cfg["samplers"][0]
    if s0["method"] == "sim/inject":
        s0["options"]["design"] = rng.choice(["hash", "hash", "identity", "pm", "rankdef"])
        s0["options"]["amp"] = rng.choice([1.0, 1.0, 3.0])
    if nv > 1 and rng.random() < 0.25:
        # several samplers assigned to disjoint variable sets (next to masks: each handles only its free variables)
        ns = rng.choice([2, 2, 3])
        shared_all = all(s.get("shared") for s in cfg["samplers"])
        cfg["samplers"] = []
        for _ in range(ns):
            m = rng.choice(["norm", "uniform", "sim/inject", "sim/inject"])
            smp = {"method": m, "shared": shared_all or rng.random() < 0.4}
            if m == "sim/inject":
                smp["options"] = {"design": "hash", "sseed": rng.getrandbits(20), "amp": rng.choice([1.0, 3.0])}
            cfg["samplers"].append(smp)
        cfg["gradient"]["samplers"] = [rng.randrange(ns) for _ in range(nv)]
        scn["several_samplers"] = True
    # make enough perturbations likely
    if rng.random() < 0.6:
        cfg["gradient"]["number_of_perturbations"] = max(cfg["gradient"]["number_of_perturbations"], nv + rng.randint(0, 2))
        if "perturbation_min_success" in cfg["gradient"]:
            cfg["gradient"]["perturbation_min_success"] = rng.randint(1, cfg["gradient"]["number_of_perturbations"])
    # a gradient request at a point a hair away from the point of the preceding function request
    # (closer than numpy's default allclose tolerances): the function values cached for x must not
    # serve as base values for the gradient at x'
    opts = cfg["optimizer"]["options"]
    script = opts["script"]
    if rng.random() < 0.35:
        new = []
        for e in script:
            new.append(e)
            if e["op"] == "f" and not e.get("batch") and e["pts"][0] >= 0 and rng.random() < 0.7:
                base = opts["points"][e["pts"][0]]
                shift = rng.choice([5e-9, 2e-6, -3e-6])
                near = [v + (shift if abs(shift) < 1e-8 else shift * max(abs(v), 0.1)) for v in base]
                opts["points"].append(near)
                new.append({"op": "g", "pts": [len(opts["points"]) - 1]})
        opts["script"] = new
        scn["near_points"] = True
    if index % 5 in (1, 3):
        gen.add_nan_faults(rng, scn, rate=1.0, max_faults=3)
        scn["stratum"] = "nan-faults"
    else:
        scn["stratum"] = "plain"
    return scn


def execute(scn: dict) -> dict:
    ctx = harness.run_scenario(scn)
    viol: list[dict] = []
    probes: dict[str, int] = {}

    def probe(name, n=1):
        probes[name] = probes.get(name, 0) + n

    compared = 0
    world = ctx.world
    if scn.get("entry") == "evaluator_object_sequence":
        probe("evaluator_object_kept")
        for e in ctx.exits:
            if e[0] != "ret":
                viol.append({"clause": "run-raised", "sig": {"entry": "evaluator-object-kept"}, "detail": f"request {e[1]}: {e}"})
    for ln in oracles.linked_results(ctx):
        if ln.is_function or ln.call is None or ln.rows is None:
            continue
        cfg = ln.cfg
        c = model.cfg_counts(cfg)
        tm = oracles.tm_for(ctx, cfg)
        mask = model.mask_of(cfg)
        if ln.call.kind == "g":
            probe("cached_function_path")
        if scn.get("near_points"):
            probe("gradient_at_near_duplicate_point")
        if cfg["samplers"][0]["method"] != "sim/inject":
            probe("builtin_sampler")
        gr = ln.opt.gradients
        if gr is None:
            continue
        # exact optimizer-domain slopes: d(sign*f/os)/d(x_opt) = sign/os * a * vs
        a = world.slopes()  # (nr, nf, nv) user domain
        fscale = np.concatenate([tm.osign / tm.os, 1.0 / tm.cs]) if c["nc"] else tm.osign / tm.os
        slopes = a * fscale[None, :, None] * tm.vs[None, None, :]
        ref = oracles.gradient_reference(ctx, ln, exact_slopes=slopes[:, :, mask])
        if ref is None:
            continue
        if np.any(ref["p_failed"]):
            probe("with_failed_perturbation")
        allrep = [("o", j, np.asarray(gr.objectives[j], float)) for j in range(c["no"])]
        if c["nc"] and gr.constraints is not None:
            allrep += [("c", j, np.asarray(gr.constraints[j], float)) for j in range(c["nc"])]
        # fixed entries exactly zero
        for kind, j, rep in allrep:
            probe("fixed_entries_checked")
            if np.any(rep[~mask] != 0.0):
                viol.append({"clause": "fixed-variable-gradient-not-zero", "sig": {},
                             "detail": f"eval {ln.call.k} {kind}{j}: gradient {rep.tolist()} mask {mask.tolist()}"})
        if np.any(np.asarray(gr.weighted_objective)[~mask] != 0.0):
            viol.append({"clause": "fixed-variable-gradient-not-zero", "sig": {},
                         "detail": f"eval {ln.call.k} weighted objective gradient {np.asarray(gr.weighted_objective).tolist()}"})
        for kind, j, rep in allrep:
            e = ref["funcs"][(kind, j)]
            if e.get("filtered"):
                probe("filtered_gradient")
            if e["why"] == "ill-conditioned":
                probe("ill_conditioned_trivial")
                continue
            target = e["ref"]
            sig = {"merged": False, "estimator": e.get("est")}
            if e["why"] == "merged":
                wn, G = e["wn"], e["G"]
                contributing = wn > 0
                shared = all(s.get("shared", False) for s in cfg["samplers"])
                uniform = np.allclose(wn[contributing], wn[contributing][0])
                if shared and not np.any(ref["p_failed"][contributing]):
                    probe("merged_shared")
                elif scn["world"].get("identical") and uniform:
                    # (identical realizations with non-uniform weights and their own perturbations are
                    # not compared while the recorded finding C02-merged-scale is open: the same defect
                    # yields an unpredictable number there and could not be told from a new one)
                    probe("merged_identical")
                else:
                    continue
                t = wn @ G
                target = np.zeros(mask.size)
                target[mask] = t
                rc = int(np.count_nonzero(contributing))
                pattern = "other"
                if np.allclose(rep, target, rtol=1e-6, atol=1e-7 * max(1.0, float(np.max(np.abs(target))))):
                    pattern = "exact"
                elif np.allclose(rep * rc, target, rtol=1e-6, atol=1e-7 * max(1.0, float(np.max(np.abs(target))))):
                    pattern = "exact/number-of-contributing-realizations"
                sig = {"merged": True, "pattern": pattern}
                probe("merged_compared")
            if target is None:
                continue
            compared += 1
            probe("gradients_compared")
            if scn.get("several_samplers") and not mask.all():
                probe("several_samplers_with_mask")
            if e.get("est") == "stddev":
                probe("stddev_compared")
            scale = max(1.0, float(np.max(np.abs(target))))
            if not np.allclose(rep, target, rtol=1e-6, atol=1e-7 * scale):
                viol.append({"clause": "gradient-not-exact", "sig": sig,
                             "detail": f"eval {ln.call.k} {kind}{j}: reported {rep.tolist()}, exact {target.tolist()}"})
        # weighted objective gradient = objective-weighted sum of the objective gradients
        ow = model.objective_weights(cfg)
        wref = ow @ np.asarray(gr.objectives, float)
        probe("weighted_gradient_compared")
        if not np.allclose(np.asarray(gr.weighted_objective, float), wref, rtol=1e-9, atol=1e-12, equal_nan=True):
            viol.append({"clause": "weighted-objective-gradient", "sig": {},
                         "detail": f"eval {ln.call.k}: reported {np.asarray(gr.weighted_objective).tolist()}, reference {wref.tolist()}"})

    return {
        "violations": _dedupe(viol),
        "nontrivial": compared > 0,
        "key": oracles.scenario_key(scn, (scn["world"].get("identical"), str(scn["configs"][0]["samplers"][0].get("options", {}).get("design")))),
        "probes": probes,
        "fired": dict(ctx.evaluator.fired),
        "digest": harness.trace_digest(ctx),
        "evals": len(ctx.evaluator.calls),
        "events": len(ctx.events),
        "stratum": scn.get("stratum"),
        "summary": {"exits": oracles.exits_summary(ctx), "compared": compared},
    }


def _dedupe(viol):
    seen, out = set(), []
    for v in viol:
        k = (v["clause"], repr(sorted(v["sig"].items())))
        if k not in seen:
            seen.add(k)
            out.append(v)
    return out


def reductions(scn: dict):
    from sim.reduce import generic_reductions

    for c in generic_reductions(scn):
        if c["world"].get("kind") == "affine":
            yield c
