#!/venv/bin/python
"""False-alarm self-test: apply each behaviour-preserving control (seeded/b*/patch.diff) to a scratch copy of /repo/src and run EVERY claimed check against it; all must exit 0.
Never touches /repo.   usage: selftest/benign_all.py [--only ID[,ID]] [--props C01,C02]"""
from __future__ import annotations

import argparse
import json
import shutil
import subprocess
import sys
import tempfile
import time
from pathlib import Path

ROOT = Path(__file__).resolve().parent.parent
sys.path.insert(0, str(ROOT / "selftest"))
from sensitivity import REPO, run_against  # noqa: E402

PROPS = [f"C{i:02d}" for i in range(1, 21) if i != 18]


def main() -> int:
    ap = argparse.ArgumentParser()
    ap.add_argument("--only")
    ap.add_argument("--props")
    args = ap.parse_args()
    only = set(args.only.split(",")) if args.only else None
    props = args.props.split(",") if args.props else PROPS
    items = []
    # (catalogue entries with expect=clean are property-specific controls - "not this property's business" - and may
    # legitimately trip another property's check; only the behaviour-preserving refactorings are run against everything)
    for d in sorted((ROOT / "seeded").glob("*/meta.json")):
        meta = json.loads(d.read_text())
        if meta.get("expect") == "clean" and d.parent.name.startswith("b") and not meta.get("stale_since"):
            items.append({"id": d.parent.name, "patch": str(d.parent / "patch.diff")})
    bad = 0
    for m in items:
        if only and m["id"] not in only:
            continue
        scratch = Path(tempfile.mkdtemp(prefix="verif-benign-"))
        try:
            shutil.copytree(REPO / "src", scratch / "src")
            if "patch" in m:
                r = subprocess.run(["patch", "-p1", "-d", str(scratch), "-i", m["patch"]], capture_output=True, text=True)
                if r.returncode != 0:
                    print(f"{m['id']}: PATCH DOES NOT APPLY")
                    bad += 1
                    continue
            else:
                f = scratch / "src" / "ropt" / m["file"]
                text = f.read_text()
                if m["old"] not in text:
                    print(f"{m['id']}: OLD TEXT NOT FOUND")
                    bad += 1
                    continue
                f.write_text(text.replace(m["old"], m["new"], 1))
            fails = []
            t0 = time.time()
            for p in props:
                code, out = run_against(scratch / "src", p, "quick")
                if code != 0:
                    fails.append((p, code))
                    print(f"{m['id']} {p}: exit {code}\n" + "\n".join(out.splitlines()[-6:]))
            print(f"{m['id']:>28} checks={len(props)} alarms={fails} {time.time() - t0:6.1f}s", flush=True)
            bad += len(fails)
        finally:
            shutil.rmtree(scratch, ignore_errors=True)
    return 1 if bad else 0


if __name__ == "__main__":
    sys.exit(main())
