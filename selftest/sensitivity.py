#!/venv/bin/python
"""Sensitivity self-test: apply each catalogued mutant (mutants/catalogue.json) or seeded
patch (seeded/<id>/patch.diff) to a scratch copy of /repo/src, run the property's check
against it and expect the stated outcome.  Never touches /repo.

usage: selftest/sensitivity.py [--only ID[,ID]] [--prop Cxx] [--tier quick] [--seeded]
"""
from __future__ import annotations

import argparse
import json
import os
import shutil
import subprocess
import sys
import tempfile
import time
from pathlib import Path

ROOT = Path(__file__).resolve().parent.parent
REPO = Path(os.environ.get("ROPT_REPO", "/repo"))


def run_against(src_root: Path, prop: str, tier: str, budget: str | None = None) -> tuple[int, str]:
    scratch = src_root.parent
    env = dict(os.environ)
    env["PYTHONPATH"] = str(src_root)
    env["ROPT_SRC"] = str(src_root)
    env["VERIF_SKIP_DETERMINISM"] = "1"
    env["VERIF_EVIDENCE_DIR"] = str(scratch / "evidence")
    env["VERIF_REPLAY_DIR"] = str(scratch / "replays")
    if budget:
        env["VERIF_BUDGET_S"] = budget
    proc = subprocess.run([sys.executable, str(ROOT / "check"), prop, "--tier", tier],
                          capture_output=True, text=True, env=env, cwd=ROOT, timeout=3600)
    return proc.returncode, proc.stdout + proc.stderr


def main() -> int:
    ap = argparse.ArgumentParser()
    ap.add_argument("--only")
    ap.add_argument("--prop")
    ap.add_argument("--tier", default="quick")
    ap.add_argument("--seeded", action="store_true")
    ap.add_argument("--budget")
    args = ap.parse_args()
    only = set(args.only.split(",")) if args.only else None
    items = []
    if not args.seeded:
        for m in json.loads((ROOT / "mutants" / "catalogue.json").read_text()):
            items.append(m)
    for d in sorted((ROOT / "seeded").glob("*/meta.json")):
        meta = json.loads(d.read_text())
        if meta.get("stale_since"):
            print(f"{d.parent.name}: skipped (stale: {meta['stale_since'][:60]}...)")
            continue
        items.append({"id": d.parent.name, "property": meta["property"], "patch": str(d.parent / "patch.diff"),
                      "expect": meta.get("expect", "violation")})
    bad = 0
    for m in items:
        if only and m["id"] not in only:
            continue
        if args.prop and m["property"] != args.prop.upper():
            continue
        scratch = Path(tempfile.mkdtemp(prefix=f"ropt-mut-{m['id']}-"))
        try:
            shutil.copytree(REPO / "src", scratch / "src")
            if "revert" in m:
                diff = subprocess.run(["git", "-C", str(REPO), "diff", f"{m['revert']}^", m["revert"], "--", "src"],
                                      capture_output=True, text=True).stdout
                r = subprocess.run(["patch", "-R", "-p1", "-d", str(scratch)], input=diff, capture_output=True, text=True)
                if r.returncode != 0:
                    print(f"{m['id']}: REVERT DOES NOT APPLY\n{r.stdout}{r.stderr}")
                    bad += 1
                    continue
            elif "patch" in m:
                r = subprocess.run(["patch", "-p1", "-d", str(scratch), "-i", m["patch"]], capture_output=True, text=True)
                if r.returncode != 0:
                    print(f"{m['id']}: PATCH DOES NOT APPLY\n{r.stdout}{r.stderr}")
                    bad += 1
                    continue
            else:
                f = scratch / "src" / "ropt" / m["file"]
                text = f.read_text()
                if text.count(m["old"]) < 1:
                    print(f"{m['id']}: OLD TEXT NOT FOUND in {m['file']}")
                    bad += 1
                    continue
                f.write_text(text.replace(m["old"], m["new"], 1))
            t0 = time.time()
            code, out = run_against(scratch / "src", m["property"], args.tier, args.budget)
            expect = m.get("expect", "violation")
            got = {0: "clean", 1: "violation"}.get(code, f"exit{code}")
            ok = got == expect
            clauses = sorted({ln.split("clause=")[1].split(" ")[0] for ln in out.splitlines() if ln.strip().startswith("clause=")})
            print(f"{m['id']:>10} {m['property']} expect={expect:9} got={got:9} {'OK ' if ok else 'MISS'} "
                  f"{time.time() - t0:5.1f}s clauses={clauses}")
            if not ok:
                bad += 1
                print("\n".join(out.splitlines()[-8:]))
        finally:
            shutil.rmtree(scratch, ignore_errors=True)
    return 1 if bad else 0


if __name__ == "__main__":
    sys.exit(main())
