#!/venv/bin/python
"""Kernel conformance self-test: seeded operation sequences on FIFOs are executed on the real
kernel (in a temporary directory) and on the SimKernel; the deterministic part of the observable
results must agree: error kinds (ENXIO, EPIPE, EAGAIN), full vs short writes, the bytes read
(FIFO order, prefix property), EOF, and select readiness in the unambiguous states.

usage: selftest/kernel_conformance.py [count] [seed]"""
from __future__ import annotations

import errno
import os
import random
import selectors
import shutil
import sys
import tempfile
from pathlib import Path

ROOT = Path(__file__).resolve().parent.parent
sys.path.insert(0, str(ROOT))

from sim import kernel as K  # noqa: E402


def gen_ops(rng: random.Random) -> list[tuple]:
    ops = []
    for _ in range(rng.randint(4, 25)):
        c = rng.random()
        if c < 0.15:
            ops.append(("open_r",))
        elif c < 0.3:
            ops.append(("open_w",))
        elif c < 0.55:
            ops.append(("write", rng.choice([1, 10, 100, 4096, 4097, 20000, 70000, 200000])))
        elif c < 0.75:
            ops.append(("read", rng.choice([1, 100, 8192, 65536])))
        elif c < 0.85:
            ops.append(("close_r",))
        elif c < 0.92:
            ops.append(("close_w",))
        else:
            ops.append(("select",))
    return ops


class Real:
    def __init__(self) -> None:
        self.dir = tempfile.mkdtemp(prefix="kconf-")
        self.path = os.path.join(self.dir, "fifo")
        os.mkfifo(self.path)
        self.r: list[int] = []
        self.w: list[int] = []

    def close(self) -> None:
        for fd in self.r + self.w:
            try:
                os.close(fd)
            except OSError:
                pass
        shutil.rmtree(self.dir, ignore_errors=True)

    def open_r(self):
        self.r.append(os.open(self.path, os.O_RDONLY | os.O_NONBLOCK))
        return "ok"

    def open_w(self):
        try:
            self.w.append(os.open(self.path, os.O_WRONLY | os.O_NONBLOCK))
            return "ok"
        except OSError as e:
            return errno.errorcode[e.errno]

    def write(self, data: bytes):
        if not self.w:
            return "nofd"
        try:
            n = os.write(self.w[-1], data)
            return ("full" if n == len(data) else "short", n)
        except OSError as e:
            return errno.errorcode[e.errno]

    def read(self, size: int):
        if not self.r:
            return "nofd"
        try:
            return os.read(self.r[-1], size)
        except OSError as e:
            return errno.errorcode[e.errno]

    def close_r(self):
        if self.r:
            os.close(self.r.pop())
        return "ok"

    def close_w(self):
        if self.w:
            os.close(self.w.pop())
        return "ok"

    def select(self):
        out = {}
        sel = selectors.DefaultSelector()
        if self.r:
            sel.register(self.r[-1], selectors.EVENT_READ)
        if self.w:
            sel.register(self.w[-1], selectors.EVENT_WRITE)
        if self.r or self.w:
            for key, mask in sel.select(0):
                out["r" if key.fd in self.r else "w"] = True
        sel.close()
        return out


class Sim:
    def __init__(self) -> None:
        self.k = K.SimKernel(0, capacity=65536)
        self.p = K.SimProcess(self.k, K.PID_BASE, "parent", 0.0)
        self.path = tempfile.mktemp(prefix="kconf-sim-")
        self.k.fifos[self.path] = K.Fifo(self.path, 65536)
        self.r: list[int] = []
        self.w: list[int] = []

    def close(self) -> None:
        pass

    def open_r(self):
        self.r.append(self.k._open(self.p, self.path, os.O_RDONLY | os.O_NONBLOCK))
        return "ok"

    def open_w(self):
        try:
            self.w.append(self.k._open(self.p, self.path, os.O_WRONLY | os.O_NONBLOCK))
            return "ok"
        except OSError as e:
            return errno.errorcode[e.errno]

    def write(self, data: bytes):
        if not self.w:
            return "nofd"
        try:
            n = self.k._write(self.p, self.w[-1], data)
            return ("full" if n == len(data) else "short", n)
        except OSError as e:
            return errno.errorcode[e.errno]

    def read(self, size: int):
        if not self.r:
            return "nofd"
        data = self.k._read(self.p, self.r[-1], size)
        if data:
            return data
        f = self.k.fifos[self.path]
        return b"" if f.writers == 0 else "EAGAIN"

    def close_r(self):
        if self.r:
            self.k._close(self.p, self.r.pop())
        return "ok"

    def close_w(self):
        if self.w:
            self.k._close(self.p, self.w.pop())
        return "ok"

    def select(self):
        fds = {}
        if self.r:
            fds[self.r[-1]] = K.EVENT_READ
        if self.w:
            fds[self.w[-1]] = K.EVENT_WRITE
        out = {}
        for fd, mask in self.k._ready(self.p, fds):
            out["r" if fd in self.r else "w"] = True
        return out


def run(seed: int) -> list[str]:
    rng = random.Random(seed)
    ops = gen_ops(rng)
    real, sim = Real(), Sim()
    problems = []
    written_r = written_s = b""
    read_r = read_s = b""
    counter = 0
    pending_pages = 0
    ambiguous = False  # after a short write the exact fill level of the real pipe is page-granular
    try:
        for i, op in enumerate(ops):
            if op[0] == "write":
                data = bytes((counter + j) % 251 for j in range(op[1]))
                counter += op[1]
                # the real pipe accounts in pages (a small write may occupy a page of its own), the stub in
                # bytes: once the page-granular worst case could fill the pipe the outcome is ambiguous
                pending_pages = pending_pages + 1 + op[1] // 4096
                if pending_pages >= 15:
                    ambiguous = True
                a, b = real.write(data), sim.write(data)
                ka = a[0] if isinstance(a, tuple) else a
                kb = b[0] if isinstance(b, tuple) else b
                if isinstance(a, tuple):
                    written_r += data[: a[1]]
                if isinstance(b, tuple):
                    written_s += data[: b[1]]
                if ka != kb and not ambiguous:
                    problems.append(f"seed {seed} op {i} {op}: real {a} sim {b}")
                if ka == "short" or kb == "short" or (ka != kb):
                    ambiguous = True
                if isinstance(a, tuple) and isinstance(b, tuple) and a[1] != b[1]:
                    ambiguous = True
            elif op[0] == "read":
                a, b = real.read(op[1]), sim.read(op[1])
                if isinstance(a, bytes):
                    read_r += a
                if isinstance(b, bytes):
                    read_s += b
                if not ambiguous and a != b:
                    problems.append(f"seed {seed} op {i} {op}: real {a if not isinstance(a, bytes) else len(a)} sim {b if not isinstance(b, bytes) else len(b)}")
                if ambiguous and (isinstance(a, bytes) != isinstance(b, bytes)) and not (a == b):
                    # kinds must still agree when both pipes hold data / are empty for sure
                    pass
            elif op[0] == "select":
                a, b = real.select(), sim.select()
                if not ambiguous and a != b:
                    problems.append(f"seed {seed} op {i} select: real {a} sim {b}")
                if a.get("r") != b.get("r") and (len(written_r) - len(read_r) > 0) == (len(written_s) - len(read_s) > 0):
                    problems.append(f"seed {seed} op {i} select readability: real {a} sim {b}")
            else:
                a, b = getattr(real, op[0])(), getattr(sim, op[0])()
                if a != b:
                    problems.append(f"seed {seed} op {i} {op}: real {a} sim {b}")
                if not real.r and not real.w:
                    # last reference gone: the kernel discards what was still buffered
                    written_r = read_r = written_s = read_s = b""
                    ambiguous = False
                    pending_pages = 0
            # FIFO order / prefix property on both
            if not written_r.startswith(read_r) or not written_s.startswith(read_s):
                problems.append(f"seed {seed} op {i}: bytes read are not a prefix of the bytes written")
    finally:
        real.close()
        sim.close()
    return problems


def main() -> int:
    count = int(sys.argv[1]) if len(sys.argv) > 1 else 400
    seed0 = int(sys.argv[2]) if len(sys.argv) > 2 else 0
    bad = []
    for s in range(seed0, seed0 + count):
        bad += run(s)
    print(f"kernel conformance: {count} sequences, {len(bad)} disagreements")
    for b in bad[:10]:
        print("  " + b)
    return 1 if bad else 0


if __name__ == "__main__":
    sys.exit(main())
