"""Secondary C11 observations (see FINDING.txt, sections B, C and D).

B: the "store" handler keeps the optimizer-domain results, so what the user
   reads from it changes when transforms are supplied.
C: the function of a nested plan receives an optimizer-domain point when the
   outer optimizer step has a variable transform.
D: the tracker (and so BasicOptimizer.results) tests the constraint tolerance
   against optimizer-domain violations; with an offsets-only VariableScaler the
   row scaling of the linear constraints alone changes which result is kept.

Each check prints its outcome; exit code 1 if any of them differs.
"""

import sys

import numpy as np

from ropt.evaluator import EvaluatorResult
from ropt.plan import BasicOptimizer, OptimizerContext, Plan
from ropt.transforms import OptModelTransforms, VariableScaler


def evaluator(variables, context):
    shift = 0.1 * context.realizations[:, np.newaxis]
    return EvaluatorResult(
        objectives=((variables - 0.5 - shift) ** 2).sum(axis=1, keepdims=True)
    )


def scaler():
    return OptModelTransforms(
        variables=VariableScaler(np.array([2.0, 4.0, 8.0]), np.array([1.0, 1.0, 1.0]))
    )


CONFIG = {
    "variables": {
        "initial_values": [1.0, 2.0, 3.0],
        "lower_bounds": [0.0, 0.0, 0.0],
        "upper_bounds": [2.5, 10.0, 10.0],
    },
    "gradient": {"number_of_perturbations": 2},
    "optimizer": {"method": "slsqp", "max_functions": 1, "speculative": True},
}


def check_store():
    def run(transforms):
        plan = Plan(OptimizerContext(evaluator=evaluator))
        step = plan.add_step("evaluator")
        store = plan.add_handler("store", sources={step})
        plan.run_step(step, config=CONFIG, transforms=transforms)
        return plan.get(store, "results")[0]

    plain, scaled = run(None), run(scaler())
    same = np.allclose(plain.evaluations.variables, scaled.evaluations.variables)
    print("B store handler: variables", plain.evaluations.variables,
          "vs", scaled.evaluations.variables,
          "| bound_upper", plain.constraint_info.bound_upper,
          "vs", scaled.constraint_info.bound_upper)
    return same


def check_nested():
    def run(transforms):
        context = OptimizerContext(evaluator=evaluator)
        seen = []
        inner = Plan(context)
        inner_step = inner.add_step("evaluator")
        inner_tracker = inner.add_handler(
            "tracker", sources={inner_step}, constraint_tolerance=None
        )

        def nested(plan, variables):
            seen.append(np.array(variables))
            # the nested evaluation needs no scaling of its own:
            plan.run_step(inner_step, config=CONFIG, variables=variables)
            return plan.get(inner_tracker, "results")

        inner.add_function(nested)
        outer = Plan(context)
        outer_step = outer.add_step("optimizer")
        outer.run_step(
            outer_step, config=CONFIG, transforms=transforms, nested_optimization=inner
        )
        return seen[0]

    plain, scaled = run(None), run(scaler())
    print("C nested function argument:", plain, "vs", scaled)
    return np.allclose(plain, scaled)


def check_tracker():
    def run(transforms):
        config = {
            "variables": {"initial_values": [1.0, 1.0 + 1e-7]},
            "linear_constraints": {
                "coefficients": [[1000.0, 1000.0]],
                "lower_bounds": [-np.inf],
                "upper_bounds": [2000.0],
            },
            "gradient": {"number_of_perturbations": 1},
            "optimizer": {"method": "slsqp", "max_functions": 1, "speculative": True},
        }
        return BasicOptimizer(
            config, evaluator, transforms=transforms, constraint_tolerance=1e-6
        ).run().results

    plain = run(None)
    scaled = run(OptModelTransforms(variables=VariableScaler(None, np.array([0.5, 0.5]))))
    print("D BasicOptimizer.results is None:", plain is None, "vs", scaled is None,
          "(user-domain linear violation is 1e-4, tolerance 1e-6)")
    return (plain is None) == (scaled is None)


if __name__ == "__main__":
    outcomes = [check_store(), check_nested(), check_tracker()]
    sys.exit(0 if all(outcomes) else 1)
