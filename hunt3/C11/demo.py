"""C11 counterexample: a configuration that holds a `VariablesConfig` (or
`NonlinearConstraintsConfig`) object is transformed IN PLACE when it is
validated with transforms, so every further use of the same user-domain
configuration is transformed once more.

The same user-domain configuration is used for two consecutive steps of a plan
(an evaluator step, then an optimizer step limited to its first evaluation),
once without and once with scaling transforms. Without transforms both steps
evaluate the configured initial point. With transforms the first step does too,
but the second step hands a different user-domain point (and different perturbed
points) to the evaluator, and reports different variables, function values and
constraint differences/violations.

Exit code 1: property violated (current sources), 0: behaves as stated.
"""

import sys

import numpy as np

from ropt.config.enopt import NonlinearConstraintsConfig, VariablesConfig
from ropt.enums import EventType
from ropt.evaluator import EvaluatorResult
from ropt.plan import OptimizerContext, Plan
from ropt.results import FunctionResults, GradientResults
from ropt.transforms import OptModelTransforms, VariableScaler
from ropt.transforms.base import NonLinearConstraintTransform, ObjectiveTransform


class ObjectiveScaler(ObjectiveTransform):
    def __init__(self, scales):
        self._scales = np.asarray(scales, dtype=np.float64)

    def to_optimizer(self, objectives):
        return objectives / self._scales

    def from_optimizer(self, objectives):
        return objectives * self._scales


class ConstraintScaler(NonLinearConstraintTransform):
    def __init__(self, scales):
        self._scales = np.asarray(scales, dtype=np.float64)

    def bounds_to_optimizer(self, lower_bounds, upper_bounds):
        return lower_bounds / self._scales, upper_bounds / self._scales

    def to_optimizer(self, constraints):
        return constraints / self._scales

    def from_optimizer(self, constraints):
        return constraints * self._scales

    def nonlinear_constraint_diffs_from_optimizer(self, lower_diffs, upper_diffs):
        return lower_diffs * self._scales, upper_diffs * self._scales


def make_config():
    # A plain user-domain configuration. The variables and the non-linear
    # constraints are given as configuration objects, which is accepted
    # wherever a configuration dictionary is accepted.
    return {
        "variables": VariablesConfig(
            initial_values=[1.0, 2.0, 3.0],
            lower_bounds=[0.0, 0.0, 0.0],
            upper_bounds=[2.5, 10.0, 10.0],
        ),
        "nonlinear_constraints": NonlinearConstraintsConfig(
            lower_bounds=[0.0], upper_bounds=[4.0]
        ),
        "linear_constraints": {
            "coefficients": [[1.0, 1.0, 0.0]],
            "lower_bounds": [0.0],
            "upper_bounds": [2.0],
        },
        "realizations": {"weights": [1.0, 1.0]},
        "gradient": {"number_of_perturbations": 2, "perturbation_magnitudes": 0.1},
        "optimizer": {"method": "slsqp", "max_functions": 1, "speculative": True},
    }


def run(transforms):
    calls = []

    def evaluator(variables, context):
        calls.append(variables.copy())
        shift = 0.1 * context.realizations[:, np.newaxis]
        objectives = ((variables - 0.5 - shift) ** 2).sum(axis=1, keepdims=True)
        constraints = (variables[:, :1] + variables[:, 2:]) - shift
        return EvaluatorResult(objectives=objectives, constraints=constraints)

    results = []
    context = OptimizerContext(evaluator=evaluator)
    context.add_observer(
        EventType.FINISHED_EVALUATION,
        lambda event: results.extend(event.data.get("results", ())),
    )
    plan = Plan(context)
    evaluator_step = plan.add_step("evaluator")
    optimizer_step = plan.add_step("optimizer")

    config = make_config()  # one user-domain configuration, used for both steps
    plan.run_step(evaluator_step, config=config, transforms=transforms)
    plan.run_step(optimizer_step, config=config, transforms=transforms)
    return calls, results


def check(name, plain, scaled, errors):
    if plain is None or scaled is None:
        if not (plain is None and scaled is None):
            errors.append(f"{name}: {plain} without transforms, {scaled} with")
        return
    if np.shape(plain) != np.shape(scaled) or not np.allclose(
        plain, scaled, rtol=1e-9, atol=1e-12, equal_nan=True
    ):
        errors.append(
            f"{name}:\n    without transforms: {np.asarray(plain).tolist()}"
            f"\n    with transforms:    {np.asarray(scaled).tolist()}"
        )


def main():
    transforms = OptModelTransforms(
        variables=VariableScaler(np.array([2.0, 4.0, 8.0]), np.array([1.0, 1.0, 1.0])),
        objectives=ObjectiveScaler([10.0]),
        nonlinear_constraints=ConstraintScaler([5.0]),
    )
    calls1, results1 = run(None)
    calls2, results2 = run(transforms)

    errors = []
    if len(calls1) != len(calls2) or len(results1) != len(results2):
        errors.append("different number of evaluations/results")
    for idx, (plain, scaled) in enumerate(zip(calls1, calls2)):
        check(f"vectors passed to the evaluator, call {idx}", plain, scaled, errors)
    for idx, (plain, scaled) in enumerate(zip(results1, results2)):
        tag = f"result {idx}"
        if isinstance(plain, FunctionResults) and isinstance(scaled, FunctionResults):
            check(f"{tag} variables", plain.evaluations.variables,
                  scaled.evaluations.variables, errors)
            check(f"{tag} per-realization objectives", plain.evaluations.objectives,
                  scaled.evaluations.objectives, errors)
            check(f"{tag} per-realization constraints", plain.evaluations.constraints,
                  scaled.evaluations.constraints, errors)
            check(f"{tag} objectives", plain.functions.objectives,
                  scaled.functions.objectives, errors)
            check(f"{tag} constraints", plain.functions.constraints,
                  scaled.functions.constraints, errors)
            for field in (
                "bound_lower", "bound_upper", "linear_lower", "linear_upper",
                "nonlinear_lower", "nonlinear_upper",
                "bound_violation", "linear_violation", "nonlinear_violation",
            ):
                check(f"{tag} constraint_info.{field}",
                      getattr(plain.constraint_info, field),
                      getattr(scaled.constraint_info, field), errors)
        elif isinstance(plain, GradientResults) and isinstance(scaled, GradientResults):
            check(f"{tag} perturbed variables", plain.evaluations.perturbed_variables,
                  scaled.evaluations.perturbed_variables, errors)
            check(f"{tag} perturbed objectives", plain.evaluations.perturbed_objectives,
                  scaled.evaluations.perturbed_objectives, errors)
        else:
            errors.append(f"{tag}: different result types")

    if errors:
        print("C11 VIOLATED: re-using one user-domain configuration gives different")
        print("user-domain behaviour with scaling transforms than without:")
        for item in errors:
            print("  " + item)
        return 1
    print("OK: transforms did not change the user-domain behaviour")
    return 0


if __name__ == "__main__":
    sys.exit(main())
