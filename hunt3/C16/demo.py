"""C16 counterexample: different gradient seeds give bit-identical perturbations.

The property says: "Changing only the seed changes the perturbations."

`gradient.seed` is an `ItemOrTuple[int]`; the documentation of `GradientConfig`
recommends tuples ("use a tuple with a unique ID as the first element, ensuring
reproducibility across nested and parallel plan evaluations"). A natural way to
follow that advice is to derive the seeds of nested/child runs from the seed of
the parent by appending an index: parent (7,), children (7, 0), (7, 1), ...

With the current sources the seeds (7,), (7, 0) and (7, 0, 0) all produce
exactly the same perturbations (and so do 2**32 and (0, 1)): the seed tuple is
handed to numpy.random.default_rng() unchanged, and NumPy's SeedSequence
ignores trailing zero words and flattens big integers into 32-bit words.

Exit code 1: property violated (unmodified sources). Exit code 0: all seeds
that differ give different perturbations.
"""

from __future__ import annotations

import sys
from typing import Any

import numpy as np

from ropt.evaluator import EvaluatorContext, EvaluatorResult
from ropt.plan import BasicOptimizer


def _config(seed: Any, method: str) -> dict[str, Any]:
    return {
        "variables": {"initial_values": [0.0, 0.0, 0.1]},
        "optimizer": {"method": "slsqp", "max_functions": 3},
        "realizations": {"weights": [1.0, 1.0]},
        "gradient": {"number_of_perturbations": 4, "seed": seed},
        "samplers": [{"method": method}],
    }


def _perturbed_requests(seed: Any, method: str) -> list[np.ndarray]:
    """Run an optimization, return all perturbed vectors sent to the evaluator."""
    requests: list[np.ndarray] = []

    def evaluator(
        variables: np.ndarray, context: EvaluatorContext
    ) -> EvaluatorResult:
        if context.perturbations is not None:
            requests.append(variables[context.perturbations >= 0].copy())
        objectives = ((variables - 0.5) ** 2).sum(axis=1, keepdims=True)
        return EvaluatorResult(objectives=objectives)

    BasicOptimizer(_config(seed, method), evaluator).run()
    assert requests, "no gradient evaluation was requested"
    return requests


def _identical(a: list[np.ndarray], b: list[np.ndarray]) -> bool:
    return len(a) == len(b) and all(
        x.shape == y.shape and np.array_equal(x, y) for x, y in zip(a, b)
    )


def main() -> int:
    failures = []
    for method in ("norm", "uniform", "truncnorm", "sobol", "halton", "lhs"):
        # Sanity: same seed is reproducible, an "ordinary" seed change works.
        base = _perturbed_requests((7,), method)
        assert _identical(base, _perturbed_requests((7,), method))
        assert not _identical(base, _perturbed_requests((8,), method))
        assert not _identical(base, _perturbed_requests((7, 1), method))

        # Only the seed is changed in each of these pairs:
        pairs = [
            ((7,), (7, 0)),  # parent seed vs. seed of its first child
            ((7, 0), (7, 0, 0)),  # child vs. grandchild
            (0, (0, 0)),
            (2**32, (0, 1)),
            (7 + 5 * 2**32, (7, 5)),
        ]
        for seed1, seed2 in pairs:
            first = _perturbed_requests(seed1, method)
            second = _perturbed_requests(seed2, method)
            if _identical(first, second):
                failures.append((method, seed1, seed2, first[0][0]))

    if failures:
        print("C16 VIOLATED: changing only gradient.seed did NOT change the")
        print("perturbations (all perturbed vectors of the run are bit-identical):")
        for method, seed1, seed2, sample in failures:
            print(
                f"  sampler {method:9s} seed={seed1!r:12} vs seed={seed2!r:12} "
                f"first perturbed vector {sample}"
            )
        return 1
    print("OK: every seed change changed the perturbations")
    return 0


if __name__ == "__main__":
    sys.exit(main())
