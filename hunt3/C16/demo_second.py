"""C16, second counterexample: re-running a BasicOptimizer (re-used context).

`BasicOptimizer` keeps one `OptimizerContext` for its whole life, and
`BasicOptimizer.run()` registers the callbacks set with `set_results_callback`
/ `set_abort_callback` as observers on that context every time it is called.
A second `run()` of the same object (same configuration, same seed, same
deterministic evaluator, context re-used) therefore

  * reports every results tuple twice: the sequence of results of run 2 is
    [r1, r1, r2, r2, ...] instead of [r1, r2, ...];
  * polls the abort callback twice per evaluation, so that a deterministic
    "stop at the N-th check" callback aborts run 2 after fewer evaluations:
    the evaluator receives a different (shorter) sequence of requests.

Exit code 1: property violated (unmodified sources). Exit code 0: both runs
give identical sequences.
"""

from __future__ import annotations

import sys
from typing import Any

import numpy as np

from ropt.evaluator import EvaluatorContext, EvaluatorResult
from ropt.plan import BasicOptimizer

CONFIG: dict[str, Any] = {
    "variables": {"initial_values": [0.0, 0.0, 0.1]},
    "optimizer": {"method": "slsqp", "max_functions": 6},
    "gradient": {"number_of_perturbations": 3, "seed": 11},
}


class Evaluator:
    def __init__(self) -> None:
        self.requests: list[np.ndarray] = []

    def __call__(
        self, variables: np.ndarray, context: EvaluatorContext
    ) -> EvaluatorResult:
        self.requests.append(variables.copy())
        return EvaluatorResult(
            objectives=((variables - 0.5) ** 2).sum(axis=1, keepdims=True)
        )


def _same(a: list[np.ndarray], b: list[np.ndarray]) -> bool:
    return len(a) == len(b) and all(
        x.shape == y.shape and np.array_equal(x, y) for x, y in zip(a, b)
    )


def check_results() -> list[str]:
    evaluator = Evaluator()
    reported: list[Any] = []
    optimizer = BasicOptimizer(CONFIG, evaluator)
    optimizer.set_results_callback(lambda results: reported.extend(results))

    optimizer.run()
    requests1, results1, code1 = evaluator.requests[:], reported[:], optimizer.exit_code
    evaluator.requests.clear()
    reported.clear()
    np.random.seed(1234)  # the global state must not matter either
    optimizer.run()
    requests2, results2, code2 = evaluator.requests[:], reported[:], optimizer.exit_code

    problems = []
    if not _same(requests1, requests2) or code1 != code2:
        problems.append("evaluator requests / exit codes differ between the runs")
    if len(results1) != len(results2):
        problems.append(
            f"run 1 reported {len(results1)} results, run 2 (same object, same "
            f"config and seed) reported {len(results2)}: "
            f"{[type(r).__name__[0] + str(id(r) % 1000) for r in results2[:6]]}..."
        )
    return problems


def check_abort() -> list[str]:
    evaluator = Evaluator()
    checks = 0

    def stop_at_fourth_check() -> bool:
        nonlocal checks
        checks += 1
        return checks >= 4  # noqa: PLR2004

    optimizer = BasicOptimizer(CONFIG, evaluator)
    optimizer.set_abort_callback(stop_at_fourth_check)

    optimizer.run()
    requests1, code1 = evaluator.requests[:], optimizer.exit_code
    evaluator.requests.clear()
    checks = 0
    optimizer.run()
    requests2, code2 = evaluator.requests[:], optimizer.exit_code

    if not _same(requests1, requests2) or code1 != code2:
        return [
            f"with an abort callback: run 1 made {len(requests1)} evaluator "
            f"requests (exit {code1!r}), run 2 made {len(requests2)} (exit {code2!r})"
        ]
    return []


def main() -> int:
    problems = check_results() + check_abort()
    if problems:
        print("C16 VIOLATED when a BasicOptimizer (and so its context) is re-used:")
        for problem in problems:
            print("  -", problem)
        return 1
    print("OK: both runs are identical")
    return 0


if __name__ == "__main__":
    sys.exit(main())
