"""C04, second counterexample: cvar-constraint on equality and two-sided constraints.

For a constraint with two finite bounds (lower == upper: an equality constraint)
the filter ranks the realizations by max(lower - c, c - upper), computed in
floating point. Values that differ by less than the spacing of floating point
numbers at the magnitude of that distance become equal, and the weights are then
assigned in index order instead of in order of badness. (The same defect was
repaired for one-sided constraints only.)

Exit code 1: property violated (current sources), 0: behaves as specified.
"""

import sys
from fractions import Fraction

import numpy as np

from ropt.evaluator import EvaluatorResult
from ropt.plan import OptimizerContext, Plan


def run(values, lower, upper, percentile):
    values = np.asarray(values, dtype=np.float64)
    config = {
        "variables": {"initial_values": [0.0]},
        "realizations": {"weights": [1.0] * values.size},
        "objectives": {"weights": [1.0]},
        "nonlinear_constraints": {
            "lower_bounds": [lower],
            "upper_bounds": [upper],
            "realization_filters": [0],
        },
        "realization_filters": [
            {
                "method": "cvar-constraint",
                "options": {"sort": 0, "percentile": percentile},
            }
        ],
    }

    def evaluator(variables, context):
        selected = values[context.realizations][:, np.newaxis]
        return EvaluatorResult(objectives=np.ones_like(selected), constraints=selected)

    plan = Plan(OptimizerContext(evaluator=evaluator))
    step = plan.add_step("evaluator")
    store = plan.add_handler("store", sources={step})
    plan.run_step(step, config=config)
    (results,) = plan.get(store, "results")
    return results.realizations.constraint_weights[0], results.functions.constraints[0]


def check(name, values, lower, upper, percentile):
    # Exact badness: the distance beyond (or, negative, inside) the bounds.
    keys = [
        max(Fraction(lower) - Fraction(v), Fraction(v) - Fraction(upper))
        for v in values
    ]
    assert len(set(keys)) == len(keys), "no exact ties in this example"
    size = len(values)
    expected = [Fraction(0)] * size
    remaining = Fraction(percentile)
    for idx in sorted(range(size), key=lambda i: -keys[i]):
        if remaining <= 0:
            break
        expected[idx] = min(Fraction(1, size), remaining)
        remaining -= expected[idx]
    expected_value = float(
        sum(w * Fraction(v) for w, v in zip(expected, values)) / sum(expected)
    )
    weights, value = run(values, lower, upper, percentile)
    if not np.allclose(weights, [float(w) for w in expected], rtol=0, atol=1e-12):
        print(
            f"VIOLATION [{name}]: values {values!r}, bounds [{lower!r}, {upper!r}], "
            f"percentile {percentile!r}:\n"
            f"    weights  {weights.tolist()}\n"
            f"    expected {[float(w) for w in expected]}\n"
            f"    reported constraint value {float(value)!r}, "
            f"CVaR tail mean {expected_value!r}"
        )
        return False
    return True


def main():
    ok = True
    # Equality constraint, 0.3 is farther from 100 than 0.1 + 0.2:
    ok &= check("equality, target 100", [0.1 + 0.2, 0.3], 100.0, 100.0, 0.5)
    # Equality constraint with a large target, 1 is the farthest from it:
    ok &= check("equality, target 1e17", [3.0, 2.0, 1.0], 1e17, 1e17, 1 / 3)
    # Two-sided constraint, all values below the range, 0.3 is the worst:
    ok &= check("range [100, 200]", [0.1 + 0.2, 0.3], 100.0, 200.0, 0.5)
    # Values on both sides of the target: the float distances are equal (99.9),
    # the exact distances of the two floats are not, 199.9 is the farthest:
    ok &= check("equality, both sides", [0.1, 199.9], 100.0, 100.0, 0.5)
    if not ok:
        sys.exit(1)
    print("OK: equality and two-sided constraints are ranked in order of badness")
    sys.exit(0)


if __name__ == "__main__":
    main()
