"""C04 counterexample: the CVaR filter puts mass on a realization outside the tail.

With percentile p = 0.5 (the default of the cvar filters) and 98 successful
realizations, p * n = 49 exactly: the CVaR weights must be 1/98 on the 49 worst
realizations and exactly zero on the other 49. The library gives a 50th
realization (the best of the ones that must be excluded) a weight of 5.55e-17.
Since every realization with a non-zero weight is kept active, that realization
is then also evaluated, with all its perturbations, in the gradient evaluation.

Only the public API is used: an evaluator step of a plan for the weights, and
BasicOptimizer to show which realizations are requested for the gradient.

Exit code 1: property violated (current sources), 0: behaves as specified.
"""

import math
import sys
from fractions import Fraction

import numpy as np

from ropt.evaluator import EvaluatorResult
from ropt.plan import BasicOptimizer, OptimizerContext, Plan
from ropt.results import FunctionResults


def exact_weights(values, failed, percentile):
    """Exact CVaR weights (rational arithmetic), larger value = worse."""
    size = len(values)
    good = [idx for idx in range(size) if not failed[idx]]
    weights = [Fraction(0)] * size
    remaining = Fraction(percentile)  # the exact value of the float
    for idx in sorted(good, key=lambda i: -Fraction(values[i])):
        if remaining <= 0:
            break
        weights[idx] = min(Fraction(1, len(good)), remaining)
        remaining -= weights[idx]
    return weights


def filter_weights(values, percentile, flavour):
    """Run one ensemble evaluation, return the reported weights and value."""
    values = np.asarray(values, dtype=np.float64)
    size = values.size
    config = {
        "variables": {"initial_values": [0.0]},
        "realizations": {"weights": [1.0] * size, "realization_min_success": 1},
        "objectives": {"weights": [1.0]},
    }
    if flavour == "objective":
        config["realization_filters"] = [
            {
                "method": "cvar-objective",
                "options": {"sort": [0], "percentile": percentile},
            }
        ]
        config["objectives"]["realization_filters"] = [0]
    else:
        config["realization_filters"] = [
            {
                "method": "cvar-constraint",
                "options": {"sort": 0, "percentile": percentile},
            }
        ]
        config["nonlinear_constraints"] = {
            "lower_bounds": [-np.inf],
            "upper_bounds": [0.0],
            "realization_filters": [0],
        }

    def evaluator(variables, context):
        selected = values[context.realizations][:, np.newaxis]
        if flavour == "objective":
            return EvaluatorResult(objectives=selected)
        ones = np.where(np.isnan(selected), np.nan, 1.0)
        return EvaluatorResult(objectives=ones, constraints=selected)

    plan = Plan(OptimizerContext(evaluator=evaluator))
    step = plan.add_step("evaluator")
    store = plan.add_handler("store", sources={step})
    plan.run_step(step, config=config)
    (results,) = plan.get(store, "results")
    assert results.functions is not None
    if flavour == "objective":
        return (
            results.realizations.objective_weights[0],
            results.functions.objectives[0],
        )
    return (
        results.realizations.constraint_weights[0],
        results.functions.constraints[0],
    )


def check(size, percentile, failures, flavour, rng):
    values = rng.permutation(size).astype(np.float64)  # distinct, no ties
    failed = np.zeros(size, dtype=np.bool_)
    failed[rng.choice(size, failures, replace=False)] = True
    values[failed] = np.nan
    weights, _ = filter_weights(values, percentile, flavour)
    expected = exact_weights(
        [0.0 if np.isnan(v) else v for v in values], failed, percentile
    )
    successes = size - failures
    support = math.ceil(Fraction(percentile) * successes)
    problems = []
    if np.any(weights < 0):
        problems.append("negative weights")
    if not np.allclose(weights, [float(w) for w in expected], rtol=0, atol=1e-14):
        problems.append("weights differ from the CVaR weights")
    outside = [
        idx for idx in range(size) if expected[idx] == 0 and weights[idx] != 0.0
    ]
    if outside:
        problems.append(
            f"{np.count_nonzero(weights)} realizations have a non-zero weight, "
            f"the tail has only {support}; weight "
            f"{[float(weights[idx]) for idx in outside]} on realization(s) "
            f"{outside} that must have exactly zero weight"
        )
    if problems:
        print(
            f"VIOLATION [{flavour}, n={size}, failed={failures}, "
            f"percentile={percentile!r}]: " + "; ".join(problems)
        )
    return not problems


def gradient_consequence():
    """Count the realizations that are requested in the gradient evaluation."""
    size = 98
    offsets = np.arange(size, dtype=np.float64)
    active_counts = []

    def evaluator(variables, context):
        if context.perturbations is not None and np.all(context.perturbations >= 0):
            active = context.active_objectives
            active_counts.append(
                size if active is None else int(np.count_nonzero(active[0]))
            )
        objectives = (variables**2).sum(axis=1) + offsets[context.realizations]
        return EvaluatorResult(objectives=objectives[:, np.newaxis])

    config = {
        "variables": {"initial_values": [1.0]},
        "realizations": {"weights": [1.0] * size},
        "objectives": {"weights": [1.0], "realization_filters": [0]},
        "realization_filters": [
            {"method": "cvar-objective", "options": {"sort": [0]}}  # p = 0.5
        ],
        "optimizer": {"max_functions": 2},
        "gradient": {"number_of_perturbations": 1},
    }
    collected = []
    BasicOptimizer(config, evaluator).set_results_callback(collected.extend).run()
    assert any(isinstance(item, FunctionResults) for item in collected)
    return active_counts


def main():
    rng = np.random.default_rng(1)
    ok = True
    # Headline: the default percentile, p * n == 49 exactly, no rounding in p:
    ok &= check(98, 0.5, 0, "objective", rng)
    ok &= check(98, 0.5, 0, "constraint", rng)
    # 98 successes out of 100:
    ok &= check(100, 0.5, 2, "objective", rng)
    # Other exactly representable percentiles:
    ok &= check(196, 0.25, 0, "objective", rng)
    ok &= check(196, 0.75, 0, "constraint", rng)
    # A percentile just below 11/49 (one of the "within one ulp" cases):
    ok &= check(49, 11 / 49, 0, "objective", rng)

    counts = gradient_consequence()
    if counts and any(count != 49 for count in counts):
        print(
            "CONSEQUENCE: the gradient evaluation of a CVaR(0.5) objective over "
            f"98 realizations requests {counts[0]} realizations instead of 49"
        )

    if not ok:
        sys.exit(1)
    print("OK: CVaR weights are exactly zero outside the tail")
    sys.exit(0)


if __name__ == "__main__":
    main()
