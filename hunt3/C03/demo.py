"""C03 counterexample: a failed realization changes which of several tied
realizations a realization filter selects.

Each case below evaluates an ensemble once (functions + gradients in a single
SLSQP callback) in two ways:

  (a) the full ensemble, in which some realizations fail (objective 0 is NaN in
      all their evaluations) while realization_min_success = 1, and
  (b) the same ensemble with exactly those realizations removed (same configured
      weights for the others, hence the same weights after renormalization).

Both runs use a shared sampler with the same seed, so the surviving
realizations see exactly the same perturbed variables (this is asserted).  By
property C03 the functions and gradients reported by (a) must equal those of
(b).

A `sort-objective` filter keeps the single realization with the lowest value of
objective 0 and is applied to both objectives.  At the evaluated point x = 0
several realizations have *exactly* the same value of objective 0 (their
targets are mirror images, +t and -t), but they differ in objective 1 and in
their gradients.  Which of the tied realizations the filter keeps depends on
whether the failed realizations are present: in (a) and (b) a different
realization is selected, hence different functions and gradients are reported.

Exit code 1: the property is violated in at least one case (details printed).
Exit code 0: all cases agree.
"""

import sys

import numpy as np

from ropt.evaluator import EvaluatorResult
from ropt.plan import BasicOptimizer
from ropt.results import FunctionResults, GradientResults


def make_evaluator(targets, slopes, realization_ids, failing):
    # Objective 0 of realization r: (x - targets[r])**2
    # Objective 1 of realization r: (x + 1) * slopes[r]
    def evaluator(variables, context):
        objectives = np.zeros((variables.shape[0], 2))
        for idx in range(variables.shape[0]):
            real = realization_ids[context.realizations[idx]]
            x = variables[idx, 0]
            objectives[idx, 0] = (x - targets[real]) ** 2
            objectives[idx, 1] = (x + 1.0) * slopes[real]
            if real in failing:
                objectives[idx, 0] = np.nan
        return EvaluatorResult(objectives=objectives)

    return evaluator


def run(targets, slopes, realization_ids, failing):
    config = {
        "variables": {"initial_values": [0.0]},
        "objectives": {"weights": [1.0, 1.0], "realization_filters": [0, 0]},
        "realizations": {
            "weights": [1.0] * len(realization_ids),
            "realization_min_success": 1,
        },
        "realization_filters": [
            {
                "method": "sort-objective",
                "options": {"sort": [0], "first": 0, "last": 0},
            }
        ],
        # One callback that evaluates the functions and the gradient together:
        "optimizer": {"method": "slsqp", "max_functions": 1, "speculative": True},
        "gradient": {"number_of_perturbations": 3, "perturbation_magnitudes": 0.01},
        "samplers": [{"method": "norm", "shared": True}],
    }
    seen = []
    optimizer = BasicOptimizer(
        config, make_evaluator(targets, slopes, realization_ids, failing)
    )
    optimizer.set_results_callback(lambda results: seen.extend(results))
    optimizer.run()
    functions = next(item for item in seen if isinstance(item, FunctionResults))
    gradients = next(item for item in seen if isinstance(item, GradientResults))
    return functions, gradients


def compare(name, targets, failing):
    targets = np.asarray(targets, dtype=np.float64)
    count = targets.size
    slopes = np.arange(count, dtype=np.float64)
    everything = list(range(count))
    survivors = [real for real in everything if real not in failing]

    full_f, full_g = run(targets, slopes, everything, failing)
    reduced_f, reduced_g = run(targets, slopes, survivors, set())

    # Sanity: exactly the failing realizations are reported as failed, enough
    # realizations succeeded, and functions and gradients are reported.
    expected_failed = np.array([real in failing for real in everything])
    assert np.array_equal(full_f.realizations.failed_realizations, expected_failed)
    assert np.array_equal(full_g.realizations.failed_realizations, expected_failed)
    assert not np.any(reduced_f.realizations.failed_realizations)
    assert full_f.functions is not None
    assert full_g.gradients is not None
    assert reduced_f.functions is not None
    assert reduced_g.gradients is not None
    # Both runs used the same perturbations for the surviving realizations:
    assert np.array_equal(
        full_g.evaluations.perturbed_variables[survivors],
        reduced_g.evaluations.perturbed_variables,
    )
    # ... and therefore got exactly the same values for them:
    assert np.array_equal(
        full_f.evaluations.objectives[survivors], reduced_f.evaluations.objectives
    )

    selected_full = [
        everything[idx]
        for idx in np.flatnonzero(full_f.realizations.objective_weights[0] > 0)
    ]
    selected_reduced = [
        survivors[idx]
        for idx in np.flatnonzero(reduced_f.realizations.objective_weights[0] > 0)
    ]
    same = (
        np.allclose(full_f.functions.objectives, reduced_f.functions.objectives)
        and np.allclose(
            full_f.functions.weighted_objective, reduced_f.functions.weighted_objective
        )
        and np.allclose(full_g.gradients.objectives, reduced_g.gradients.objectives)
        and np.allclose(
            full_g.gradients.weighted_objective, reduced_g.gradients.weighted_objective
        )
    )
    if same:
        print(f"{name}: OK")
        return True
    print(f"{name}: VIOLATION ({count} realizations, failed: {sorted(failing)})")
    lowest = np.flatnonzero(
        np.isclose(targets**2, np.min((targets**2)[survivors]))
        & ~expected_failed
    )
    print(f"  successful realizations that tie on the lowest objective 0: {lowest.tolist()}")
    print("  with the failed realizations present:")
    print(f"    selected realization(s): {selected_full}")
    print(f"    objectives:              {full_f.functions.objectives}")
    print(f"    objective gradients:     {full_g.gradients.objectives[:, 0]}")
    print("  with the failed realizations removed:")
    print(f"    selected realization(s): {selected_reduced}")
    print(f"    objectives:              {reduced_f.functions.objectives}")
    print(f"    objective gradients:     {reduced_g.gradients.objectives[:, 0]}")
    return False


def main() -> int:
    ok = True

    # Five realizations, realization 0 fails. Realizations 3 and 4 tie with
    # the lowest value of objective 0 (0.25), realizations 1 and 2 tie at 1.0.
    ok &= compare("case 1", [0.0, 1.0, -1.0, 0.5, -0.5], {0})

    # Larger ensembles with many ties, a few realizations fail:
    rng = np.random.default_rng(1234)
    for case in range(2, 8):
        count = int(rng.choice([20, 30, 40]))
        targets = rng.choice([0.5, -0.5, 1.0, -1.0, 1.5, -1.5], size=count)
        failing = set(rng.choice(count, size=3, replace=False).tolist())
        ok &= compare(f"case {case}", targets, failing)

    if ok:
        print("failed realizations are excluded exactly as if they were absent")
        return 0
    return 1


if __name__ == "__main__":
    sys.exit(main())
