"""C09 demo: fixed (masked-out) variables.

Two independent checks, both use only the public API:

A. A variable excluded by the mask must reach the evaluator, and appear in
   every reported result, with exactly the starting value given in the
   configuration. With the VariableScaler transform shipped with the library
   it does not: the starting value is converted to the optimizer domain when
   the configuration is validated, and every vector is converted back right
   before it is handed to the evaluator or reported. For a fixed variable the
   round trip ((v - offset) / scale) * scale + offset is not the identity in
   floating point, so the evaluator receives another value than the configured
   one (0.8999999999999999 instead of 0.9 below).

B. The optimization algorithm must only ever see the free variables. The check
   for the constraint types that an algorithm supports looks at the bounds of
   all variables, also of the fixed ones: BFGS (no bound support) refuses a
   problem in which only the fixed variable has bounds, although the algorithm
   would never see that variable or its bounds.

Run `demo.py a` or `demo.py b` to run one of the checks only.
Exit code 1: the property is violated. Exit code 0: it holds.
"""

import sys

import numpy as np

from ropt.evaluator import EvaluatorContext, EvaluatorResult
from ropt.plan import BasicOptimizer
from ropt.results import FunctionResults, GradientResults
from ropt.transforms import OptModelTransforms, VariableScaler

MASK = np.array([True, False, True])
FIXED = ~MASK


def _run(config, transforms, start):  # noqa: ANN001, ANN202
    """Run an optimization, return a list of deviations of the fixed variable."""
    sent: list[np.ndarray] = []
    reported: list = []

    def evaluator(variables: np.ndarray, _: EvaluatorContext) -> EvaluatorResult:
        sent.append(variables.copy())
        return EvaluatorResult(
            objectives=((variables - 1.5) ** 2).sum(axis=1, keepdims=True)
        )

    optimizer = BasicOptimizer(config, evaluator, transforms=transforms)
    optimizer.set_results_callback(lambda results: reported.extend(results))
    optimizer.run()

    problems: list[str] = []

    def check(values: np.ndarray, what: str) -> None:
        fixed_values = np.asarray(values)[..., FIXED]
        wrong = fixed_values[fixed_values != start[FIXED]]
        if wrong.size:
            problems.append(
                f"{what}: fixed variable is {sorted({float(v) for v in wrong})}, "
                f"its starting value is {[float(v) for v in start[FIXED]]}"
            )

    if not sent:
        problems.append("nothing was evaluated")
    for vectors in sent:
        check(vectors, "vectors sent to the evaluator")
    for item in reported:
        if isinstance(item, FunctionResults):
            check(item.evaluations.variables, "FunctionResults.evaluations.variables")
        if isinstance(item, GradientResults):
            check(item.evaluations.variables, "GradientResults.evaluations.variables")
            check(
                item.evaluations.perturbed_variables,
                "GradientResults.evaluations.perturbed_variables",
            )
            if item.gradients is not None and not np.all(
                item.gradients.weighted_objective[FIXED] == 0.0
            ):
                problems.append("gradient entry of the fixed variable is not zero")
    if optimizer.variables is not None:
        check(optimizer.variables, "BasicOptimizer.variables")
    return list(dict.fromkeys(problems))


def check_a() -> bool:
    start = np.array([0.6, 0.9, 1.2])  # the second variable is fixed at 0.9
    config = {
        "variables": {
            "initial_values": start.tolist(),
            "lower_bounds": [0.0, 0.0, 0.0],
            "upper_bounds": [3.0, 3.0, 3.0],
            "mask": MASK.tolist(),
        },
        "optimizer": {"method": "slsqp", "max_functions": 4},
        "gradient": {"number_of_perturbations": 3, "perturbation_magnitudes": 0.01},
    }
    # The usual normalization of variables with bounds [0, 3] to [0, 1]:
    transforms = OptModelTransforms(
        variables=VariableScaler(scales=np.array([3.0, 3.0, 3.0]), offsets=None)
    )
    problems = _run(config, transforms, start)
    if problems:
        print("A: C09 VIOLATED, the fixed variable does not keep its starting value:")
        for line in problems:
            print("   -", line)
        return False
    print("A: ok, the fixed variable kept its starting value everywhere")
    return True


def check_b() -> bool:
    start = np.array([0.6, 0.9, 1.2])
    config = {
        "variables": {
            "initial_values": start.tolist(),
            # Only the fixed variable has bounds, its value lies inside them:
            "lower_bounds": [-np.inf, 0.0, -np.inf],
            "upper_bounds": [np.inf, 3.0, np.inf],
            "mask": MASK.tolist(),
        },
        "optimizer": {"method": "bfgs", "max_functions": 4},
        "gradient": {"number_of_perturbations": 3, "perturbation_magnitudes": 0.01},
    }
    try:
        problems = _run(config, None, start)
    except NotImplementedError as exc:
        print(
            "B: C09 VIOLATED, the algorithm is confronted with the bounds of a "
            f"fixed variable: NotImplementedError: {exc}"
        )
        return False
    if problems:
        print("B: C09 VIOLATED:")
        for line in problems:
            print("   -", line)
        return False
    print("B: ok, BFGS optimized the free variables, the fixed one did not move")
    return True


def main() -> int:
    which = sys.argv[1].lower() if len(sys.argv) > 1 else "ab"
    ok = True
    if "a" in which:
        ok = check_a() and ok
    if "b" in which:
        ok = check_b() and ok
    return 0 if ok else 1


if __name__ == "__main__":
    sys.exit(main())
