"""C06 counterexample: ResultField.to_dict() mislabels the evaluator's values.

The evaluator returns, for every row it is asked for, a value that encodes the
label of that row (realization index, perturbation index) and the objective.
The gradient results that ropt reports are then exported with the public
`to_dict()` helper of the `evaluations` field, keyed by objective name. The
entry `[r, p]` of the exported array of an objective must be the value the
evaluator returned for the row labelled (realization r, perturbation p): the
field has the axes (REALIZATION, PERTURBATION, OBJECTIVE), as `get_axes()`
reports, and `to_dict()` documents its values as "a slice of the field value at
each index" of the key axis.

Exit code 1: a value is reported under the wrong label. Exit code 0: all fine.
"""

import sys

import numpy as np

from ropt.enums import EventType, ResultAxis
from ropt.evaluator import EvaluatorResult
from ropt.plan import OptimizerContext, Plan
from ropt.results import GradientResults

N_REAL = 3
N_PERT = 3  # same as N_REAL: the mislabelling is silent, shapes still "fit"
NAMES = ("f1", "f2")

CONFIG = {
    "variables": {"initial_values": [0.1, 0.2]},
    "objectives": {"weights": [0.5, 0.5]},
    "realizations": {"weights": [1.0] * N_REAL},
    "gradient": {"number_of_perturbations": N_PERT, "perturbation_magnitudes": 0.01},
    "optimizer": {"method": "slsqp", "max_functions": 1, "speculative": True},
}

# What the evaluator returned, by label: (realization, perturbation) -> values
returned: dict[tuple[int, int], np.ndarray] = {}


def evaluator(variables, context):  # noqa: ANN001, ANN201
    objectives = np.zeros((variables.shape[0], len(NAMES)))
    perturbations = (
        np.full(variables.shape[0], -1)
        if context.perturbations is None
        else context.perturbations
    )
    for row, (real, pert) in enumerate(zip(context.realizations, perturbations)):
        real, pert = int(real), int(pert)
        # The value identifies the label: 100 * realization + 10 * perturbation + objective
        base = 100.0 * real + (10.0 * pert if pert >= 0 else 0.5)
        objectives[row] = [base + 1.0, base + 2.0]
        if pert >= 0:
            returned[real, pert] = objectives[row].copy()
    return EvaluatorResult(objectives=objectives)


gradient_results: list[GradientResults] = []


def observer(event) -> None:  # noqa: ANN001
    gradient_results.extend(
        item for item in event.data["results"] if isinstance(item, GradientResults)
    )


def main() -> int:
    context = OptimizerContext(evaluator=evaluator)
    context.add_observer(EventType.FINISHED_EVALUATION, observer)
    plan = Plan(context)
    plan.run_step(plan.add_step("optimizer"), config=CONFIG)
    assert gradient_results, "no gradient results were delivered"
    evaluations = gradient_results[0].evaluations

    # Sanity: the field itself is labelled correctly.
    axes = evaluations.get_axes("perturbed_objectives")
    assert axes == (
        ResultAxis.REALIZATION,
        ResultAxis.PERTURBATION,
        ResultAxis.OBJECTIVE,
    )
    for (real, pert), values in returned.items():
        assert np.array_equal(evaluations.perturbed_objectives[real, pert], values)

    # The export, keyed by objective name (this is also the default axis):
    exported = evaluations.to_dict(
        "perturbed_objectives",
        axis=ResultAxis.OBJECTIVE,
        names={ResultAxis.OBJECTIVE: NAMES},
    )
    errors = []
    for idx, name in enumerate(NAMES):
        values = exported[name]
        if values.shape != (N_REAL, N_PERT):
            errors.append(f"{name}: exported shape {values.shape} != {(N_REAL, N_PERT)}")
            continue
        for (real, pert), expected in returned.items():
            if values[real, pert] != expected[idx]:
                errors.append(
                    f"{name}[realization={real}, perturbation={pert}] is reported as "
                    f"{values[real, pert]}, the evaluator returned {expected[idx]} for "
                    f"that label ({values[real, pert]} is what it returned for "
                    f"realization={pert}, perturbation={real})"
                )
    if errors:
        print("C06 violated: to_dict() reports values under the wrong label:")
        for line in errors[:6]:
            print("  ", line)
        print(f"   ... {len(errors)} mislabelled entries in total")
        return 1
    print("ok: every exported value carries the label of the row it was returned for")
    return 0


if __name__ == "__main__":
    sys.exit(main())
