"""C05 counterexample: a sort filter whose window selects no realization with a
positive weight still produces a gradient when functions and gradients are
requested in two calls (the split evaluation sequence), and that gradient is
built from realizations OUTSIDE the window.

Only the public API is used: EnOptConfig, EnsembleEvaluator, PluginManager,
EvaluatorResult.  Exit code 1 = property violated, 0 = behaves as stated.
"""

import sys

import numpy as np

from ropt.config.enopt import EnOptConfig
from ropt.ensemble_evaluator import EnsembleEvaluator
from ropt.evaluator import EvaluatorResult
from ropt.plugins import PluginManager

X = np.array([0.3])


def make_evaluator(failed):
    failed = np.asarray(failed, dtype=bool)

    def evaluator(variables, context):
        # realization r:  f_r(x) = (r + 1) * x + r   (ascending in r at x=0.3,
        # d f_r / dx = r + 1)
        real = np.asarray(context.realizations)
        objectives = ((real + 1) * variables[:, 0] + real)[:, np.newaxis].astype(float)
        objectives[failed[real], :] = np.nan
        return EvaluatorResult(objectives=objectives)

    return evaluator


def make_config(weights):
    return EnOptConfig.model_validate(
        {
            "variables": {"initial_values": X},
            "realizations": {"weights": weights, "realization_min_success": 1},
            "realization_filters": [
                {
                    "method": "sort-objective",
                    # ranks 1..2 of the successful realizations
                    "options": {"sort": [0], "first": 1, "last": 2},
                }
            ],
            "objectives": {"realization_filters": [0]},
            "gradient": {"number_of_perturbations": 3, "perturbation_magnitudes": 0.01},
        }
    )


def check(name, weights, failed):
    problems = []
    config = make_config(weights)

    # Reference: functions and gradient requested in one call.
    evaluator = EnsembleEvaluator(
        config, None, make_evaluator(failed), PluginManager()
    )
    f_both, g_both = evaluator.calculate(
        X, compute_functions=True, compute_gradients=True
    )
    print(f"[{name}] one call : functions={f_both.functions} gradients={g_both.gradients}")
    if f_both.functions is not None or g_both.gradients is not None:
        problems.append("combined call produced a value")

    # The same request as two calls on one evaluator (what the optimizer does
    # with optimizer.split_evaluations): functions first, then the gradient.
    evaluator = EnsembleEvaluator(
        config, None, make_evaluator(failed), PluginManager()
    )
    (f_split,) = evaluator.calculate(X, compute_functions=True, compute_gradients=False)
    (g_split,) = evaluator.calculate(X, compute_functions=False, compute_gradients=True)
    print(
        f"[{name}] two calls: functions={f_split.functions} "
        f"gradients={g_split.gradients} weights={g_split.realizations.objective_weights}"
    )
    if f_split.functions is not None:
        problems.append("function call produced a value")
    if g_split.gradients is not None:
        problems.append(
            "the window selects no realization with a positive weight, so the "
            "gradient evaluation must end with TOO_FEW_REALIZATIONS (gradients "
            f"None), but it produced {g_split.gradients.objectives.tolist()}, "
            "the gradient of realization 0, which has rank 0 and lies outside "
            "the window [1, 2]"
        )
    return problems


def main():
    problems = []
    # (a) the window [1, 2] only holds realizations with a configured weight of
    #     zero (values ascend with the realization index, no failures):
    problems += check("zero weights", [1.0, 0.0, 0.0], [False, False, False])
    # (b) realizations 1 and 2 failed, only rank 0 exists, the window is empty:
    problems += check("failures", [1.0, 1.0, 1.0], [False, True, True])
    if problems:
        print("PROPERTY VIOLATED:")
        for item in problems:
            print(" -", item)
        return 1
    print("OK")
    return 0


if __name__ == "__main__":
    sys.exit(main())
