"""C15 counterexample: on a re-used BasicOptimizer every event reaches the
observers more than once (twice in the second run, three times in the third).

Only the public API is used. Exit code 1 = property violated, 0 = holds.
"""

import sys

import numpy as np

from ropt.enums import OptimizerExitCode
from ropt.evaluator import EvaluatorResult
from ropt.plan import BasicOptimizer

CONFIG = {
    "variables": {"initial_values": [0.0, 0.1, 0.2]},
    "objectives": {"weights": [1.0]},
    "realizations": {"weights": [1.0]},
    # A gradient-free method: each evaluation is exactly one evaluator call,
    # one START_EVALUATION and one FINISHED_EVALUATION event.
    "optimizer": {"method": "nelder-mead", "max_functions": 4, "options": {}},
}

state = {"evaluator_calls": 0, "abort_consulted": 0, "abort_after": None}
deliveries = []  # one entry per delivery of a FINISHED_EVALUATION event


def evaluator(variables, context):
    state["evaluator_calls"] += 1
    objectives = np.sum((variables - 0.5) ** 2, axis=1, keepdims=True)
    return EvaluatorResult(objectives=objectives)


def results_observer(results):
    # `results` is event.data["results"]: one tuple object per emitted event.
    deliveries.append(results)


def abort_observer():
    # Consulted by the library at every START_EVALUATION event.
    state["abort_consulted"] += 1
    return (
        state["abort_after"] is not None
        and state["abort_consulted"] > state["abort_after"]
    )


def main():
    problems = []

    optimizer = BasicOptimizer(CONFIG, evaluator)
    optimizer.set_results_callback(results_observer)  # registered ONCE
    optimizer.set_abort_callback(abort_observer)  # registered ONCE

    # Part 1: three plain runs of the same object, no abort.
    for run in (1, 2, 3):
        state.update(evaluator_calls=0, abort_consulted=0, abort_after=None)
        deliveries.clear()
        optimizer.run()
        calls = state["evaluator_calls"]
        # Number of deliveries of each individual FINISHED_EVALUATION event:
        per_event = {}
        for item in deliveries:
            per_event[id(item)] = per_event.get(id(item), 0) + 1
        counts = sorted(set(per_event.values()))
        print(
            f"run {run}: exit={optimizer.exit_code.name} evaluations={calls} "
            f"FINISHED_EVALUATION events={len(per_event)} "
            f"deliveries per event={counts} "
            f"START_EVALUATION deliveries={state['abort_consulted']}"
        )
        if len(per_event) != calls:
            problems.append(f"run {run}: {len(per_event)} events for {calls} evaluations")
        if counts != [1]:
            problems.append(
                f"run {run}: a FINISHED_EVALUATION event was delivered {counts} "
                "times to the single results observer (expected exactly once)"
            )
        if state["abort_consulted"] != calls:
            problems.append(
                f"run {run}: {calls} START_EVALUATION events, but the single abort "
                f"observer received {state['abort_consulted']} deliveries"
            )

    # Part 2: consequence at an abort point. The observer raises the abort at
    # the delivery that follows two completed ones, i.e. at the third
    # START_EVALUATION event when events are delivered exactly once: two
    # evaluations must have been completed before the USER_ABORT.
    for run in (4, 5):
        fresh = run == 4
        target = BasicOptimizer(CONFIG, evaluator) if fresh else optimizer
        if fresh:
            target.set_abort_callback(abort_observer)
        state.update(evaluator_calls=0, abort_consulted=0, abort_after=2)
        target.run()
        print(
            f"abort run on {'fresh' if fresh else 're-used'} object: "
            f"exit={target.exit_code.name} evaluations before abort="
            f"{state['evaluator_calls']}"
        )
        if target.exit_code != OptimizerExitCode.USER_ABORT:
            problems.append("abort run did not report USER_ABORT")
        if state["evaluator_calls"] != 2:
            problems.append(
                f"{'fresh' if fresh else 're-used'} object: abort at the third "
                f"START_EVALUATION delivery happened after {state['evaluator_calls']} "
                "evaluations instead of 2"
            )

    if problems:
        print("\nPROPERTY VIOLATED:")
        for item in problems:
            print(" -", item)
        return 1
    print("OK: every event was delivered exactly once to the observers")
    return 0


if __name__ == "__main__":
    sys.exit(main())
