"""C12 counterexample: the tracked 'best' result is not feasible by its own report.

The trackers (and BasicOptimizer) decide feasibility on the optimizer-domain copy
of a result, but hold and report the user-domain result.  As soon as a transform
rescales constraints (a non-linear constraint scaler, or merely the row
normalisation that a VariableScaler applies to linear constraints), the result
held by the tracker reports constraint violations far above the tolerance that
the tracker was given, and it displaces the genuinely feasible optimum.

Exit code 1: property violated (current behaviour).  Exit code 0: all good.
"""

import sys
import warnings

import numpy as np

from ropt.enums import EventType
from ropt.evaluator import EvaluatorResult
from ropt.plan import BasicOptimizer, OptimizerContext, Plan
from ropt.results import FunctionResults
from ropt.transforms import OptModelTransforms, VariableScaler
from ropt.transforms.base import NonLinearConstraintTransform

warnings.filterwarnings("ignore")


class ConstraintScaler(NonLinearConstraintTransform):
    """Plain scaling of the non-linear constraints (same as in the ropt tests)."""

    def __init__(self, scales):
        self._scales = np.asarray(scales, dtype=np.float64)

    def bounds_to_optimizer(self, lower_bounds, upper_bounds):
        return lower_bounds / self._scales, upper_bounds / self._scales

    def to_optimizer(self, constraints):
        return constraints / self._scales

    def from_optimizer(self, constraints):
        return constraints * self._scales

    def nonlinear_constraint_diffs_from_optimizer(self, lower_diffs, upper_diffs):
        return lower_diffs * self._scales, upper_diffs * self._scales


def reported_violation(result):
    """Largest constraint violation that a result reports about itself."""
    info = result.constraint_info
    worst = 0.0
    if info is not None:
        for item in (
            info.bound_violation,
            info.linear_violation,
            info.nonlinear_violation,
        ):
            if item is not None and item.size:
                worst = max(worst, float(np.max(item)))
    return worst


def expected_best(history, tolerance):
    """Oracle: lowest optimizer-domain objective among the results that are
    feasible according to the violations they report."""
    best = None
    for result, transformed in history:
        if not isinstance(result, FunctionResults) or result.functions is None:
            continue
        objective = float(transformed.functions.weighted_objective)
        if np.isnan(objective) or reported_violation(result) > tolerance:
            continue
        if best is None or objective < best[0]:
            best = (objective, result)
    return None if best is None else best[1]


def check(label, held, history, tolerance):
    failures = []
    expected = expected_best(history, tolerance)
    if held is not None and reported_violation(held) > tolerance:
        failures.append(
            f"held result x={held.evaluations.variables} reports a constraint "
            f"violation of {reported_violation(held):g}, tolerance is {tolerance:g}"
        )
    if held is not expected:
        failures.append(
            "held result is not the feasible optimum: held x="
            f"{None if held is None else held.evaluations.variables}, expected x="
            f"{None if expected is None else expected.evaluations.variables}"
        )
    for failure in failures:
        print(f"[{label}] VIOLATION: {failure}")
    if not failures:
        print(f"[{label}] ok")
    return not failures


def evaluator(variables, _context):
    # Objective: squared distance to (1, 1).  Constraint, in user units:
    # 1000 * (x0^2 + x1^2) <= 500.
    objectives = ((variables - 1.0) ** 2).sum(axis=1, keepdims=True)
    constraints = 1000.0 * (variables**2).sum(axis=1, keepdims=True)
    return EvaluatorResult(objectives=objectives, constraints=constraints)


def scenario_scaled_nonlinear_constraint():
    """Evaluator step, three points, constraint scaled by 1000, tolerance 0.01."""
    tolerance = 0.01
    config = {
        "variables": {"initial_values": [0.0, 0.0]},
        "nonlinear_constraints": {"lower_bounds": -np.inf, "upper_bounds": 500.0},
    }
    transforms = OptModelTransforms(nonlinear_constraints=ConstraintScaler([1000.0]))
    history = []
    context = OptimizerContext(evaluator=evaluator)
    context.add_observer(
        EventType.FINISHED_EVALUATION,
        lambda event: history.extend(
            zip(event.data["results"], event.data["transformed_results"])
        ),
    )
    plan = Plan(context)
    step = plan.add_step("evaluator")
    best = plan.add_handler(
        "tracker", what="best", constraint_tolerance=tolerance, sources={step}
    )
    last = plan.add_handler(
        "tracker", what="last", constraint_tolerance=tolerance, sources={step}
    )
    # (0.4, 0.4): c = 320, feasible, f = 0.72
    # (0.5, 0.5): c = 500, feasible, f = 0.50   <- the feasible optimum
    # (0.5, 0.505): c = 505.025, violation 5.025 >> 0.01, f = 0.495025
    points = np.array([[0.4, 0.4], [0.5, 0.5], [0.5, 0.505]])
    plan.run_step(step, config=config, transforms=transforms, variables=points)
    ok = check("best tracker, scaled constraint", plan.get(best, "results"), history, tolerance)
    held_last = plan.get(last, "results")
    if reported_violation(held_last) > tolerance:
        print(
            "[last tracker, scaled constraint] VIOLATION: holds x="
            f"{held_last.evaluations.variables} reporting a violation of "
            f"{reported_violation(held_last):g}, tolerance is {tolerance:g}"
        )
        ok = False
    return ok


def scenario_basic_optimizer():
    """A real optimization through BasicOptimizer, same problem and scaling."""
    tolerance = 0.01
    config = {
        "variables": {"initial_values": [0.0, 0.1]},
        "nonlinear_constraints": {"lower_bounds": -np.inf, "upper_bounds": 500.0},
        "optimizer": {"method": "slsqp", "max_functions": 40, "tolerance": 1e-8},
        "gradient": {"perturbation_magnitudes": 1e-6},
    }
    transforms = OptModelTransforms(nonlinear_constraints=ConstraintScaler([1000.0]))
    history = []
    optimizer = BasicOptimizer(
        config, evaluator, transforms=transforms, constraint_tolerance=tolerance
    )
    optimizer.set_results_callback(
        lambda results, transformed: history.extend(zip(results, transformed)),
        transformed=True,
    )
    optimizer.run()
    return check("BasicOptimizer, scaled constraint", optimizer.results, history, tolerance)


def scenario_identity_variable_scaler():
    """A VariableScaler that changes nothing (scale 1, offset 0) still changes
    which result is tracked, because it normalises the linear constraint rows."""
    tolerance = 0.5

    def linear_evaluator(variables, _context):
        return EvaluatorResult(
            objectives=((variables - 1.0) ** 2).sum(axis=1, keepdims=True)
        )

    config = {
        "variables": {"initial_values": [0.0, 0.0]},
        "linear_constraints": {
            "coefficients": [[100.0, 100.0]],
            "lower_bounds": [-np.inf],
            "upper_bounds": [100.0],
        },
    }
    # (0.5, 0.5): 100 <= 100 feasible, f = 0.5;  (0.6, 0.42): 102, violation 2 > 0.5
    points = np.array([[0.5, 0.5], [0.6, 0.42]])
    held = {}
    ok = True
    for label, transforms in (
        ("no transforms", None),
        (
            "identity VariableScaler",
            OptModelTransforms(variables=VariableScaler(np.ones(2), np.zeros(2))),
        ),
    ):
        history = []
        context = OptimizerContext(evaluator=linear_evaluator)
        context.add_observer(
            EventType.FINISHED_EVALUATION,
            lambda event, history=history: history.extend(
                zip(
                    event.data["results"],
                    event.data.get("transformed_results", event.data["results"]),
                )
            ),
        )
        plan = Plan(context)
        step = plan.add_step("evaluator")
        tracker = plan.add_handler(
            "tracker", constraint_tolerance=tolerance, sources={step}
        )
        plan.run_step(step, config=config, transforms=transforms, variables=points)
        held[label] = plan.get(tracker, "results")
        ok = check(f"linear constraint, {label}", held[label], history, tolerance) and ok
    return ok


def main():
    results = [
        scenario_scaled_nonlinear_constraint(),
        scenario_basic_optimizer(),
        scenario_identity_variable_scaler(),
    ]
    if all(results):
        print("C12 holds in all scenarios")
        return 0
    print("C12 violated")
    return 1


if __name__ == "__main__":
    sys.exit(main())
