"""Secondary observation for C12 (needs Plan.set, so arguably outside the quantified
space): a result put back into a 'best' tracker is compared in the wrong domain.

With a maximization (sign-flipping) objective transform, the tracker rebuilds its
optimizer-domain reference from the user-domain result that was stored with
Plan.set (see _tracker.py, "The stored result may have been reset or replaced"),
so a worse result displaces the restored best one.  Exit 1 = misbehaviour.
"""
import sys
import numpy as np
from ropt.evaluator import EvaluatorResult
from ropt.plan import OptimizerContext, Plan
from ropt.transforms import OptModelTransforms
from ropt.transforms.base import ObjectiveTransform


class Maximize(ObjectiveTransform):
    def to_optimizer(self, objectives):
        return -objectives

    def from_optimizer(self, objectives):
        return -objectives

    def weighted_objective_from_optimizer(self, weighted_objective):
        return -weighted_objective


def evaluator(variables, _context):
    # To be maximized, optimum 10 at x = 0.
    return EvaluatorResult(objectives=10.0 - (variables**2).sum(axis=1, keepdims=True))


transforms = OptModelTransforms(objectives=Maximize())
config = {"variables": {"initial_values": [0.0]}}
plan = Plan(OptimizerContext(evaluator=evaluator))
step = plan.add_step("evaluator")
tracker = plan.add_handler("tracker", sources={step})
plan.run_step(step, config=config, transforms=transforms, variables=[[0.1]])  # 9.99
first = plan.get(tracker, "results")
plan.set(tracker, "results", None)  # documented reset
plan.run_step(step, config=config, transforms=transforms, variables=[[2.0]])  # 6.0
plan.set(tracker, "results", first)  # put the overall best back
plan.run_step(step, config=config, transforms=transforms, variables=[[1.0]])  # 9.0, worse
held = float(plan.get(tracker, "results").functions.weighted_objective)
print("held objective (maximized):", held, "- best delivered by the source: 9.99")
sys.exit(0 if np.isclose(held, 9.99) else 1)
