"""C19 counterexample: plug-in names are not case-insensitive for non-ASCII names.

The plug-in manager normalises names with str.lower().  str.lower() is not a
caseless-matching key (str.casefold() is): a name and its own upper-case
spelling can normalise to two different keys.  Consequently

  * a plug-in registered as ``name`` is not found by ``name.upper() + "/m"``,
  * is_supported disagrees between two spellings that differ only in case,
  * a second registration under the upper-case spelling of an existing name is
    accepted instead of being rejected as a duplicate, after which the plug-in
    returned by 'plugin/method' depends on the case used to spell the name.

Exits 1 on the unmodified sources, 0 if names were really case-insensitive.
"""

from __future__ import annotations

import sys

from ropt.exceptions import ConfigError
from ropt.plugins import Plugin, PluginManager

PLUGIN_TYPES = [
    "optimizer",
    "sampler",
    "realization_filter",
    "function_estimator",
    "plan_handler",
    "plan_step",
]


class Demo(Plugin):
    def __init__(self, tag: str) -> None:
        self.tag = tag

    def is_supported(self, method: str) -> bool:
        return method.lower() == "m"

    def __repr__(self) -> str:
        return f"Demo({self.tag})"


# Each name is all lower case (name == name.lower()); the other spelling is
# simply name.upper(), i.e. the same name in a different case.
NAMES = [
    "aσ",  # 'aσ'  -> upper 'AΣ'; 'AΣ'.lower() == 'aς' (final sigma) != 'aσ'
    "straße",  # 'straße' -> upper 'STRASSE'; lower 'strasse' != 'straße'
]

failures: list[str] = []

for plugin_type in PLUGIN_TYPES:
    for name in NAMES:
        upper = name.upper()
        assert upper != name
        assert upper.casefold() == name.casefold()  # same name, other case

        # 1. lookup by the upper-case spelling of the registered name.
        manager = PluginManager()
        first = Demo("first")
        manager.add_plugin(plugin_type, name, first)  # type: ignore[arg-type]
        assert manager.get_plugin(plugin_type, f"{name}/m") is first  # type: ignore[arg-type]
        try:
            found = manager.get_plugin(plugin_type, f"{upper}/m")  # type: ignore[arg-type]
        except ConfigError as exc:
            failures.append(
                f"[{plugin_type}] registered {name!r}; get_plugin({upper + '/m'!r}) "
                f"raised ConfigError({exc})"
            )
        else:
            if found is not first:
                failures.append(
                    f"[{plugin_type}] get_plugin({upper + '/m'!r}) returned {found!r}"
                )
        if not manager.is_supported(plugin_type, f"{upper}/m"):  # type: ignore[arg-type]
            failures.append(
                f"[{plugin_type}] registered {name!r}; is_supported({upper + '/m'!r}) "
                "is False although the same name in lower case is supported"
            )

        # 2. a registration under the other spelling must be rejected.
        second = Demo("second")
        try:
            manager.add_plugin(plugin_type, upper, second)  # type: ignore[arg-type]
        except ConfigError:
            pass
        else:
            got_lower = manager.get_plugin(plugin_type, f"{name}/m")  # type: ignore[arg-type]
            got_upper = manager.get_plugin(plugin_type, f"{upper}/m")  # type: ignore[arg-type]
            failures.append(
                f"[{plugin_type}] duplicate registration {upper!r} after {name!r} was "
                f"accepted; now {name + '/m'!r} -> {got_lower!r} but "
                f"{upper + '/m'!r} -> {got_upper!r}"
            )

if failures:
    print("C19 violated: plug-in names are not case-insensitive")
    for line in failures:
        print("  " + line)
    sys.exit(1)

print("ok: plug-in names are case-insensitive")
sys.exit(0)
