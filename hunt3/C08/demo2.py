"""Secondary observation for C08 (see FINDING.txt): COBYLA and equality constraints.

The plug-in declares equality constraints unsupported for COBYLA and rejects a
configuration whose constraints are all equalities, but accepts the same equality
as soon as any other entry of the same constraint block is not an equality (even
an unbounded one): the check uses np.allclose over the whole bound vectors.

Exit 1 if the unsupported kind is accepted in the mixed case, 0 if it is rejected.
"""
import sys
import numpy as np
from ropt.config.enopt import EnOptConfig
from ropt.plugins.optimizer.scipy import SciPyOptimizerPlugin

inf = np.inf
def create(block, lower, upper):
    cfg = {"variables": {"initial_values": [0.1, 0.2]},
           "optimizer": {"method": "cobyla", "options": {}}}
    if block == "nonlinear":
        cfg["nonlinear_constraints"] = {"lower_bounds": lower, "upper_bounds": upper}
    else:
        cfg["linear_constraints"] = {"coefficients": np.eye(2)[: len(lower)],
                                     "lower_bounds": lower, "upper_bounds": upper}
    try:
        SciPyOptimizerPlugin().create(EnOptConfig.model_validate(cfg), lambda *a, **k: None)
    except NotImplementedError as exc:
        return f"rejected ({exc})"
    return "ACCEPTED"

bad = 0
for block in ("nonlinear", "linear"):
    for name, lo, hi in [("[eq]", [0.0], [0.0]),
                         ("[eq, unbounded]", [0.0, -inf], [0.0, inf]),
                         ("[eq, lower-only]", [0.0, 0.0], [0.0, inf])]:
        res = create(block, lo, hi)
        print(f"cobyla, {block:9s} {name:18s}: {res}")
        if name != "[eq]" and res == "ACCEPTED":
            bad += 1
sys.exit(1 if bad else 0)
