"""C08 counterexample: with a variable mask, a linear constraint that has a
coefficient on a fixed variable is silently dropped by the SciPy plug-in.

Configured problem (2 variables, x1 is fixed by the mask at its value 0.8):

    minimize (x0 - 2)^2 + (x1 - 1)^2   subject to   x0 + x1 <= 1

Restated on the free variable this is  x0 <= 0.2,  so the solution is x0 = 0.2.
The plug-in hands SciPy *no* constraint at all, for every method.

Part 1 looks at the objects handed to SciPy (scipy.optimize.minimize /
differential_evolution as imported by the plug-in are replaced by recorders) and
compares, for a few test points, "satisfies the configured problem" with
"satisfies what SciPy got".  Part 2 runs a real SLSQP optimization through
BasicOptimizer and checks the point it converges to.

Exit code 1: the property is violated (current sources).
Exit code 0: the handed problem is equivalent to the configured one (or the
configuration is rejected instead of a constraint being dropped).
"""

import sys
import warnings
from unittest import mock

import numpy as np
from scipy.optimize import LinearConstraint, NonlinearConstraint

import ropt.plugins.optimizer.scipy as scipy_plugin
from ropt.config.enopt import EnOptConfig
from ropt.evaluator import EvaluatorResult
from ropt.plan import BasicOptimizer

warnings.simplefilter("ignore")

TARGET = np.array([2.0, 1.0])
INITIAL = np.array([0.0, 0.8])
MASK = np.array([True, False])
COEFFICIENTS = np.array([[1.0, 1.0]])  # x0 + x1
TOL = 1e-9

# (name, lower, upper) of the single linear constraint; three different kinds:
KINDS = [
    ("upper-only  x0 + x1 <= 1", -np.inf, 1.0),
    ("two-sided   0.9 <= x0 + x1 <= 1", 0.9, 1.0),
    ("equality    x0 + x1 == 1", 1.0, 1.0),
]
TEST_POINTS = [-1.0, 0.05, 0.15, 0.2, 0.25, 1.5, 2.0]  # values of the free x0


def make_config(method: str, lower: float, upper: float) -> dict:
    variables = {"initial_values": INITIAL, "mask": MASK}
    if method != "cobyla":  # the plug-in does not accept bounds with COBYLA
        variables.update(lower_bounds=-5.0, upper_bounds=5.0)
    options = {"seed": 1, "popsize": 5} if method == "differential_evolution" else {}
    return {
        "variables": variables,
        "linear_constraints": {
            "coefficients": COEFFICIENTS,
            "lower_bounds": [lower],
            "upper_bounds": [upper],
        },
        "gradient": {"perturbation_magnitudes": 1e-5},
        "optimizer": {"method": method, "options": options, "max_iterations": 50},
    }


def configured_ok(x0: float, lower: float, upper: float, bounded: bool) -> bool:
    full = INITIAL.copy()
    full[MASK] = x0
    value = float(COEFFICIENTS[0] @ full)
    ok = lower - TOL <= value <= upper + TOL
    if bounded:
        ok = ok and -5.0 <= x0 <= 5.0
    return bool(ok)


def handed_ok(captured: dict, x0: float) -> bool:
    x = np.array([x0])
    bounds = captured.get("bounds")
    if bounds is not None and not (np.all(x >= bounds.lb) and np.all(x <= bounds.ub)):
        return False
    for con in captured.get("constraints") or []:
        if isinstance(con, dict):
            value = np.atleast_1d(con["fun"](x))
            if con["type"] == "eq" and np.any(np.abs(value) > TOL):
                return False
            if con["type"] == "ineq" and np.any(value < -TOL):
                return False
        elif isinstance(con, LinearConstraint):
            value = np.atleast_1d(np.asarray(con.A) @ x)
            if np.any(value < con.lb - TOL) or np.any(value > con.ub + TOL):
                return False
        elif isinstance(con, NonlinearConstraint):
            value = np.atleast_1d(con.fun(x))
            if np.any(value < con.lb - TOL) or np.any(value > con.ub + TOL):
                return False
    return True


def plugin_callback(variables, *, return_functions, return_gradients):  # noqa: ANN001, ANN201
    full = INITIAL.copy()
    full[MASK] = variables
    functions = np.array([np.sum((full - TARGET) ** 2)]) if return_functions else None
    gradients = (2 * (full - TARGET))[np.newaxis, MASK] if return_gradients else None
    return functions, gradients


def part1() -> list[str]:
    problems = []
    for method in ("slsqp", "cobyla", "differential_evolution"):
        for name, lower, upper in KINDS:
            if method == "cobyla" and lower == upper:
                continue  # rejected by the plug-in: fine
            captured: dict = {}

            def recorder(**kwargs):  # noqa: ANN003, ANN202
                captured.update(kwargs)

            try:
                config = EnOptConfig.model_validate(make_config(method, lower, upper))
                optimizer = scipy_plugin.SciPyOptimizerPlugin().create(
                    config, plugin_callback
                )
            except (NotImplementedError, ValueError) as exc:
                print(f"[part 1] {method:22s} {name}: rejected ({exc}) -> fine")
                continue
            with (
                mock.patch.object(scipy_plugin, "minimize", recorder),
                mock.patch.object(scipy_plugin, "differential_evolution", recorder),
            ):
                optimizer.start(INITIAL.copy())
            n_handed = len(captured.get("constraints") or [])
            if method == "differential_evolution" and n_handed:
                n_handed = sum(np.atleast_2d(c.A).shape[0] for c in captured["constraints"])
            wrong = []
            for x0 in TEST_POINTS:
                expected = configured_ok(x0, lower, upper, bounded=method != "cobyla")
                if expected != handed_ok(captured, x0):
                    wrong.append(x0)
            status = "MISMATCH" if wrong else "ok"
            print(
                f"[part 1] {method:22s} {name}: {n_handed} linear constraint row(s)/"
                f"function(s) handed to SciPy -> {status}"
            )
            if wrong:
                problems.append(
                    f"{method}, {name}: {n_handed} constraint(s) handed to SciPy; the "
                    f"points x0={wrong} (x1 fixed at 0.8) are infeasible for the "
                    f"configured problem but feasible for what SciPy got, or vice versa"
                )
    return problems


def part2() -> list[str]:
    def evaluator(variables, _context):  # noqa: ANN001, ANN202
        return EvaluatorResult(
            objectives=np.sum((variables - TARGET) ** 2, axis=1, keepdims=True)
        )

    evaluated = []

    def track(results) -> None:  # noqa: ANN001
        evaluated.extend(
            item.evaluations.variables.copy()
            for item in results
            if hasattr(item, "functions")
        )

    try:
        optimizer = BasicOptimizer(make_config("slsqp", -np.inf, 1.0), evaluator)
        optimizer.set_results_callback(track)
        optimizer.run()
    except (NotImplementedError, ValueError) as exc:
        print(f"[part 2] configuration rejected ({exc}) -> fine")
        return []
    last = evaluated[-1]
    best = optimizer.variables
    print(f"[part 2] SLSQP converged to {last}, x0 + x1 = {last.sum():.6f} (limit 1.0)")
    print(f"[part 2] best feasible result kept by the tracker: {best}")
    problems = []
    if last.sum() > 1.0 + 1e-6:
        problems.append(
            f"SLSQP converged to {last} which violates the configured linear "
            f"constraint x0 + x1 <= 1 (value {last.sum():.6f})"
        )
    if best is None or abs(best[0] - 0.2) > 1e-3:
        problems.append(
            f"the optimal result is {best}, expected x0 = 0.2 (the constrained optimum)"
        )
    return problems


def main() -> int:
    problems = part1() + part2()
    if problems:
        print("\nPROPERTY C08 VIOLATED:")
        for problem in problems:
            print("  -", problem)
        return 1
    print("OK: the problem handed to SciPy is equivalent to the configured problem")
    return 0


if __name__ == "__main__":
    sys.exit(main())
