"""C14 counterexample: the stddev estimator and realization_min_success = 0.

The stddev function estimator needs at least two successful realizations. With
realization_min_success = 0 the library reports TOO_FEW_REALIZATIONS when exactly
one realization succeeds (too few for the estimator), but when *no* realization
succeeds - which is even fewer - the step returns the step-finished code with a
NaN function value. So TOO_FEW_REALIZATIONS is not reported although an
evaluation had too few successful realizations for the configured estimator, and
the exit code is not even monotone in the number of failures.

Exits 1 on the unmodified sources, 0 if TOO_FEW_REALIZATIONS is reported for the
evaluation in which every realization fails.
"""

from __future__ import annotations

import sys
import warnings

import numpy as np

from ropt.enums import OptimizerExitCode
from ropt.evaluator import EvaluatorContext, EvaluatorResult
from ropt.plan import OptimizerContext, Plan
from ropt.results import FunctionResults

warnings.filterwarnings("ignore")

REALIZATIONS = 3


class FailingEvaluator:
    """Evaluates sum((x - 0.5 - 0.1 r)^2); fails chosen realizations in one call."""

    def __init__(self, failing_call: int, failing_realizations: set[int]) -> None:
        self.failing_call = failing_call
        self.failing_realizations = failing_realizations
        self.calls = 0

    def __call__(
        self, variables: np.ndarray, context: EvaluatorContext
    ) -> EvaluatorResult:
        call = self.calls
        self.calls += 1
        objectives = np.zeros((variables.shape[0], 1))
        for idx, realization in enumerate(context.realizations):
            objectives[idx, 0] = np.sum((variables[idx] - 0.5 - 0.1 * realization) ** 2)
            if call == self.failing_call and int(realization) in self.failing_realizations:
                objectives[idx, 0] = np.nan
        return EvaluatorResult(objectives=objectives)


def make_config() -> dict:
    return {
        "variables": {
            "initial_values": [0.1, 0.2],
            "lower_bounds": -1.0,
            "upper_bounds": 1.0,
        },
        # A NaN-tolerant method (only used by the optimizer step):
        "optimizer": {
            "method": "differential_evolution",
            "max_iterations": 1,
            "options": {"popsize": 2, "seed": 1},
        },
        "realizations": {
            "weights": [1.0] * REALIZATIONS,
            "realization_min_success": 0,
        },
        "function_estimators": [{"method": "stddev"}],
    }


def run(step_name: str, failing_call: int, n_failed: int):
    evaluator = FailingEvaluator(failing_call, set(range(n_failed)))
    plan = Plan(OptimizerContext(evaluator=evaluator))
    step = plan.add_step(step_name)
    store = plan.add_handler("store", sources={step})
    code = plan.run_step(step, config=make_config())
    results = [
        item for item in plan.get(store, "results") if isinstance(item, FunctionResults)
    ]
    return code, results[failing_call], evaluator.calls


def main() -> int:
    violations = []
    for step_name, failing_call in (("evaluator", 0), ("optimizer", 1)):
        print(f"--- {step_name} step, failures in evaluation {failing_call}")
        codes = {}
        for n_failed in range(REALIZATIONS + 1):
            code, result, calls = run(step_name, failing_call, n_failed)
            codes[n_failed] = code
            value = (
                None if result.functions is None else result.functions.weighted_objective
            )
            print(
                f"  successful realizations: {REALIZATIONS - n_failed}  "
                f"exit code: {code.name:26s} function value: {value}  "
                f"(evaluator calls: {calls})"
            )
        # Sanity: one success is too few for stddev, the library agrees:
        assert codes[REALIZATIONS - 1] == OptimizerExitCode.TOO_FEW_REALIZATIONS
        # Zero successes is also too few for stddev (needs two):
        if codes[REALIZATIONS] != OptimizerExitCode.TOO_FEW_REALIZATIONS:
            violations.append(
                f"{step_name} step: every realization failed in evaluation "
                f"{failing_call}, the stddev estimator needs 2 successful "
                f"realizations, but the exit code is {codes[REALIZATIONS].name} "
                "instead of TOO_FEW_REALIZATIONS (with 1 successful realization "
                "it is TOO_FEW_REALIZATIONS)"
            )
    if violations:
        print("\nVIOLATION of C14:")
        for item in violations:
            print(" -", item)
        return 1
    print("\nOK: TOO_FEW_REALIZATIONS reported whenever the estimator had too few.")
    return 0


if __name__ == "__main__":
    sys.exit(main())
