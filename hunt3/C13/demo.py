"""C13 demo: feasibility is not decided on the reported violations.

The statement of C13 ends with: "a result is treated as feasible iff every
violation is within the tolerance".  The violations of a function result are
the ones the library reports in `results.constraint_info.*_violation`.

The result tracker (and so `BasicOptimizer.results`) does not compare those
reported violations to its `constraint_tolerance`.  When transforms are in use
it compares the violations of the optimizer-domain copy of the result, which
differ from the reported ones by the variable scales, by the non-linear
constraint scales and - for linear constraints - by an extra per-row factor
max|A_row * scales| that `VariableScaler` divides each row by.

Consequences shown here (all with the evaluator step, no optimizer involved):

 case 1  A VariableScaler that is the identity (scales 1, offsets 0) changes
         the verdict: the linear constraint 1000*x <= 1000 is violated by
         5e-4 at x = 1.0000005, far above the tolerance 1e-6.  Without
         transforms the result is rejected, with the identity scaler the very
         same result (identical reported differences and violations) is
         retained as feasible.
 case 2  Bound constraint, VariableScaler(scales=1e4): reported bound
         violation 5e-3 > tolerance 1e-6, retained as feasible.
 case 3  Bound constraint, VariableScaler(scales=1e-4): reported bound
         violation 1e-9 <= tolerance 1e-6, rejected as infeasible.
 case 4  Non-linear constraint with a constraint scaler of 1e4: reported
         violation 5e-3 > tolerance 1e-6, retained as feasible.
 case 5  The same as case 4 through BasicOptimizer(constraint_tolerance=1e-6):
         the "best feasible" result it returns is the infeasible starting
         point, whose own reported violation is 5e-3.

Exit code 1 if any result is classified differently from
"all reported violations <= tolerance", 0 otherwise.
"""

import sys

import numpy as np

from ropt.enums import EventType
from ropt.evaluator import EvaluatorResult
from ropt.plan import BasicOptimizer, OptimizerContext, Plan
from ropt.transforms import OptModelTransforms, VariableScaler
from ropt.transforms.base import NonLinearConstraintTransform

TOL = 1e-6


class ConstraintScaler(NonLinearConstraintTransform):
    """The constraint scaler of the ropt test-suite/documentation."""

    def __init__(self, scales):
        self._scales = scales

    def bounds_to_optimizer(self, lower_bounds, upper_bounds):
        return lower_bounds / self._scales, upper_bounds / self._scales

    def to_optimizer(self, constraints):
        return constraints / self._scales

    def from_optimizer(self, constraints):
        return constraints * self._scales

    def nonlinear_constraint_diffs_from_optimizer(self, lower_diffs, upper_diffs):
        return lower_diffs * self._scales, upper_diffs * self._scales


def evaluator(variables, context):
    nonlinear = context.config.nonlinear_constraints
    return EvaluatorResult(
        objectives=np.sum(variables**2, axis=1, keepdims=True),
        constraints=None if nonlinear is None else variables[:, :1].copy(),
    )


def run(label, config, transforms, user_point):
    """Evaluate one point, return (reported max violation, retained?)."""
    seen = []
    context = OptimizerContext(evaluator=evaluator)
    plan = Plan(context)
    step = plan.add_step("evaluator")
    tracker = plan.add_handler(
        "tracker", what="last", constraint_tolerance=TOL, sources={step}
    )
    # Collect the results as they are reported to the user (user domain):
    context.add_observer(
        EventType.FINISHED_EVALUATION,
        lambda event: seen.extend(event.data.get("results", ())),
    )
    # The step reads `variables` in the optimizer domain (known), convert:
    point = np.asarray(user_point, dtype=np.float64)
    if transforms is not None and transforms.variables is not None:
        point = transforms.variables.to_optimizer(point)
    plan.run_step(step, config=config, transforms=transforms, variables=point)
    (result,) = seen
    info = result.constraint_info
    violations = [
        item
        for item in (
            info.bound_violation,
            info.linear_violation,
            info.nonlinear_violation,
        )
        if item is not None
    ]
    reported = max(float(item.max()) for item in violations)
    retained = plan.get(tracker, "results") is not None
    expected = reported <= TOL
    verdict = "ok" if retained == expected else "WRONG"
    print(
        f"{label}: x = {result.evaluations.variables}, reported max violation "
        f"= {reported:.3e}, tolerance = {TOL:.0e}, treated as feasible = "
        f"{retained}, expected = {expected}  [{verdict}]"
    )
    if retained:
        # The retained result is the reported one, carrying these violations:
        assert plan.get(tracker, "results") is result
    return retained == expected, info


def main():
    ok = True

    # case 1: identity scaler, linear constraint 1000 x <= 1000
    linear = {
        "variables": {"initial_values": [0.0]},
        "linear_constraints": {
            "coefficients": [[1000.0]],
            "lower_bounds": [-np.inf],
            "upper_bounds": [1000.0],
        },
    }
    good0, info0 = run("case 1a (no transforms)      ", linear, None, [1.0000005])
    identity = OptModelTransforms(
        variables=VariableScaler(np.array([1.0]), np.array([0.0]))
    )
    good1, info1 = run("case 1b (identity scaler)    ", linear, identity, [1.0000005])
    same = np.allclose(info0.linear_violation, info1.linear_violation, rtol=1e-6)
    print(f"         reported linear violations identical in 1a and 1b: {same}")
    ok &= good0 and good1

    # case 2/3: bounds and a variable scaler
    bounds = {
        "variables": {
            "initial_values": [0.0, 0.0],
            "lower_bounds": [-np.inf, 0.0],
            "upper_bounds": [1.0, np.inf],
        }
    }
    big = OptModelTransforms(variables=VariableScaler(np.array([1e4, 1e4]), None))
    good, _ = run("case 2  (scales 1e4, bound)  ", bounds, big, [1.005, 0.5])
    ok &= good
    small = OptModelTransforms(variables=VariableScaler(np.array([1e-4, 1e-4]), None))
    good, _ = run("case 3  (scales 1e-4, bound) ", bounds, small, [1.0 + 1e-9, 0.5])
    ok &= good

    # case 4: non-linear constraint x0 <= 1 with a constraint scaler
    nonlinear = {
        "variables": {"initial_values": [0.0, 0.0]},
        "nonlinear_constraints": {"lower_bounds": [-np.inf], "upper_bounds": [1.0]},
    }
    scaler = OptModelTransforms(nonlinear_constraints=ConstraintScaler(np.array([1e4])))
    good, _ = run("case 4  (constraint scaler)  ", nonlinear, scaler, [1.005, 0.5])
    ok &= good

    # case 5: the same through BasicOptimizer: minimize (x0-2)^2 + x1^2 subject
    # to x0 <= 1, starting from the infeasible point x0 = 1.005.
    def objective(variables, context):
        return EvaluatorResult(
            objectives=(
                (variables[:, :1] - 2.0) ** 2 + variables[:, 1:2] ** 2
            ),
            constraints=variables[:, :1].copy(),
        )

    config = {
        "variables": {"initial_values": [1.005, 0.0]},
        "nonlinear_constraints": {"lower_bounds": [-np.inf], "upper_bounds": [1.0]},
        "optimizer": {"method": "slsqp", "max_functions": 20},
    }
    best = (
        BasicOptimizer(
            config, objective, transforms=scaler, constraint_tolerance=TOL
        )
        .run()
        .results
    )
    if best is not None:
        violation = float(best.constraint_info.nonlinear_violation.max())
        good = violation <= TOL
        print(
            f"case 5  (BasicOptimizer)     : best 'feasible' result x = "
            f"{best.evaluations.variables}, its reported violation = "
            f"{violation:.3e}, tolerance = {TOL:.0e}  [{'ok' if good else 'WRONG'}]"
        )
        ok &= good

    if not ok:
        print(
            "FAIL: results are not treated as feasible iff every reported "
            "violation is within the tolerance"
        )
        return 1
    print("OK")
    return 0


if __name__ == "__main__":
    sys.exit(main())
