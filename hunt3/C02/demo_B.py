"""Secondary observation for C02 (related to known finding (1), but not covered
by a plain 1/n scale factor): merged estimation with IDENTICAL realizations,
non-uniform realization weights and a non-shared sampler.

The property promises an exact merged gradient whenever the realizations are
identical. Known finding (1) says the merged gradient is scaled by 1/(number of
contributing realizations). This script therefore only checks the DIRECTION of
the merged gradient: exit 1 if it is not parallel to the exact gradient.
"""

import sys

import numpy as np

from ropt.evaluator import EvaluatorResult
from ropt.plan import BasicOptimizer
from ropt.results import GradientResults

SLOPE = np.array([1.0, -2.0, 0.5])


def evaluator(variables, context):  # all realizations are the same affine function
    return EvaluatorResult(objectives=(variables @ SLOPE + 0.3)[:, None])


def merged_gradient(weights):
    config = {
        "variables": {"initial_values": [0.0, 0.0, 0.0]},
        "realizations": {"weights": weights},
        "gradient": {"number_of_perturbations": 4, "merge_realizations": True, "seed": 3},
        "optimizer": {"method": "scipy/slsqp", "max_functions": 2},
    }
    seen = []
    BasicOptimizer(config, evaluator).set_results_callback(seen.extend).run()
    result = next(item for item in seen if isinstance(item, GradientResults))
    deltas = result.evaluations.perturbed_variables - result.evaluations.variables
    for matrix in deltas:
        sigma2 = np.linalg.svd(matrix, compute_uv=False) ** 2
        assert sigma2.size == 3 and sigma2.min() >= 0.01 * sigma2.sum()
    return result.gradients.objectives[0]


failed = False
for weights in ([1.0, 1.0, 1.0], [0.8, 0.15, 0.05]):
    gradient = merged_gradient(weights)
    ratio = gradient / SLOPE
    parallel = np.allclose(ratio, ratio[0], rtol=1e-6)
    print(f"weights {weights}: merged gradient {gradient}, ratio to exact {ratio}")
    if not parallel:
        failed = True
        print("VIOLATION: not even a multiple of the exact gradient")
sys.exit(1 if failed else 0)
