"""C02 counterexample: with a VariableScaler the gradient of an affine ensemble is
not exact although the reported perturbation design spans the variables well.

Two variables with very different natural ranges (x0 in [0, 1], x1 in [0, 100])
are scaled to [0, 1] with a VariableScaler (scales = [1, 100]). The perturbation
magnitudes are absolute and equal (0.05) for both variables. Every realization is
an affine function of the variables.

The same problem is run twice through the public API (BasicOptimizer, default
results callback), once without and once with the VariableScaler. In both runs
the reported perturbation-difference matrix (perturbed_variables - variables of
the reported GradientResults) is checked against the conditioning bound of the
property, and the reported gradient is compared with the exact gradient of the
ensemble mean. Because the library does not back-transform gradients for
variable transforms, the comparison accepts BOTH conventions: the gradient with
respect to the reported (user) variables, and the gradient with respect to the
scaled (optimizer) variables, i.e. slope * scale.

Exit code 1: the property is violated, 0: it holds, 2: the demo itself is broken.
"""

import sys

import numpy as np

from ropt.evaluator import EvaluatorResult
from ropt.plan import BasicOptimizer
from ropt.results import GradientResults
from ropt.transforms import OptModelTransforms, VariableScaler

# Affine ensemble: f_r(x) = SLOPES[r] . x + OFFSETS[r], two realizations.
SLOPES = np.array([[1.0, 2.0], [3.0, -1.0]])
OFFSETS = np.array([0.5, -0.25])
WEIGHTS = np.array([0.5, 0.5])
SCALES = np.array([1.0, 100.0])
EXACT = WEIGHTS @ SLOPES  # exact gradient of the ensemble mean: [2.0, 0.5]


def evaluator(variables, context):
    realizations = context.realizations
    values = np.einsum("nv,nv->n", SLOPES[realizations], variables)
    return EvaluatorResult(objectives=(values + OFFSETS[realizations])[:, None])


def run(*, scaled):
    transforms = (
        OptModelTransforms(variables=VariableScaler(SCALES, None)) if scaled else None
    )
    config = {
        "variables": {
            "initial_values": [0.5, 50.0],
            "lower_bounds": [0.0, 0.0],
            "upper_bounds": [1.0, 100.0],
        },
        "realizations": {"weights": WEIGHTS.tolist()},
        "gradient": {
            "number_of_perturbations": 6,
            "perturbation_magnitudes": [0.05, 0.05],  # absolute, user units
            "seed": 7,
        },
        "optimizer": {"method": "scipy/slsqp", "max_functions": 2},
    }
    reported = []
    optimizer = BasicOptimizer(config, evaluator, transforms=transforms)
    optimizer.set_results_callback(lambda results: reported.extend(results))
    optimizer.run()
    gradient_results = [item for item in reported if isinstance(item, GradientResults)]
    if not gradient_results or gradient_results[0].gradients is None:
        print("demo broken: no gradient was reported")
        sys.exit(2)
    return gradient_results[0]


def conditioning(result):
    """Smallest squared singular value / total, worst over the realizations."""
    deltas = result.evaluations.perturbed_variables - result.evaluations.variables
    worst = 1.0
    for realization in range(deltas.shape[0]):
        if np.any(np.isnan(result.evaluations.perturbed_objectives[realization])):
            print("demo broken: unexpected failed perturbation")
            sys.exit(2)
        matrix = deltas[realization]
        if np.linalg.matrix_rank(matrix) < matrix.shape[1]:
            return 0.0
        sigma2 = np.linalg.svd(matrix, compute_uv=False) ** 2
        worst = min(worst, sigma2.min() / sigma2.sum())
    return worst


def main():
    failed = False
    for scaled in (False, True):
        result = run(scaled=scaled)
        cond = conditioning(result)
        gradient = result.gradients.objectives[0]
        weighted = result.gradients.weighted_objective
        print(f"--- VariableScaler: {scaled}")
        print(f"reported variables            : {result.evaluations.variables}")
        print(f"sigma_min^2 / sum(sigma^2)    : {cond:.4f}  (bound of the property: 0.01)")
        print(f"reported gradient             : {gradient}")
        print(f"exact gradient (user vars)    : {EXACT}")
        if scaled:
            print(f"exact gradient (scaled vars)  : {EXACT * SCALES}")
        if cond < 0.01:
            print("demo broken: the reported design misses the conditioning bound")
            sys.exit(2)
        candidates = [EXACT] + ([EXACT * SCALES] if scaled else [])
        exact = any(
            np.allclose(gradient, item, rtol=1e-6, atol=1e-9)
            and np.allclose(weighted, item, rtol=1e-6, atol=1e-9)
            for item in candidates
        )
        if exact:
            print("OK: the reported gradient is exact")
        else:
            failed = True
            print(
                "VIOLATION: every realization is affine and the reported "
                "perturbations span the variables well, but the reported gradient "
                "is not the exact gradient of the ensemble mean (in neither the "
                "user nor the scaled variables)"
            )
    sys.exit(1 if failed else 0)


if __name__ == "__main__":
    main()
