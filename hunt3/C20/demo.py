"""C20 counterexample: external-process run != in-process run.

The external plug-in ships the configuration to the optimizer process as JSON
and re-validates it there. That round trip is not faithful:

  case 1: a numpy array inside `optimizer.options` (here the `scale` option of
          SciPy's TNC, which SciPy only accepts as an ndarray) arrives in the
          optimizer process as a plain list -> TNC raises a TypeError there,
          while the in-process run of the very same configuration completes
          normally.
  case 2: a linear-constraints block with zero rows (coefficients of shape
          (0, n), which the configuration classes accept and the in-process
          SLSQP run handles) is dumped as `[]`, which is re-validated as a
          (1, 0) matrix -> the optimizer process dies with a validation error.

Run with:  PYTHONPATH=/tmp/wt14-C20/src /venv/bin/python demo.py
Exit code 1: property violated, exit code 0: in-process == external.
"""

import copy
import os
import sys

import numpy as np

from ropt.evaluator import EvaluatorResult
from ropt.plan import BasicOptimizer
from ropt.results import FunctionResults

# Make sure the runner script of the plug-in can be found:
os.environ["PATH"] = (
    os.path.dirname(sys.executable) + os.pathsep + os.environ.get("PATH", "")
)


def run(config, method):
    config = copy.deepcopy(config)
    config["optimizer"]["method"] = method
    evaluations = []
    results = []

    def evaluator(variables, _context):
        evaluations.append(variables.copy())
        objectives = np.sum((variables - 0.5) ** 2, axis=1, keepdims=True)
        return EvaluatorResult(objectives=objectives)

    def track(items):
        for item in items:
            if isinstance(item, FunctionResults) and item.functions is not None:
                results.append(float(item.functions.weighted_objective))

    optimizer = BasicOptimizer(config, evaluator).set_results_callback(track)
    try:
        optimizer.run()
        outcome = f"finished, exit code {optimizer.exit_code.name}"
    except Exception as exc:  # noqa: BLE001
        outcome = f"raised {type(exc).__name__}: {exc}"
    return evaluations, results, outcome


def compare(title, config, method):
    evals1, results1, outcome1 = run(config, method)
    evals2, results2, outcome2 = run(config, "external/" + method)
    same = (
        outcome1 == outcome2
        and len(evals1) == len(evals2)
        and all(np.array_equal(a, b) for a, b in zip(evals1, evals2, strict=True))
        and results1 == results2
    )
    print(f"--- {title}")
    print(f"  in-process: {len(evals1):3d} evaluator calls, {outcome1}")
    print(f"  external  : {len(evals2):3d} evaluator calls, {outcome2}")
    print("  -> identical" if same else "  -> DIFFERENT (C20 violated)")
    return same


BASE = {
    "variables": {"initial_values": [0.0, 0.0, 0.1]},
    "optimizer": {"tolerance": 1e-4, "max_iterations": 3, "options": {}},
    "gradient": {"perturbation_magnitudes": 0.01},
}

ok = True

# Sanity check: the plain configuration behaves identically in both modes.
ok &= compare("plain TNC (sanity check, must be identical)", BASE, "tnc")

# Case 1: TNC with per-variable scaling factors.
case1 = copy.deepcopy(BASE)
case1["optimizer"]["options"] = {"scale": np.array([1.0, 2.0, 1.0])}
ok &= compare("TNC with options={'scale': ndarray}", case1, "tnc")

# Case 2: SLSQP with a linear-constraints block that has no rows.
case2 = copy.deepcopy(BASE)
case2["linear_constraints"] = {
    "coefficients": np.zeros((0, 3)),
    "lower_bounds": [],
    "upper_bounds": [],
}
ok &= compare("SLSQP with zero-row linear constraints", case2, "slsqp")

if not ok:
    print("FAIL: the external-process run differs from the in-process run")
    sys.exit(1)
print("OK: external-process runs equal in-process runs")
sys.exit(0)
