"""Supplementary observation for C20 (see FINDING.txt, section "Additional observation").

If the host program ignores SIGCHLD (a common way to avoid zombies), the
external plug-in reports a SIGKILLed optimizer process as a normal completion:
subprocess.Popen.poll() then returns 0 for a dead child (ECHILD), and
ExternalOptimizer.start() only looks at that return code.

Run with:  PYTHONPATH=/tmp/wt14-C20/src /venv/bin/python demo_sigchld.py
Exit code 1: a killed optimizer process was reported as OPTIMIZER_STEP_FINISHED.
"""

import os
import signal
import subprocess
import sys
import time

import numpy as np

from ropt.enums import OptimizerExitCode
from ropt.evaluator import EvaluatorResult
from ropt.plan import BasicOptimizer

os.environ["PATH"] = (
    os.path.dirname(sys.executable) + os.pathsep + os.environ.get("PATH", "")
)
signal.signal(signal.SIGCHLD, signal.SIG_IGN)


def optimizer_pids():
    lines = subprocess.run(
        ["pgrep", "-af", "ropt_plugin_optimizer"], capture_output=True, text=True
    ).stdout.splitlines()
    return [int(x.split()[0]) for x in lines if x.strip().endswith(f" {os.getpid()}")]


bad = False
for kill_at in (1, 2, 3):
    count = 0

    def evaluator(variables, _context):
        global count
        count += 1
        if count == kill_at:
            for pid in optimizer_pids():
                os.kill(pid, signal.SIGKILL)
            time.sleep(0.3)
        return EvaluatorResult(
            objectives=np.sum((variables - 0.5) ** 2, axis=1, keepdims=True)
        )

    config = {
        "variables": {"initial_values": [0.0, 0.0, 0.1]},
        "optimizer": {"method": "external/slsqp", "max_iterations": 3, "options": {}},
        "gradient": {"perturbation_magnitudes": 0.01},
    }
    optimizer = BasicOptimizer(config, evaluator)
    try:
        optimizer.run()
        outcome = optimizer.exit_code
    except Exception as exc:  # noqa: BLE001
        outcome = exc
    print(f"optimizer process SIGKILLed during evaluation {kill_at}: {outcome!r}")
    bad |= outcome == OptimizerExitCode.OPTIMIZER_STEP_FINISHED
sys.exit(1 if bad else 0)
