"""C01 counterexample: a NaN that is not a normalized weighted estimate is reported.

Ensemble of three realizations with configured weights [1, 1, 0] (a zero entry)
and `realization_min_success = 1`. The evaluator returns NaN (failure) for the
two weighted realizations and finite values for the zero-weight one, so one
realization succeeded and the library considers that "enough successes".

After giving the failed realizations zero weight, the weights in force are
[0, 0, 0]: they cannot be renormalized to sum to one, so no objective value
that satisfies the property exists. The only property-conforming behaviour is
to report no function values for this evaluation (functions = None /
TOO_FEW_REALIZATIONS), which is what the library does in the comparable cases
(all realizations failed, a filter selecting nothing, stddev with one
realization). Instead it reports objectives = [nan, nan] and weighted
objective = nan as a regular, successful evaluation (0/0 in the weight
normalization), for a single vector and for every vector of a batch, and an
optimizer is fed these NaN values.

Exit code 1: property violated (what happens on the current sources).
Exit code 0: every reported value equals the normalized weighted estimate.
"""

from __future__ import annotations

import sys
import warnings

import numpy as np

from ropt.enums import EventType
from ropt.evaluator import EvaluatorContext, EvaluatorResult
from ropt.plan import BasicOptimizer, OptimizerContext, Plan
from ropt.results import FunctionResults

warnings.simplefilter("ignore")  # hide the 0/0 RuntimeWarning of the library

STATE = {"weights": np.array([1.0, 1.0, 0.0])}  # configured realization weights
OBJECTIVE_WEIGHTS = np.array([1.0, 3.0])
FAILING = (0, 1)  # realizations whose simulation fails


def per_realization(x: np.ndarray, realization: int) -> np.ndarray:
    """The finite values of the two objectives for one realization."""
    return np.array(
        [np.sum((x - realization) ** 2), 10.0 + realization + np.sum(x)], dtype=float
    )


def evaluator(variables: np.ndarray, context: EvaluatorContext) -> EvaluatorResult:
    objectives = np.zeros((variables.shape[0], 2))
    for idx, realization in enumerate(context.realizations):
        if context.active is not None and not context.active[realization]:
            objectives[idx] = 0.0  # not needed: zeros, as documented
        elif realization in FAILING:
            objectives[idx] = np.nan  # failed
        else:
            objectives[idx] = per_realization(variables[idx], realization)
    return EvaluatorResult(objectives=objectives)


def oracle(rows: np.ndarray) -> tuple[np.ndarray, float] | None:
    """Normalized weighted mean, or None if the weights cannot be normalized."""
    failed = np.isnan(rows).any(axis=1)
    weights = np.where(failed, 0.0, STATE["weights"])
    if weights.sum() <= 0.0:
        return None
    weights = weights / weights.sum()
    objectives = np.array(
        [
            sum(weights[r] * rows[r, j] for r in range(rows.shape[0]) if not failed[r])
            for j in range(rows.shape[1])
        ]
    )
    return objectives, float(
        (OBJECTIVE_WEIGHTS / OBJECTIVE_WEIGHTS.sum() * objectives).sum()
    )


def check(results: list[FunctionResults], label: str) -> list[str]:
    problems = []
    for item in results:
        rows = item.evaluations.objectives  # what the evaluator returned
        expected = oracle(rows)
        if item.functions is None:
            continue  # nothing reported: the property holds vacuously
        got_obj = item.functions.objectives
        got_wobj = float(item.functions.weighted_objective)
        if expected is None:
            problems.append(
                f"{label}: x={item.evaluations.variables}: the weights in force "
                f"{np.where(item.realizations.failed_realizations, 0.0, STATE['weights'])} cannot be "
                f"normalized, yet objectives={got_obj} weighted_objective={got_wobj} "
                "are reported as function values"
            )
        elif not (
            np.allclose(got_obj, expected[0], rtol=1e-12, atol=1e-12)
            and np.isclose(got_wobj, expected[1], rtol=1e-12, atol=1e-12)
        ):
            problems.append(
                f"{label}: x={item.evaluations.variables}: reported {got_obj}, "
                f"{got_wobj}; expected {expected}"
            )
    return problems


def main() -> int:
    config = {
        "variables": {"initial_values": [0.5, -0.5]},
        "objectives": {"weights": OBJECTIVE_WEIGHTS.tolist()},
        "realizations": {
            "weights": STATE["weights"].tolist(),
            "realization_min_success": 1,
        },
    }
    problems: list[str] = []

    # 1. The evaluator step, one vector and a batch of vectors:
    for label, variables in (
        ("evaluator step, one vector", [0.5, -0.5]),
        ("evaluator step, batch", [[0.5, -0.5], [1.0, 2.0], [-1.0, 0.0]]),
    ):
        reported: list[FunctionResults] = []
        context = OptimizerContext(evaluator=evaluator).add_observer(
            EventType.FINISHED_EVALUATION,
            lambda event: reported.extend(
                item
                for item in event.data["results"]
                if isinstance(item, FunctionResults)
            ),
        )
        plan = Plan(context)
        step = plan.add_step("evaluator")
        exit_code = plan.run_step(step, config=config, variables=variables)
        print(f"{label}: exit code {exit_code!r}, {len(reported)} result(s)")
        problems += check(reported, label)

    # 2. The same inside an optimization: the NaN values go to the optimizer.
    opt_config = dict(config)
    opt_config["optimizer"] = {"method": "slsqp", "max_functions": 4}
    opt_config["gradient"] = {"perturbation_min_success": 1}
    reported = []
    optimizer = BasicOptimizer(opt_config, evaluator).set_results_callback(
        lambda results: reported.extend(
            item for item in results if isinstance(item, FunctionResults)
        )
    )
    optimizer.run()
    print(f"optimizer: exit code {optimizer.exit_code!r}, {len(reported)} result(s)")
    problems += check(reported, "optimizer step")

    # 3. Control: with a positive weight on the surviving realization the same
    #    oracle agrees with the library, so the oracle itself is sound.
    STATE["weights"] = np.array([1.0, 1.0, 0.25])
    control = dict(config)
    control["realizations"] = {
        "weights": STATE["weights"].tolist(),
        "realization_min_success": 1,
    }
    reported = []
    context = OptimizerContext(evaluator=evaluator).add_observer(
        EventType.FINISHED_EVALUATION,
        lambda event: reported.extend(event.data["results"]),
    )
    plan = Plan(context)
    plan.run_step(plan.add_step("evaluator"), config=control, variables=[0.5, -0.5])
    control_problems = check(reported, "control")
    assert reported[0].functions is not None
    assert not control_problems, control_problems
    print("control (surviving realization has weight 0.25): OK", reported[0].functions)

    if problems:
        print("\nPROPERTY C01 VIOLATED:")
        for line in problems:
            print("  -", line)
        return 1
    print("\nall reported values equal the normalized weighted estimate")
    return 0


if __name__ == "__main__":
    sys.exit(main())
