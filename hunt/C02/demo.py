"""C02 counterexample: a fixed variable that lies outside its bounds is moved by
the perturbation boundary handling, which corrupts the gradient of the FREE
variables of an affine ensemble, although the reported perturbations of the
free variables are perfectly conditioned.

Run:  PYTHONPATH=src python demo.py
Exit code 1 = property violated (current sources), 0 = property holds.
"""

from __future__ import annotations

import sys

import numpy as np

from ropt.evaluator import EvaluatorContext, EvaluatorResult
from ropt.plan import BasicOptimizer
from ropt.results import GradientResults

# An affine ensemble: 2 realizations, 1 objective + 1 constraint, 3 variables.
RNG = np.random.default_rng(2024)
SLOPES = RNG.normal(size=(2, 2, 3))  # (realization, function, variable)
OFFSETS = RNG.normal(size=(2, 2))
WEIGHTS = np.array([0.25, 0.75])
MASK = np.array([True, True, False])  # the third variable is fixed


def evaluator(variables: np.ndarray, context: EvaluatorContext) -> EvaluatorResult:
    values = np.array(
        [
            SLOPES[realization] @ variables[idx] + OFFSETS[realization]
            for idx, realization in enumerate(context.realizations)
        ]
    )
    return EvaluatorResult(objectives=values[:, :1], constraints=values[:, 1:])


def first_gradient(initial_values: list[float]) -> GradientResults:
    config = {
        "variables": {
            "initial_values": initial_values,
            "lower_bounds": 0.0,  # broadcast to all variables
            "upper_bounds": 1.0,
            "mask": MASK.tolist(),
        },
        "realizations": {"weights": WEIGHTS.tolist()},
        "nonlinear_constraints": {"lower_bounds": [-1e3], "upper_bounds": [1e3]},
        "gradient": {"number_of_perturbations": 6, "perturbation_magnitudes": 0.05},
        "optimizer": {"method": "slsqp", "max_functions": 3},
    }
    found: list[GradientResults] = []

    def callback(results: tuple) -> None:
        found.extend(item for item in results if isinstance(item, GradientResults))

    BasicOptimizer(config, evaluator).set_results_callback(callback).run()
    return found[0]


def check(label: str, initial_values: list[float]) -> bool:
    result = first_gradient(initial_values)
    assert result.gradients is not None
    x = result.evaluations.variables
    diffs = result.evaluations.perturbed_variables - x  # (realization, pert, var)

    # Precondition of the property: the reported perturbation differences of
    # the free variables are full rank and well conditioned, per realization.
    for realization in range(2):
        sigma2 = np.linalg.svd(diffs[realization][:, MASK], compute_uv=False) ** 2
        ratio = sigma2.min() / sigma2.sum()
        assert sigma2.size == MASK.sum()
        assert ratio >= 0.01, ratio
        print(f"  [{label}] realization {realization}: min sigma^2 / total = {ratio:.3f}")

    mean_slopes = np.tensordot(WEIGHTS / WEIGHTS.sum(), SLOPES, axes=1)  # (func, var)
    exact = np.where(MASK, mean_slopes, 0.0)
    reported = np.vstack((result.gradients.objectives, result.gradients.constraints))
    print(f"  [{label}] reported fixed variable in perturbations:",
          np.unique(result.evaluations.perturbed_variables[..., ~MASK]),
          "unperturbed:", x[~MASK])
    print(f"  [{label}] exact gradient    :", exact.round(6).tolist())
    print(f"  [{label}] reported gradient :", reported.round(6).tolist())
    ok = bool(np.allclose(reported, exact, rtol=1e-6, atol=1e-8))
    ok &= bool(np.all(reported[:, ~MASK] == 0.0))
    ok &= bool(
        np.allclose(
            result.gradients.weighted_objective,
            result.gradients.objectives[0],
            rtol=0,
            atol=1e-12,
        )
    )
    return ok


def main() -> int:
    print("control: fixed variable inside its bounds [0, 1]")
    control_ok = check("control", [0.4, 0.6, 0.7])
    print("case: fixed variable (value 2.0) outside its bounds [0, 1]")
    case_ok = check("case", [0.4, 0.6, 2.0])
    if not control_ok:
        print("UNEXPECTED: the control case is not exact")
        return 1
    if not case_ok:
        print(
            "VIOLATION: affine ensemble, well-conditioned reported perturbations of "
            "the free variables, yet the reported gradient differs from the exact "
            "gradient: the fixed variable was mirrored/truncated into its bounds "
            "in the perturbed evaluations only."
        )
        return 1
    print("OK: gradient is exact in both cases")
    return 0


if __name__ == "__main__":
    sys.exit(main())
