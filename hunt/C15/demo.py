"""C15 counterexamples: event delivery and abort latching.

Usage: demo.py [A|B]   (default: run both checks)

Check A (single optimizer step, one handler raises the user abort at event
index k, for every k): every event, including the one at which the abort is
raised, must be delivered exactly once to each handler of the plan and then
to the observers, so every receiver sees the same well-bracketed stream
(START_OPTIMIZER_STEP first, FINISHED_OPTIMIZER_STEP last).

Check B (nested plan whose function is a sequential two-step plan, user abort
raised by an observer at event index k / by the evaluator in call e, for every
k and e): the outer step must report USER_ABORT, emit its
FINISHED_OPTIMIZER_STEP, the outer (parent) plan must be marked aborted and
refuse any further step.

Only the public API is used. Exits 1 if the property is violated, 0 otherwise.
"""

from __future__ import annotations

import sys
from typing import Any

import numpy as np

from ropt.enums import EventType, OptimizerExitCode
from ropt.evaluator import EvaluatorContext, EvaluatorResult
from ropt.exceptions import OptimizationAborted, PlanAborted
from ropt.plan import Event, OptimizerContext, Plan
from ropt.plugins import PluginManager
from ropt.plugins.plan.base import PlanHandlerPlugin, ResultHandler

START_STEP = (EventType.START_OPTIMIZER_STEP, EventType.START_EVALUATOR_STEP)
FINISHED_STEP = (EventType.FINISHED_OPTIMIZER_STEP, EventType.FINISHED_EVALUATOR_STEP)


def abort() -> None:
    raise OptimizationAborted(exit_code=OptimizerExitCode.USER_ABORT)


class Receiver:
    """Records the events it receives, optionally aborts at its k-th event."""

    def __init__(self, name: str, abort_at: int | None = None) -> None:
        self.name = name
        self.abort_at = abort_at
        self.events: list[tuple[EventType, Any]] = []

    def __call__(self, event: Event) -> None:
        self.events.append((event.event_type, event.source))
        if self.abort_at is not None and len(self.events) - 1 == self.abort_at:
            abort()


class ReceiverHandler(ResultHandler):
    def __init__(self, plan: Plan, *, receiver: Receiver) -> None:
        super().__init__(plan)
        self._receiver = receiver

    def handle_event(self, event: Event) -> None:
        self._receiver(event)


class ReceiverPlugin(PlanHandlerPlugin):
    def create(self, name: str, plan: Plan, **kwargs: Any) -> ResultHandler:  # noqa: ARG002
        return ReceiverHandler(plan, **kwargs)

    def is_supported(self, method: str) -> bool:
        return method == "receiver"


class Evaluator:
    def __init__(self, abort_call: int | None = None) -> None:
        self.calls = 0
        self.abort_call = abort_call

    def __call__(
        self, variables: np.ndarray, context: EvaluatorContext
    ) -> EvaluatorResult:
        call = self.calls
        self.calls += 1
        if call == self.abort_call:
            abort()
        return EvaluatorResult(
            objectives=((variables - 0.5) ** 2).sum(axis=1, keepdims=True)
        )


def make_context(
    evaluator: Evaluator, observers: list[Receiver]
) -> OptimizerContext:
    manager = PluginManager()
    manager.add_plugin("plan_handler", "receiver", ReceiverPlugin())
    context = OptimizerContext(evaluator=evaluator, plugin_manager=manager)
    for observer in observers:
        for event_type in EventType:
            context.add_observer(event_type, observer)
    return context


def config(mask: list[bool] | None = None, max_functions: int = 3) -> dict[str, Any]:
    variables: dict[str, Any] = {"initial_values": [0.0, 0.1]}
    if mask is not None:
        variables["mask"] = mask
    return {
        "optimizer": {"method": "slsqp", "max_functions": max_functions},
        "variables": variables,
        "objectives": {"weights": [1.0]},
        "gradient": {"perturbation_magnitudes": 0.01},
    }


def bracket_problems(receiver: Receiver) -> list[str]:
    problems = []
    by_source: dict[Any, list[EventType]] = {}
    for event_type, source in receiver.events:
        by_source.setdefault(source, []).append(event_type)
    for events in by_source.values():
        if events[0] not in START_STEP:
            problems.append(
                f"{receiver.name}: first event of a step is {events[0].name}"
            )
        if events[-1] not in FINISHED_STEP:
            problems.append(
                f"{receiver.name}: last event of a step is {events[-1].name}"
            )
    return problems


# ---------------------------------------------------------------------------
# Check A
# ---------------------------------------------------------------------------


def run_a(k: int | None) -> tuple[Receiver, Receiver, Receiver, Any, Plan]:
    first = Receiver("handler-1 (raises the abort)", abort_at=k)
    second = Receiver("handler-2")
    observer = Receiver("observer")
    plan = Plan(make_context(Evaluator(), [observer]))
    step = plan.add_step("optimizer")
    plan.add_handler("receiver", receiver=first)
    plan.add_handler("receiver", receiver=second)
    exit_code = plan.run_step(step, config=config())
    return first, second, observer, exit_code, plan


def check_a() -> list[str]:
    failures = []
    baseline, _, _, _, _ = run_a(None)
    for k in range(len(baseline.events)):
        first, second, observer, exit_code, plan = run_a(k)
        problems = []
        if exit_code != OptimizerExitCode.USER_ABORT or not plan.aborted:
            problems.append(f"exit code {exit_code!r}, aborted {plan.aborted}")
        for other in (second, observer):
            if other.events != first.events:
                problems.append(
                    f"{other.name} received {len(other.events)} of the "
                    f"{len(first.events)} emitted events, it never got "
                    f"event {k} ({first.events[k][0].name})"
                )
            problems.extend(bracket_problems(other))
        if problems:
            failures.append(
                f"A: abort raised by handler-1 at event {k} "
                f"({first.events[k][0].name}): " + "; ".join(problems)
            )
    return failures


# ---------------------------------------------------------------------------
# Check B
# ---------------------------------------------------------------------------


def run_b(k: int | None, abort_call: int | None) -> dict[str, Any]:
    observer = Receiver("observer", abort_at=k)
    evaluator = Evaluator(abort_call)
    context = make_context(evaluator, [observer])

    inner = Plan(context)
    inner_steps = [inner.add_step("optimizer"), inner.add_step("optimizer")]
    tracker = inner.add_handler("tracker", sources=set(inner_steps))
    inner_config = config(mask=[False, True], max_functions=2)

    # The nested plan is a plain sequential two-step plan:
    def inner_function(plan: Plan, variables: np.ndarray) -> Any:
        for step in inner_steps:
            plan.run_step(step, config=inner_config, variables=variables)
        return plan.get(tracker, "results")

    inner.add_function(inner_function)

    outer = Plan(context)
    outer_step = outer.add_step("optimizer")
    outer_recorder = Receiver("outer handler")
    outer.add_handler("receiver", receiver=outer_recorder)

    result: dict[str, Any] = {"exception": None, "exit_code": None}
    try:
        result["exit_code"] = outer.run_step(
            outer_step,
            config=config(mask=[True, False], max_functions=2),
            nested_optimization=inner,
        )
    except BaseException as exc:  # noqa: BLE001
        result["exception"] = exc
    result["observer"] = observer
    result["outer_recorder"] = outer_recorder
    result["outer_step"] = outer_step
    result["inner_aborted"] = inner.aborted
    result["outer_aborted"] = outer.aborted
    result["evaluator_calls"] = evaluator.calls
    result["event_count"] = len(observer.events)

    # Any further step of the outer plan must refuse to run:
    observer.abort_at = None
    evaluator.abort_call = None
    try:
        outer.run_step(outer.add_step("evaluator"), config=config())
        result["refused"] = False
    except PlanAborted:
        result["refused"] = True
    return result


def check_b() -> list[str]:
    failures = []
    baseline = run_b(None, None)
    assert baseline["exception"] is None
    cases = [(k, None) for k in range(baseline["event_count"])]
    cases += [(None, call) for call in range(baseline["evaluator_calls"])]
    for k, call in cases:
        result = run_b(k, call)
        problems = []
        if result["exception"] is not None:
            problems.append(
                f"run_step of the outer step raised "
                f"{type(result['exception']).__name__}({result['exception']})"
            )
        if result["exit_code"] != OptimizerExitCode.USER_ABORT:
            problems.append(f"outer step reports {result['exit_code']!r}")
        if not result["outer_aborted"]:
            problems.append(
                f"parent plan not marked aborted (inner aborted: "
                f"{result['inner_aborted']})"
            )
        if not result["refused"]:
            problems.append("a further step of the parent plan did run")
        outer_events = [
            event_type
            for event_type, source in result["outer_recorder"].events
            if source == result["outer_step"]
        ]
        if not outer_events or outer_events[-1] != EventType.FINISHED_OPTIMIZER_STEP:
            problems.append(
                "outer step never emitted FINISHED_OPTIMIZER_STEP, last: "
                + (outer_events[-1].name if outer_events else "nothing")
            )
        if problems:
            where = (
                f"observer at event {k} "
                f"({baseline['observer'].events[k][0].name})"
                if k is not None
                else f"evaluator in call {call}"
            )
            failures.append(f"B: abort raised by {where}: " + "; ".join(problems))
    return failures


def main() -> int:
    which = sys.argv[1].upper() if len(sys.argv) > 1 else "AB"
    failures: list[str] = []
    if "A" in which:
        failures += check_a()
    if "B" in which:
        failures += check_b()
    for failure in failures:
        print(failure)
    if failures:
        print(f"\nC15 VIOLATED: {len(failures)} abort points fail")
        return 1
    print("C15 holds at every abort point that was tried")
    return 0


if __name__ == "__main__":
    sys.exit(main())
