"""C03 counterexample: realization filters ignore realizations that fail only in
the gradient evaluation.

Property C03: if at least `realization_min_success` realizations succeed, the
reported gradients equal those of the same ensemble with the failed
realizations (and failed perturbations) removed and the weights renormalized;
a realization fails for a gradient evaluation if fewer than
`perturbation_min_success` of its perturbations succeed.

Here realization 0 evaluates fine unperturbed, but all of its perturbations
return NaN. It is correctly reported as failed in the gradient results, and
enough realizations succeed, but the reported gradient is not the gradient of
the ensemble without realization 0: the realization filter still ranks the
failed realization and hands it (part of) the weight.

Only the public API is used (BasicOptimizer, EvaluatorResult, results classes).
The script exits 1 if the property is violated, 0 otherwise.
"""

from __future__ import annotations

import sys
import warnings
from typing import Any

import numpy as np

from ropt.evaluator import EvaluatorContext, EvaluatorResult
from ropt.plan import BasicOptimizer
from ropt.results import FunctionResults, GradientResults

# One variable, and per realization a linear function f_r(x) = A[r] * x + B[r].
# With a single variable the gradient estimated from the perturbations of a
# linear function is exact (A[r]), whatever perturbations are drawn. Hence the
# expected values do not depend on the random perturbations.
A = np.array([1.0, 2.0, 4.0])
B = np.array([0.0, 1.0, 2.0])
X0 = 1.0  # f_r(X0) = 1, 3, 6


def make_evaluator(members: list[int], failing_perturbations: set[int]) -> Any:
    """Evaluator for the ensemble consisting of the given members.

    All perturbed evaluations of the members in `failing_perturbations` fail
    (NaN in the objective column), unperturbed evaluations always succeed.
    """

    def evaluator(
        variables: np.ndarray, context: EvaluatorContext
    ) -> EvaluatorResult:
        count = variables.shape[0]
        objectives = np.zeros((count, 1))
        perturbations = (
            np.full(count, -1)
            if context.perturbations is None
            else context.perturbations
        )
        for idx in range(count):
            member = members[int(context.realizations[idx])]
            objectives[idx, 0] = A[member] * variables[idx, 0] + B[member]
            if perturbations[idx] >= 0 and member in failing_perturbations:
                objectives[idx, 0] = np.nan
        return EvaluatorResult(objectives=objectives)

    return evaluator


def first_gradient(
    members: list[int],
    failing_perturbations: set[int],
    realization_filter: dict[str, Any],
) -> tuple[FunctionResults | None, GradientResults]:
    """Run an optimization and return the results of the first evaluation."""
    config = {
        "variables": {"initial_values": [X0]},
        "objectives": {"weights": [1.0], "realization_filters": [0]},
        "realizations": {
            "weights": [1.0] * len(members),
            "realization_min_success": 1,
        },
        "gradient": {
            "number_of_perturbations": 3,
            "perturbation_min_success": 1,
        },
        "realization_filters": [realization_filter],
        "optimizer": {"method": "slsqp", "max_functions": 2, "speculative": True},
    }
    seen: list[Any] = []

    def callback(results: tuple[Any, ...]) -> None:
        seen.extend(results)

    with warnings.catch_warnings():
        warnings.simplefilter("ignore")  # the library divides by zero in case B
        BasicOptimizer(config, make_evaluator(members, failing_perturbations)) \
            .set_results_callback(callback).run()
    functions = next((i for i in seen if isinstance(i, FunctionResults)), None)
    gradients = next(i for i in seen if isinstance(i, GradientResults))
    return functions, gradients


def check(name: str, realization_filter: dict[str, Any], failing: int) -> bool:
    members = [0, 1, 2]
    # The full ensemble, where all perturbations of one realization fail:
    _, full = first_gradient(members, {failing}, realization_filter)
    # The same ensemble with that realization removed, nothing fails:
    rest = [member for member in members if member != failing]
    _, reduced = first_gradient(rest, set(), realization_filter)

    print(f"--- {name}: all perturbations of realization {failing} fail")
    print("  failed realizations (gradient):", full.realizations.failed_realizations)
    print("  filter weights used           :", full.realizations.objective_weights)
    expected_failed = np.array([member == failing for member in members])
    if not np.array_equal(full.realizations.failed_realizations, expected_failed):
        print("  VIOLATION: wrong failed realizations")
        return False
    assert reduced.gradients is not None
    expected = reduced.gradients.weighted_objective
    print("  gradient of the ensemble without it:", expected)
    if full.gradients is None:
        # 2 of 3 realizations succeed and realization_min_success is 1, so a
        # gradient must be reported.
        print("  VIOLATION: no gradient reported")
        return False
    got = full.gradients.weighted_objective
    print("  reported gradient                  :", got)
    if not np.allclose(got, expected, rtol=1e-6, atol=1e-8, equal_nan=False):
        print("  VIOLATION: reported gradient differs")
        return False
    print("  ok")
    return True


def main() -> int:
    ok = True
    # A: the filter keeps the two realizations with the lowest objective. In
    #    the full ensemble these are 0 and 1, without realization 0 these are 1
    #    and 2: expected gradient (2 + 4) / 2 = 3, the library reports 2.
    ok &= check(
        "A sort-objective [0, 1]",
        {"method": "sort-objective", "options": {"sort": [0], "first": 0, "last": 1}},
        failing=0,
    )
    # B: the filter keeps only the best realization. Without realization 0 that
    #    is realization 1: expected gradient 2, the library reports NaN, passes
    #    it to the optimizer, and does not stop with TOO_FEW_REALIZATIONS at
    #    this evaluation.
    ok &= check(
        "B sort-objective [0, 0]",
        {"method": "sort-objective", "options": {"sort": [0], "first": 0, "last": 0}},
        failing=0,
    )
    # C: CVaR weights. Full ensemble weights are (1/12, 1/3, 1/3), realization
    #    2 fails in the gradient: the library reports (1/12*1 + 1/3*2) / (5/12)
    #    = 1.8. Without realization 2 the CVaR weights are (1/4, 1/2): expected
    #    (1/4*1 + 1/2*2) / (3/4) = 1.6667.
    ok &= check(
        "C cvar-objective 0.75",
        {"method": "cvar-objective", "options": {"sort": [0], "percentile": 0.75}},
        failing=2,
    )
    if ok:
        print("property holds")
        return 0
    print("property C03 violated")
    return 1


if __name__ == "__main__":
    sys.exit(main())
