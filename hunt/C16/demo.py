"""C16 counterexample: two identical runs (same configuration, same seed, same
deterministic evaluator) do not produce bit-identical results.

The configuration has several objectives and two function estimators.  The
index array `objectives.function_estimators` is given as a single value, which
the configuration accepts without complaint (the EnOptConfig documentation says
that arrays of size one are broadcast).  The ensemble evaluator then only
computes the first objective and reports *uninitialised memory* (np.empty) for
the others, so the reported objectives, the weighted objective, and through the
line search of the optimizer also the evaluator requests and exit codes depend
on whatever was in the process heap: NumPy's global random state, earlier
optimizations, ...

Exit code 1: property violated, exit code 0: the runs are bit-identical.
"""

import sys

import numpy as np

from ropt.evaluator import EvaluatorResult
from ropt.plan import BasicOptimizer
from ropt.results import FunctionResults, GradientResults

NOBJ = 5

CONFIG = {
    "variables": {
        "initial_values": [0.1, 0.5, 0.9],
        "lower_bounds": 0.0,
        "upper_bounds": 1.0,
    },
    # All objectives should use estimator 1 (stddev):
    "objectives": {"weights": [1.0] * NOBJ, "function_estimators": 1},
    "function_estimators": [{"method": "mean"}, {"method": "stddev"}],
    "realizations": {"weights": [1.0, 1.0, 1.0]},
    "optimizer": {"method": "slsqp", "max_functions": 8},
    "gradient": {"number_of_perturbations": 4, "seed": 7},
}


def _functions(variables, context):
    # A pure, deterministic function of the requested variables/realizations.
    real = context.realizations.astype(np.float64)
    return np.stack(
        [
            ((variables - 0.2 * (idx + 1) - 0.05 * real[:, None]) ** 2).sum(axis=1)
            for idx in range(NOBJ)
        ],
        axis=1,
    )


def run(global_seed):
    """One run; only NumPy's *global* random state differs between runs."""
    np.random.seed(global_seed)
    # Unrelated use of the global generator earlier in the process:
    for _ in range(8):
        scratch = np.random.random(NOBJ)
        del scratch

    requests, results = [], []

    def evaluator(variables, context):
        requests.append(np.array(variables, copy=True))
        objectives = _functions(variables, context)
        # Unrelated use of the global generator during the run, the values are
        # thrown away, the evaluator result does not depend on them:
        scratch = np.random.random(NOBJ)
        del scratch
        return EvaluatorResult(objectives=objectives)

    def callback(items):
        for item in items:
            if isinstance(item, FunctionResults):
                assert item.functions is not None
                results.append(
                    (
                        "F",
                        item.evaluations.variables.copy(),
                        item.functions.objectives.copy(),
                        np.array(item.functions.weighted_objective),
                    )
                )
            elif isinstance(item, GradientResults):
                assert item.gradients is not None
                results.append(
                    (
                        "G",
                        item.evaluations.perturbed_variables.copy(),
                        item.gradients.objectives.copy(),
                        item.gradients.weighted_objective.copy(),
                    )
                )

    optimizer = BasicOptimizer(CONFIG, evaluator)
    optimizer.set_results_callback(callback)
    optimizer.run()
    return requests, results, optimizer.exit_code


def identical(seq1, seq2):
    if len(seq1) != len(seq2):
        return False
    for item1, item2 in zip(seq1, seq2):
        if isinstance(item1, tuple):
            if item1[0] != item2[0] or not identical(item1[1:], item2[1:]):
                return False
        elif item1.shape != item2.shape or item1.tobytes() != item2.tobytes():
            return False
    return True


def main():
    try:
        reference = run(0)
    except Exception as exc:  # noqa: BLE001
        # Rejecting the configuration would be fine for reproducibility.
        print(f"configuration rejected consistently: {exc!r}")
        return 0

    failed = False
    for global_seed in range(1, 6):
        other = run(global_seed)
        same_requests = identical(reference[0], other[0])
        same_results = identical(reference[1], other[1])
        same_exit = reference[2] == other[2]
        if not (same_requests and same_results and same_exit):
            failed = True
            print(
                f"run with global seed 0 vs {global_seed}: "
                f"requests identical={same_requests} "
                f"({len(reference[0])} vs {len(other[0])} batches), "
                f"results identical={same_results}, "
                f"exit codes {reference[2]!r} vs {other[2]!r}"
            )
            for res1, res2 in zip(reference[1], other[1]):
                if res1[0] == "F" and not identical([res1], [res2]):
                    print("  first differing function result:")
                    print("    run A objectives:", res1[2], "weighted:", res1[3])
                    print("    run B objectives:", res2[2], "weighted:", res2[3])
                    break
    if failed:
        print(
            "VIOLATION: identical configuration + seed + deterministic evaluator "
            "gave different results"
        )
        return 1
    print("all runs bit-identical")
    return 0


if __name__ == "__main__":
    sys.exit(main())
