"""C07 counterexample: a gradient request at a new point defeats split_evaluations.

Property C07 (excerpt): "... whichever of the callables the algorithm happens
to invoke first at a new point. A quantity already computed for the current
point is never evaluated again, ..., with split_evaluations no single
evaluation computes both functions and gradients, ..."

When the optimization algorithm asks for the *gradient* first at a new point
(no objective/constraint value was requested there yet), the SciPy back-end
forwards a gradient-only request, and the ensemble evaluator answers it with
one combined evaluation of the unperturbed point and all perturbations,
producing a FunctionResults and a GradientResults object from a single
evaluator call - also when `split_evaluations=True`. The function values of
that evaluation are thrown away, so a following objective request at the same
point evaluates the functions a second time.

Part 1 uses an unmodified SciPy algorithm (Newton-CG with the legal option
`eps`, the finite-difference step of its Hessian-vector product) that asks for
gradients at points where it never asked for the objective.

Part 2 replays the minimal request sequence  f(x0), g(x1), f(x1)  through the
callables that ropt hands to `scipy.optimize.minimize`.

Exit code 1: the property is violated, 0: it holds.
"""

from __future__ import annotations

import sys
from typing import Any

import numpy as np

import ropt.plugins.optimizer.scipy as scipy_backend
from ropt.evaluator import EvaluatorContext, EvaluatorResult
from ropt.plan import BasicOptimizer
from ropt.results import FunctionResults, GradientResults

TARGET = np.array([0.3, -0.2, 0.7])


class RecordingEvaluator:
    """Evaluator that records what every single evaluation had to compute."""

    def __init__(self) -> None:
        # One entry per evaluator call:
        #   (unperturbed point or None, has perturbed rows)
        self.calls: list[tuple[np.ndarray | None, bool]] = []

    def __call__(
        self, variables: np.ndarray, context: EvaluatorContext
    ) -> EvaluatorResult:
        perturbations = (
            np.full(variables.shape[0], -1)
            if context.perturbations is None
            else np.asarray(context.perturbations)
        )
        unperturbed = variables[perturbations < 0]
        self.calls.append(
            (
                unperturbed[0].copy() if unperturbed.shape[0] else None,
                bool(np.any(perturbations >= 0)),
            )
        )
        objectives = np.array(
            [[np.sum((v - TARGET) ** 2) + np.sum(v**4)] for v in variables]
        )
        return EvaluatorResult(objectives=objectives)


def make_config(method: str, options: dict[str, Any]) -> dict[str, Any]:
    return {
        "variables": {"initial_values": [0.0, 0.0, 0.1]},
        "optimizer": {
            "method": method,
            "split_evaluations": True,
            "speculative": False,
            "max_iterations": 3,
            "options": options,
        },
        "objectives": {"weights": [1.0]},
        "gradient": {
            "perturbation_magnitudes": 1e-4,
            "number_of_perturbations": 5,
            "seed": 1,
        },
    }


def run(config: dict[str, Any]) -> tuple[RecordingEvaluator, list[tuple[str, ...]]]:
    evaluator = RecordingEvaluator()
    events: list[tuple[str, ...]] = []

    def report(results: tuple[Any, ...]) -> None:
        events.append(tuple(type(item).__name__ for item in results))

    optimizer = BasicOptimizer(config, evaluator)
    optimizer.set_results_callback(report)
    optimizer.run()
    return evaluator, events


def check_split(
    label: str, evaluator: RecordingEvaluator, events: list[tuple[str, ...]]
) -> list[str]:
    errors = []
    for idx, (point, has_perturbed) in enumerate(evaluator.calls):
        if point is not None and has_perturbed:
            errors.append(
                f"{label}: split_evaluations=True, but evaluator call #{idx} computes "
                f"the functions at {point} AND the perturbations for the gradient"
            )
    for idx, names in enumerate(events):
        if (
            FunctionResults.__name__ in names and GradientResults.__name__ in names
        ):
            errors.append(
                f"{label}: split_evaluations=True, but evaluation #{idx} reported "
                f"both function and gradient results: {names}"
            )
    return errors


def part1_newton_cg() -> list[str]:
    evaluator, events = run(make_config("newton-cg", {"eps": 0.05}))
    print("part 1 (SciPy Newton-CG, options={'eps': 0.05}, split_evaluations=True)")
    for point, has_perturbed in evaluator.calls:
        print(
            "   evaluation:",
            "functions" if point is not None else "         ",
            "gradient" if has_perturbed else "        ",
        )
    return check_split("part 1", evaluator, events)


def part2_scripted() -> list[str]:
    x0 = np.array([0.0, 0.0, 0.1])
    x1 = np.array([1.0, 0.5, -0.5])  # far away from x0
    at_x1: list[int] = []

    def scripted_minimize(*, fun: Any, jac: Any, **_: Any) -> None:
        fun(x0.copy())  # objective at x0
        start = len(evaluator_box[0].calls)
        jac(x1.copy())  # gradient first at the new point x1
        fun(x1.copy())  # objective at the same point x1
        at_x1.extend(range(start, len(evaluator_box[0].calls)))

    evaluator_box: list[RecordingEvaluator] = []
    original = scipy_backend.minimize
    scipy_backend.minimize = scripted_minimize
    try:
        evaluator = RecordingEvaluator()
        evaluator_box.append(evaluator)
        events: list[tuple[str, ...]] = []
        optimizer = BasicOptimizer(make_config("bfgs", {}), evaluator)
        optimizer.set_results_callback(
            lambda results: events.append(tuple(type(r).__name__ for r in results))
        )
        optimizer.run()
    finally:
        scipy_backend.minimize = original

    print("part 2 (request sequence f(x0), g(x1), f(x1), split_evaluations=True)")
    errors = check_split("part 2", evaluator, events)
    function_evaluations_at_x1 = sum(
        1
        for idx in at_x1
        if evaluator.calls[idx][0] is not None
        and np.array_equal(evaluator.calls[idx][0], x1)
    )
    print(f"   function evaluations at x1: {function_evaluations_at_x1}")
    if function_evaluations_at_x1 > 1:
        errors.append(
            "part 2: the functions at x1 were computed by the evaluation made for "
            "g(x1) and evaluated again for f(x1) "
            f"({function_evaluations_at_x1} function evaluations at the same point)"
        )
    return errors


def main() -> int:
    errors = part1_newton_cg() + part2_scripted()
    if errors:
        print("\nPROPERTY C07 VIOLATED:")
        for error in errors:
            print(" -", error)
        return 1
    print("\nOK: no evaluation computed both functions and gradients")
    return 0


if __name__ == "__main__":
    sys.exit(main())
