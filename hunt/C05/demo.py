"""C05 counterexample: a sort-filter window that selects no realization with a
positive weight must end the evaluation with TOO_FEW_REALIZATIONS (no value is
produced).  The function evaluation honours this, but the gradient evaluation
that follows it at the same point (the normal function-then-gradient sequence
of a gradient based optimizer, served from the function cache inside
EnsembleEvaluator) silently produces a gradient, computed from ALL realizations
with the plain configured weights, i.e. from realizations outside the window.

Only the public API is used: EnOptConfig, PluginManager, EvaluatorResult and
the documented ropt.ensemble_evaluator.EnsembleEvaluator.

Exit code 1: property violated (current behaviour); exit code 0: as specified.
"""

import sys

import numpy as np

from ropt.config.enopt import EnOptConfig
from ropt.ensemble_evaluator import EnsembleEvaluator
from ropt.evaluator import EvaluatorResult
from ropt.plugins import PluginManager


def make_evaluator(offsets, failing=()):
    def evaluator(variables, context):
        values = (variables**2).sum(axis=1) + offsets[context.realizations]
        for realization in failing:
            values[context.realizations == realization] = np.nan
        return EvaluatorResult(objectives=values[:, np.newaxis])

    return evaluator


def make_config(weights, first, last, min_success):
    return EnOptConfig.model_validate(
        {
            "variables": {"initial_values": [0.0, 0.0]},
            "objectives": {"weights": [1.0], "realization_filters": [0]},
            "realizations": {
                "weights": weights,
                "realization_min_success": min_success,
            },
            "realization_filters": [
                {
                    "method": "sort-objective",
                    "options": {"sort": [0], "first": first, "last": last},
                }
            ],
            "gradient": {"number_of_perturbations": 3},
        }
    )


def check(name, config, evaluator):
    problems = []
    point = np.array([0.5, 0.5])

    # Reference: the very same gradient request on a fresh evaluator object.
    fresh = EnsembleEvaluator(config, None, evaluator, PluginManager())
    fresh_results = fresh.calculate(
        point, compute_functions=False, compute_gradients=True
    )
    fresh_gradient = fresh_results[-1].gradients

    # Function evaluation followed by a gradient evaluation at the same point:
    ensemble_evaluator = EnsembleEvaluator(config, None, evaluator, PluginManager())
    (function_results,) = ensemble_evaluator.calculate(
        point, compute_functions=True, compute_gradients=False
    )
    (gradient_results,) = ensemble_evaluator.calculate(
        point, compute_functions=False, compute_gradients=True
    )

    print(f"--- {name}")
    print("function evaluation : functions =", function_results.functions)
    print("gradient (fresh obj): gradients =", fresh_gradient)
    print("gradient (after fn) : gradients =", gradient_results.gradients)
    print(
        "gradient (after fn) : objective weights =",
        gradient_results.realizations.objective_weights,
    )

    if function_results.functions is not None:
        problems.append("function evaluation produced a value (unexpected)")
    if fresh_gradient is not None:
        problems.append("fresh gradient evaluation produced a value (unexpected)")
    if gradient_results.gradients is not None:
        problems.append(
            "the window selects no realization with positive weight, but the "
            "gradient evaluation produced a value instead of reporting "
            "TOO_FEW_REALIZATIONS (gradients should be None): "
            f"{gradient_results.gradients.weighted_objective}"
        )
    return problems


def main():
    problems = []

    # Case 1: ranks are r1 (1.0) < r2 (2.0) < r0 (3.0); the window [0, 0]
    # selects r1 only, whose configured weight is zero.
    problems += check(
        "zero-weight realization in the window",
        make_config([1.0, 0.0, 1.0], 0, 0, 1),
        make_evaluator(np.array([3.0, 1.0, 2.0])),
    )

    # Case 2: realization 1 fails, only two realizations are ranked, hence
    # the window [2, 2] (valid for an ensemble of three) selects nothing.
    problems += check(
        "window beyond the successful realizations",
        make_config([1.0, 1.0, 1.0], 2, 2, 1),
        make_evaluator(np.array([3.0, 1.0, 2.0]), failing=(1,)),
    )

    if problems:
        print()
        for problem in problems:
            print("VIOLATION:", problem)
        return 1
    print("OK: no value is produced when the window selects nothing")
    return 0


if __name__ == "__main__":
    sys.exit(main())
