"""Counterexamples for property C14 (documented exit code under any failure pattern).

Two independent violations are demonstrated with the public API only:

CHECK 1 (exit code): a realization filter selects realization 0 only. In the
    first gradient evaluation every perturbation of realization 0 fails, while
    realization 1 is fine. No successful realization is left for the filter,
    so the run must end with TOO_FEW_REALIZATIONS (the gradient results being
    delivered without gradients). Instead a NaN gradient is handed to the
    NaN-intolerant optimizer and the step "finishes normally".

CHECK 2 (function budget): Newton-CG, no failures at all, max_functions=3.
    The number of function evaluations must not exceed 3. Gradient-only
    requests at a new point silently evaluate (and report) the functions too,
    without counting them, so the budget is exceeded several times over.

Exit code 1 if any check fails, 0 if the library behaves as the property says.
"""

from __future__ import annotations

import sys
import warnings
from typing import Any

import numpy as np

from ropt.enums import OptimizerExitCode
from ropt.evaluator import EvaluatorContext, EvaluatorResult
from ropt.plan import BasicOptimizer
from ropt.results import FunctionResults, GradientResults

TARGETS = np.array([0.5, 2.0])  # realization 0 has the lowest objective near x = 0


class Evaluator:
    """Sum of squares per realization, with a programmable failure set."""

    def __init__(self, failing: dict[int, set[tuple[int, int]]] | None = None) -> None:
        # failing: evaluator call index -> set of (realization, perturbation)
        self.failing = failing or {}
        self.calls = 0
        self.function_rows = 0  # unperturbed evaluations that were requested
        self.nan_variables = False

    def __call__(
        self, variables: np.ndarray, context: EvaluatorContext
    ) -> EvaluatorResult:
        count = variables.shape[0]
        perturbations = (
            np.full(count, -1)
            if context.perturbations is None
            else context.perturbations
        )
        objectives = np.zeros((count, 1))
        failing = self.failing.get(self.calls, set())
        if np.any(np.isnan(variables)):
            self.nan_variables = True
        for idx in range(count):
            realization = int(context.realizations[idx])
            perturbation = int(perturbations[idx])
            if context.active is not None and not context.active[realization]:
                continue  # not needed: leave zero, as documented
            if perturbation < 0:
                self.function_rows += 1
            if (realization, perturbation) in failing:
                objectives[idx, 0] = np.nan
            else:
                objectives[idx, 0] = np.sum(
                    (variables[idx] - TARGETS[realization]) ** 2
                )
        self.calls += 1
        return EvaluatorResult(objectives=objectives)


def run(config: dict[str, Any], evaluator: Evaluator) -> tuple[Any, list[Any]]:
    delivered: list[Any] = []
    optimizer = BasicOptimizer(config, evaluator)
    optimizer.set_results_callback(lambda results: delivered.extend(results))
    with warnings.catch_warnings():
        warnings.simplefilter("ignore")
        optimizer.run()
    return optimizer.exit_code, delivered


def check_exit_code() -> list[str]:
    perturbations = 3
    config = {
        "variables": {"initial_values": [0.0, 0.1, 0.2]},
        "objectives": {"weights": [1.0], "realization_filters": [0]},
        "realizations": {"weights": [1.0, 1.0], "realization_min_success": 1},
        "realization_filters": [
            {
                "method": "sort-objective",
                "options": {"sort": [0], "first": 0, "last": 0},
            }
        ],
        "gradient": {
            "number_of_perturbations": perturbations,
            "perturbation_min_success": 1,
        },
        "optimizer": {"method": "bfgs", "max_functions": 5},
    }
    # Evaluator call 0 is the function evaluation at the initial point, call 1
    # is the first gradient evaluation: fail all perturbations of realization 0.
    evaluator = Evaluator({1: {(0, p) for p in range(perturbations)}})
    exit_code, delivered = run(config, evaluator)

    errors = []
    first = delivered[0]
    assert isinstance(first, FunctionResults)
    assert first.functions is not None
    weights = first.realizations.objective_weights
    assert weights is not None
    assert weights[0, 0] > 0
    assert weights[0, 1] == 0, "filter is expected to select realization 0 only"
    gradients = [item for item in delivered if isinstance(item, GradientResults)]
    if not gradients:
        errors.append("the failing gradient evaluation was not delivered")
    else:
        failing = gradients[0]
        assert list(failing.realizations.failed_realizations) == [True, False]
        if failing.gradients is not None:
            errors.append(
                "the gradient evaluation has no successful realization left for "
                "the filter (selected: 0, failed: 0), but gradients were reported: "
                f"{failing.gradients.weighted_objective}"
            )
    if exit_code != OptimizerExitCode.TOO_FEW_REALIZATIONS:
        errors.append(
            f"exit code is {exit_code.name}, expected TOO_FEW_REALIZATIONS"
        )
    if evaluator.nan_variables:
        errors.append("the evaluator was called with NaN variables")
    return errors


def check_function_budget() -> list[str]:
    max_functions = 3
    config = {
        "variables": {"initial_values": [0.0, 0.1, 0.2]},
        "realizations": {"weights": [1.0, 1.0]},
        "gradient": {"number_of_perturbations": 3},
        "optimizer": {"method": "newton-cg", "max_functions": max_functions},
    }
    evaluator = Evaluator()
    exit_code, delivered = run(config, evaluator)

    errors = []
    reported = sum(isinstance(item, FunctionResults) for item in delivered)
    evaluated = evaluator.function_rows // 2  # two realizations per evaluation
    if reported > max_functions or evaluated > max_functions:
        errors.append(
            f"max_functions={max_functions}, but {evaluated} function evaluations "
            f"were run and {reported} function results were reported "
            f"(serial method, exit code {exit_code.name})"
        )
    if reported >= max_functions and exit_code not in (
        OptimizerExitCode.MAX_FUNCTIONS_REACHED,
        OptimizerExitCode.OPTIMIZER_STEP_FINISHED,
    ):
        errors.append(f"unexpected exit code {exit_code.name}")
    return errors


def main() -> int:
    failed = False
    for name, check in (
        ("CHECK 1 (TOO_FEW_REALIZATIONS with a filter)", check_exit_code),
        ("CHECK 2 (max_functions)", check_function_budget),
    ):
        errors = check()
        if errors:
            failed = True
            print(f"{name}: VIOLATED")
            for error in errors:
                print(f"   - {error}")
        else:
            print(f"{name}: ok")
    return 1 if failed else 0


if __name__ == "__main__":
    sys.exit(main())
