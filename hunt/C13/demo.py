"""C13 counterexample: linear-constraint differences/violations are reported
wrongly when a VariableScaler transform is shared by two configurations.

VariableScaler.linear_constraints_to_optimizer() normalises each linear
constraint row by max|row| and remembers that per-row factor in the hidden
attribute `self._equation_scaling`, which is later used to map the linear
differences of *any* result back to the user domain.  The attribute is
overwritten every time a configuration is validated with the transform, so the
results of configuration 1 are back-transformed with the row factors of
configuration 2.

Scenario 1: two pre-validated configs, one evaluator step each, same scaler.
Scenario 2: an ordinary nested optimization (dict configs), outer and inner
            plan share the scaler (they act on the same variables).

Exits 1 when a reported linear difference / violation differs from
A.x - bound / max(lower - A.x, A.x - upper, 0); exits 0 otherwise.
"""

import sys
import warnings

import numpy as np

from ropt.config.enopt import EnOptConfig
from ropt.enums import EventType
from ropt.evaluator import EvaluatorResult
from ropt.plan import OptimizerContext, Plan
from ropt.results import FunctionResults
from ropt.transforms import OptModelTransforms, VariableScaler

warnings.filterwarnings("ignore")

problems: list[str] = []


def evaluator(variables, context):  # noqa: ANN001, ANN201, ARG001
    return EvaluatorResult(
        objectives=np.sum((variables - 0.2) ** 2, axis=1, keepdims=True)
    )


def check(tag, result, coefficients, lower, upper):  # noqa: ANN001, ANN201
    x = result.evaluations.variables
    info = result.constraint_info
    value = coefficients @ x
    expected = {
        "linear_lower": value - lower,
        "linear_upper": value - upper,
        "linear_violation": np.maximum(np.maximum(lower - value, value - upper), 0.0),
    }
    for name, exp in expected.items():
        got = getattr(info, name)
        if got is None or not np.allclose(got, exp, rtol=1e-9, atol=1e-12):
            problems.append(
                f"{tag}: x={x}, A.x={value}, bounds=[{lower}, {upper}]: "
                f"{name} reported {got}, expected {exp}"
            )


# --------------------------------------------------------------------------
# Scenario 1: one transform, two configurations validated up front.
# The scaler is the identity on the variables (scales 1, no offsets), so the
# user domain and the optimizer domain coincide for the variables.
# --------------------------------------------------------------------------
transforms = OptModelTransforms(variables=VariableScaler(np.array([1.0, 1.0]), None))

A1, lo1, up1 = np.array([[1.0, 1.0]]), np.array([0.0]), np.array([0.5])
A2, lo2, up2 = np.array([[10.0, 10.0]]), np.array([-np.inf]), np.array([5.0])

config1 = EnOptConfig.model_validate(
    {
        "variables": {"initial_values": [0.3, 0.7]},
        "linear_constraints": {
            "coefficients": A1,
            "lower_bounds": lo1,
            "upper_bounds": up1,
        },
    },
    context=transforms,
)
config2 = EnOptConfig.model_validate(
    {
        "variables": {"initial_values": [0.3, 0.7]},
        "linear_constraints": {
            "coefficients": A2,
            "lower_bounds": lo2,
            "upper_bounds": up2,
        },
    },
    context=transforms,
)

collected: list[FunctionResults] = []
context = OptimizerContext(evaluator=evaluator)
context.add_observer(
    EventType.FINISHED_EVALUATION,
    lambda event: collected.extend(
        item for item in event.data["results"] if isinstance(item, FunctionResults)
    ),
)
plan = Plan(context)
step = plan.add_step("evaluator")
plan.run_step(step, config=config1, transforms=transforms)
plan.run_step(step, config=config2, transforms=transforms)

# x = (0.3, 0.7):  A1.x = 1.0  -> lower diff 1.0, upper diff 0.5, violation 0.5
check("scenario 1, config 1", collected[0], A1, lo1, up1)
# A2.x = 10 -> lower diff inf, upper diff 5, violation 5 (this one is right)
check("scenario 1, config 2", collected[1], A2, lo2, up2)

# --------------------------------------------------------------------------
# Scenario 2: nested optimization, outer and inner plan use the same scaler.
# --------------------------------------------------------------------------
transforms = OptModelTransforms(variables=VariableScaler(np.array([1.0, 1.0]), None))
A_outer, lo_o, up_o = np.array([[1.0, 1.0]]), np.array([0.0]), np.array([0.5])
A_inner = np.array([[0.0, 10.0]])
common = {
    "optimizer": {"max_functions": 3, "tolerance": 1e-10},
    "gradient": {"perturbation_magnitudes": 0.01},
}
outer_config = {
    **common,
    "variables": {"initial_values": [0.3, 0.7], "mask": [True, False]},
    "linear_constraints": {
        "coefficients": A_outer,
        "lower_bounds": lo_o,
        "upper_bounds": up_o,
    },
}
inner_config = {
    **common,
    "variables": {"initial_values": [0.3, 0.7], "mask": [False, True]},
    "linear_constraints": {
        "coefficients": A_inner,
        "lower_bounds": [0.0],
        "upper_bounds": [5.0],
    },
}

context = OptimizerContext(evaluator=evaluator)
inner_plan = Plan(context)
inner_step = inner_plan.add_step("optimizer")
inner_tracker = inner_plan.add_handler(
    "tracker", sources={inner_step}, constraint_tolerance=None
)


def inner_function(plan, variables):  # noqa: ANN001, ANN201
    plan.run_step(
        inner_step, config=inner_config, transforms=transforms, variables=variables
    )
    return plan.get(inner_tracker, "results")


inner_plan.add_function(inner_function)

outer_plan = Plan(context)
outer_step = outer_plan.add_step("optimizer")


def observe_outer(event):  # noqa: ANN001, ANN201
    if event.source != outer_step:
        return
    for item in event.data["results"]:
        if isinstance(item, FunctionResults):
            check("scenario 2, outer result", item, A_outer, lo_o, up_o)


context.add_observer(EventType.FINISHED_EVALUATION, observe_outer)
outer_plan.run_step(
    outer_step,
    config=outer_config,
    transforms=transforms,
    nested_optimization=inner_plan,
)

if problems:
    print("C13 VIOLATED: linear constraint differences/violations are wrong:")
    for line in problems:
        print("  " + line)
    sys.exit(1)

print("OK: all reported linear differences and violations match A.x - bounds")
sys.exit(0)
