"""C10 counterexample: NaN ("unbounded") variable bounds turn every perturbed value into NaN.

`VariablesConfig` documents that `numpy.nan` entries in `lower_bounds` /
`upper_bounds` "indicate unbounded variables and are converted to `numpy.inf`
with the appropriate sign".  Such a configuration therefore describes variables
with infinite bounds, which is inside the space C10 is quantified over
(finite/infinite bounds).  The conversion is never performed, and the NaN bound
reaches `np.clip` in `_apply_bounds`, which returns NaN for every perturbed
value of a TRUNCATE_BOTH or MIRROR_BOTH variable (MIRROR_BOTH is the default).

Exit code 1: property violated (current behaviour); 0: behaves as C10 says.
"""

from __future__ import annotations

import sys
import warnings

import numpy as np

from ropt.config.enopt import EnOptConfig
from ropt.ensemble_evaluator import EnsembleEvaluator
from ropt.enums import BoundaryType, PerturbationType
from ropt.evaluator import EvaluatorResult
from ropt.plugins import PluginManager
from ropt.plugins.sampler.base import Sampler, SamplerPlugin
from ropt.results import GradientResults

warnings.simplefilter("ignore")

# Deterministically injected samples, shape (realizations, perturbations, variables):
# a small step, a large negative overshoot, a large positive overshoot.
SAMPLES = np.array(
    [
        [
            [1.0, 1.0, 1.0, 1.0, 1.0, 1.0],
            [-30.0, -30.0, -30.0, -30.0, -30.0, -30.0],
            [45.0, 45.0, 45.0, 45.0, 45.0, 45.0],
        ]
    ]
)


class InjectedSampler(Sampler):
    def __init__(self, enopt_config, sampler_index, mask, rng):  # noqa: ANN001, ARG002
        pass

    def generate_samples(self):  # noqa: ANN201
        return SAMPLES.copy()


class InjectedSamplerPlugin(SamplerPlugin):
    def create(self, enopt_config, sampler_index, mask, rng):  # noqa: ANN001, ANN201
        return InjectedSampler(enopt_config, sampler_index, mask, rng)

    def is_supported(self, method: str) -> bool:
        return method == "inject"


class Recorder:
    def __init__(self) -> None:
        self.seen: list[np.ndarray] = []

    def __call__(self, variables, context):  # noqa: ANN001, ANN204, ARG002
        self.seen.append(np.array(variables))
        return EvaluatorResult(objectives=np.sum(variables**2, axis=-1)[:, None])


def oracle(v, lb, ub, magnitude, boundary_type, sample):  # noqa: ANN001, ANN201
    # NaN bounds mean "unbounded" (documented in VariablesConfig):
    lb = -np.inf if np.isnan(lb) else lb
    ub = np.inf if np.isnan(ub) else ub
    p = v + magnitude * sample
    if boundary_type == BoundaryType.NONE:
        return p
    if boundary_type == BoundaryType.TRUNCATE_BOTH:
        return min(max(p, lb), ub)
    # MIRROR_BOTH: reflect at the violated bound; at most one bound is finite
    # for every variable used here, so one reflection always suffices:
    if p < lb:
        return 2 * lb - p
    if p > ub:
        return 2 * ub - p
    return p


def perturb(lower, upper):  # noqa: ANN001, ANN201
    config = EnOptConfig.model_validate(
        {
            "variables": {
                "initial_values": VARIABLES,
                "lower_bounds": lower,
                "upper_bounds": upper,
            },
            "gradient": {
                "number_of_perturbations": SAMPLES.shape[1],
                "perturbation_magnitudes": MAGNITUDES,
                "perturbation_types": PerturbationType.ABSOLUTE,
                "boundary_types": BOUNDARY_TYPES,
            },
            "samplers": [{"method": "inject/inject"}],
        }
    )
    plugin_manager = PluginManager()
    plugin_manager.add_plugin("sampler", "inject", InjectedSamplerPlugin())
    recorder = Recorder()
    results = EnsembleEvaluator(config, None, recorder, plugin_manager).calculate(
        np.array(VARIABLES), compute_functions=True, compute_gradients=True
    )
    gradient_results = next(r for r in results if isinstance(r, GradientResults))
    return gradient_results.evaluations.perturbed_variables, recorder.seen[-1][1:]


NAN = np.nan
VARIABLES = [0.5, 0.5, 0.5, 0.5, 0.5, 0.5]
MAGNITUDES = [0.1, 0.1, 0.1, 0.1, 0.1, 0.1]
#            unbounded | only lower | only upper | (same three again)
LOWER_NAN = [NAN, 0.0, NAN, NAN, 0.0, NAN]
UPPER_NAN = [NAN, NAN, 1.0, NAN, NAN, 1.0]
BOUNDARY_TYPES = [
    BoundaryType.TRUNCATE_BOTH,
    BoundaryType.TRUNCATE_BOTH,
    BoundaryType.TRUNCATE_BOTH,
    BoundaryType.MIRROR_BOTH,
    BoundaryType.MIRROR_BOTH,
    BoundaryType.MIRROR_BOTH,
]
# The same bounds, spelled with infinities:
LOWER_INF = [-np.inf if np.isnan(x) else x for x in LOWER_NAN]
UPPER_INF = [np.inf if np.isnan(x) else x for x in UPPER_NAN]


def main() -> int:
    failures: list[str] = []

    for label, lower, upper in (
        ("bounds given as +-inf", LOWER_INF, UPPER_INF),
        ("unbounded sides given as NaN (documented)", LOWER_NAN, UPPER_NAN),
    ):
        perturbed, seen = perturb(lower, upper)
        print(f"--- {label}")
        print(perturbed[0])
        if not np.array_equal(seen.reshape(perturbed.shape), perturbed, equal_nan=True):
            failures.append(f"{label}: evaluator did not receive the reported values")
        for p_idx in range(SAMPLES.shape[1]):
            for v_idx in range(len(VARIABLES)):
                expected = oracle(
                    VARIABLES[v_idx],
                    lower[v_idx],
                    upper[v_idx],
                    MAGNITUDES[v_idx],
                    BOUNDARY_TYPES[v_idx],
                    SAMPLES[0, p_idx, v_idx],
                )
                got = perturbed[0, p_idx, v_idx]
                raw = VARIABLES[v_idx] + MAGNITUDES[v_idx] * SAMPLES[0, p_idx, v_idx]
                lb = -np.inf if np.isnan(lower[v_idx]) else lower[v_idx]
                ub = np.inf if np.isnan(upper[v_idx]) else upper[v_idx]
                if not (lb <= got <= ub):
                    failures.append(
                        f"{label}: variable {v_idx}, perturbation {p_idx}: "
                        f"value {got} is not within the bounds [{lb}, {ub}]"
                    )
                if lb <= raw <= ub and not got == raw:
                    failures.append(
                        f"{label}: variable {v_idx}, perturbation {p_idx}: "
                        f"{raw} is inside the bounds [{lb}, {ub}] but was altered to {got}"
                    )
                if not np.isclose(got, expected, rtol=1e-12, atol=1e-12):
                    failures.append(
                        f"{label}: variable {v_idx}, perturbation {p_idx}: "
                        f"expected {expected}, got {got}"
                    )

    if failures:
        print(f"\nC10 VIOLATED ({len(failures)} failed checks), e.g.:")
        for line in failures[:8]:
            print("  " + line)
        return 1
    print("\nC10 holds for NaN (= unbounded) bounds")
    return 0


if __name__ == "__main__":
    sys.exit(main())
