"""C20 counterexamples: external-process optimizer vs. in-process optimizer.

Check 1 ("leak"):    the user's evaluator raises (KeyboardInterrupt) during the
                     2nd evaluation of an `external/slsqp` run. The property
                     demands that no optimizer process is left running when the
                     evaluator raises. The unmodified library leaves the
                     `ropt_plugin_optimizer` child alive (spinning at 100% CPU).

Check 2 ("options"): the same SLSQP configuration, with the perfectly ordinary
                     option value `maxiter = numpy.int64(3)`, is run in-process
                     (`slsqp`) and through the external plug-in
                     (`external/slsqp`). The property demands the same sequence
                     of evaluations, results and exit code. The unmodified
                     library runs fine in-process, but the external run fails
                     with a TypeError before the first evaluation.

Usage: python demo.py [leak|options]   (default: both checks)
Exit code 1 if a check shows a violation, 0 otherwise.
"""

from __future__ import annotations

import copy
import os
import signal
import sys
import time
from pathlib import Path
from typing import Any

import numpy as np

import ropt
from ropt.evaluator import EvaluatorResult
from ropt.plan import BasicOptimizer
from ropt.results import FunctionResults

# Make sure the child process (the `ropt_plugin_optimizer` script) is found and
# that it imports the same ropt sources as this process:
os.environ["PATH"] = str(Path(sys.executable).parent) + os.pathsep + os.environ["PATH"]
os.environ["PYTHONPATH"] = (
    str(Path(ropt.__file__).parent.parent)
    + os.pathsep
    + os.environ.get("PYTHONPATH", "")
)

CONFIG: dict[str, Any] = {
    "variables": {"initial_values": [0.0, 0.0, 0.1]},
    "optimizer": {"tolerance": 1e-4, "options": {}},
    "objectives": {"weights": [0.75, 0.25]},
    "gradient": {"perturbation_magnitudes": 0.01},
}


def _objectives(variables: np.ndarray) -> np.ndarray:
    return np.array([[np.sum((v - 0.5) ** 2), np.sum(v**2)] for v in variables])


def _optimizer_children() -> list[int]:
    """Live (non-zombie) ropt_plugin_optimizer processes started by this process."""
    found = []
    for entry in Path("/proc").iterdir():
        if not entry.name.isdigit():
            continue
        try:
            cmdline = (entry / "cmdline").read_bytes()
            stat = (entry / "stat").read_text()
        except OSError:
            continue
        if b"ropt_plugin_optimizer" not in cmdline:
            continue
        fields = stat.rpartition(")")[2].split()
        state, ppid = fields[0], int(fields[1])
        if ppid == os.getpid() and state != "Z":
            found.append(int(entry.name))
    return found


def check_leak() -> bool:
    """The evaluator raises at evaluation 2: no process may be left running."""
    print("== check 1: evaluator raises KeyboardInterrupt at evaluation 2 ==")
    config = copy.deepcopy(CONFIG)
    config["optimizer"]["method"] = "external/slsqp"
    count = 0

    def evaluator(variables: np.ndarray, _: Any) -> EvaluatorResult:  # noqa: ANN401
        nonlocal count
        count += 1
        if count == 2:  # noqa: PLR2004
            raise KeyboardInterrupt
        return EvaluatorResult(objectives=_objectives(variables))

    try:
        BasicOptimizer(config, evaluator).run()
        print("   the run returned normally (unexpected)")
    except KeyboardInterrupt:
        print("   the run raised KeyboardInterrupt, as it does in-process")

    # Be generous: give a well-behaved implementation a few seconds.
    deadline = time.time() + 5
    left = _optimizer_children()
    while left and time.time() < deadline:
        time.sleep(0.25)
        left = _optimizer_children()
    if left:
        print(f"   VIOLATION: optimizer process(es) still running: {left}")
        for pid in left:
            with open(f"/proc/{pid}/stat") as fp:
                fields = fp.read().rpartition(")")[2].split()
            print(f"     pid {pid}: state={fields[0]}, utime ticks={fields[11]}")
            os.kill(pid, signal.SIGKILL)  # clean up behind the library
        return False
    print("   ok: no optimizer process is left running")
    return True


def _run(method: str, options: dict[str, Any]) -> dict[str, Any]:
    config = copy.deepcopy(CONFIG)
    config["optimizer"]["method"] = method
    config["optimizer"]["options"] = options
    evaluations: list[np.ndarray] = []
    values: list[float | None] = []

    def evaluator(variables: np.ndarray, _: Any) -> EvaluatorResult:  # noqa: ANN401
        evaluations.append(variables.copy())
        return EvaluatorResult(objectives=_objectives(variables))

    def track(results: tuple[Any, ...]) -> None:
        values.extend(
            None if item.functions is None else float(item.functions.weighted_objective)
            for item in results
            if isinstance(item, FunctionResults)
        )

    optimizer = BasicOptimizer(config, evaluator).set_results_callback(track)
    outcome: dict[str, Any] = {"evaluations": evaluations, "values": values}
    try:
        optimizer.run()
        outcome["exit_code"] = optimizer.exit_code
        outcome["error"] = None
    except Exception as exc:  # noqa: BLE001
        outcome["exit_code"] = None
        outcome["error"] = exc
    return outcome


def check_options() -> bool:
    """The same configuration must give the same run in-process and externally."""
    print("== check 2: options = {'maxiter': numpy.int64(3)}, slsqp vs external/slsqp ==")
    options = {"maxiter": np.int64(3)}
    inproc = _run("slsqp", options)
    extern = _run("external/slsqp", options)
    for name, item in (("in-process", inproc), ("external  ", extern)):
        print(
            f"   {name}: {len(item['evaluations'])} evaluations, "
            f"{len(item['values'])} function results, "
            f"exit code {item['exit_code']!r}, error {item['error']!r}"
        )
    same = (
        inproc["exit_code"] == extern["exit_code"]
        and (inproc["error"] is None) == (extern["error"] is None)
        and len(inproc["evaluations"]) == len(extern["evaluations"])
        and all(
            np.array_equal(a, b)
            for a, b in zip(inproc["evaluations"], extern["evaluations"], strict=True)
        )
        and inproc["values"] == extern["values"]
    )
    left = _optimizer_children()
    for pid in left:
        os.kill(pid, signal.SIGKILL)
    if not same:
        print("   VIOLATION: the external run differs from the in-process run")
        return False
    if left:
        print(f"   VIOLATION: optimizer process(es) still running: {left}")
        return False
    print("   ok: identical evaluations, results and exit code")
    return True


def main() -> int:
    selected = sys.argv[1:] or ["leak", "options"]
    ok = True
    if "leak" in selected:
        ok = check_leak() and ok
    if "options" in selected:
        ok = check_options() and ok
    print("PROPERTY HOLDS" if ok else "PROPERTY VIOLATED")
    return 0 if ok else 1


if __name__ == "__main__":
    sys.exit(main())
