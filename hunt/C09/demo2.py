"""C09, second independent counterexample: a non-zero reported gradient entry
for a fixed variable when an objective transform with an offset is used.

Exit code 1: property violated (current sources). Exit code 0: property holds.
"""

from __future__ import annotations

import sys
from typing import Any

import numpy as np

from ropt.evaluator import EvaluatorContext, EvaluatorResult
from ropt.plan import BasicOptimizer
from ropt.results import GradientResults
from ropt.transforms import OptModelTransforms
from ropt.transforms.base import ObjectiveTransform

MASK = np.array([True, False, True])  # variable 1 is fixed


class AffineObjective(ObjectiveTransform):
    """optimizer value = (user value - offset) / scale."""

    def __init__(self, scale: float, offset: float) -> None:
        self._scale, self._offset = scale, offset

    def to_optimizer(self, objectives: np.ndarray) -> np.ndarray:
        return (objectives - self._offset) / self._scale

    def from_optimizer(self, objectives: np.ndarray) -> np.ndarray:
        return objectives * self._scale + self._offset


def evaluator(variables: np.ndarray, _: EvaluatorContext) -> EvaluatorResult:
    return EvaluatorResult(
        objectives=((variables - 0.5) ** 2).sum(axis=1, keepdims=True)
    )


def main() -> int:
    config: dict[str, Any] = {
        "variables": {"initial_values": [0.1, 0.2, 0.3], "mask": MASK.tolist()},
        "optimizer": {"method": "slsqp", "max_functions": 2},
    }
    transforms = OptModelTransforms(objectives=AffineObjective(2.0, 5.0))
    problems: list[str] = []

    def callback(results: tuple[Any, ...]) -> None:
        for item in results:
            if isinstance(item, GradientResults) and item.gradients is not None:
                entry = item.gradients.objectives[:, ~MASK]
                if np.any(entry != 0.0):
                    problems.append(
                        f"reported objective gradient {item.gradients.objectives}"
                    )

    BasicOptimizer(config, evaluator, transforms=transforms).set_results_callback(
        callback
    ).run()
    if problems:
        print("C09 VIOLATED: gradient entry of the fixed variable 1 is not zero:")
        for line in problems:
            print("  " + line)
        return 1
    print("OK")
    return 0


if __name__ == "__main__":
    sys.exit(main())
