"""C09 counterexample: a fixed (masked-out) variable does not keep its value.

The fixed variable is declared unbounded by giving `numpy.nan` for its bounds,
which the `VariablesConfig` documentation explicitly allows ("`numpy.nan`
values in these arrays indicate unbounded variables and are converted to
`numpy.inf` with the appropriate sign"). Its initial value is therefore inside
its bounds. Nevertheless every perturbed vector that reaches the evaluator, and
every reported `GradientResults.evaluations.perturbed_variables`, carries NaN
instead of the starting value 0.2 in the fixed position.

Exit code 1: property violated (current sources). Exit code 0: property holds.
Only the public API is used.
"""

from __future__ import annotations

import sys
from typing import Any

import numpy as np

from ropt.enums import EventType
from ropt.evaluator import EvaluatorContext, EvaluatorResult
from ropt.plan import OptimizerContext, Plan
from ropt.results import FunctionResults, GradientResults

INITIAL = np.array([0.1, 0.2, 0.3])
MASK = np.array([True, False, True])  # variable 1 is fixed
FIXED = ~MASK


def run(lower: list[float], upper: list[float]) -> list[str]:
    """Run a short optimization, return a list of property violations."""
    config: dict[str, Any] = {
        "variables": {
            "initial_values": INITIAL.tolist(),
            "mask": MASK.tolist(),
            "lower_bounds": lower,
            "upper_bounds": upper,
        },
        "optimizer": {"method": "slsqp", "max_functions": 3},
        "gradient": {"number_of_perturbations": 3, "perturbation_magnitudes": 0.01},
    }

    sent: list[np.ndarray] = []

    def evaluator(variables: np.ndarray, _: EvaluatorContext) -> EvaluatorResult:
        sent.append(np.array(variables, copy=True))
        objectives = ((variables - 0.5) ** 2).sum(axis=1, keepdims=True)
        return EvaluatorResult(objectives=objectives)

    reported: list[Any] = []
    context = OptimizerContext(evaluator=evaluator).add_observer(
        EventType.FINISHED_EVALUATION,
        lambda event: reported.extend(event.data["results"]),
    )
    plan = Plan(context)
    step = plan.add_step("optimizer")
    exit_code = plan.run_step(step, config=config)

    problems: list[str] = []
    start = INITIAL[FIXED]
    for idx, batch in enumerate(sent):
        if not np.array_equal(batch[:, FIXED], np.broadcast_to(start, (len(batch), 1))):
            problems.append(
                f"evaluator call {idx}: fixed variable received as "
                f"{batch[:, FIXED].ravel()} instead of {start}"
            )
    n_gradients = 0
    for item in reported:
        if not np.array_equal(item.evaluations.variables[FIXED], start):
            problems.append(f"reported variables: {item.evaluations.variables}")
        if isinstance(item, GradientResults):
            perturbed = item.evaluations.perturbed_variables[..., FIXED]
            if not np.all(perturbed == start):
                problems.append(
                    "reported perturbed_variables, fixed entry: "
                    f"{np.unique(perturbed)} instead of {start}"
                )
            if item.gradients is not None:
                n_gradients += 1
                if np.any(item.gradients.weighted_objective[FIXED] != 0.0) or np.any(
                    item.gradients.objectives[:, FIXED] != 0.0
                ):
                    problems.append("non-zero gradient entry for the fixed variable")
    n_functions = sum(isinstance(item, FunctionResults) for item in reported)
    print(
        f"  exit code {exit_code!r}, {len(sent)} evaluator calls, "
        f"{n_functions} function results, {n_gradients} gradients"
    )
    return problems


def main() -> int:
    print("control: fixed variable unbounded via -inf/+inf")
    control = run([-1.0, -np.inf, -1.0], [1.0, np.inf, 1.0])
    if control:
        print("UNEXPECTED: the control run fails too:", *control, sep="\n  ")
        return 2
    print("  fixed variable kept its value everywhere")

    print("case: fixed variable unbounded via NaN (documented as equivalent)")
    problems = run([-1.0, np.nan, -1.0], [1.0, np.nan, 1.0])
    if problems:
        print("C09 VIOLATED: the fixed variable did not keep its starting value 0.2:")
        for line in problems:
            print("  " + line)
        return 1
    print("  fixed variable kept its value everywhere")
    print("OK: property C09 holds")
    return 0


if __name__ == "__main__":
    sys.exit(main())
