"""Counterexamples for property C06 (inactive entries inert / immutable snapshots).

Run with:  PYTHONPATH=/tmp/wt10-C06/src /venv/bin/python demo.py

Exit code 1: at least one violation was observed (each one is printed).
Exit code 0: the library behaves as the property says.

Check A: finite garbage that the evaluator puts in entries that ropt itself
         flagged inactive (zero realization weight) changes the reported
         functions and gradients when the `stddev` function estimator is used.
Check B: the `evaluation_info` arrays of delivered results are writable views
         of the arrays owned by the evaluator, so a delivered result is neither
         immutable nor a snapshot: it changes when a memoizing/buffer re-using
         evaluator returns the same array again.
"""

from __future__ import annotations

import sys
import warnings

import numpy as np

from ropt.config.enopt import EnOptConfig
from ropt.ensemble_evaluator import EnsembleEvaluator
from ropt.evaluator import EvaluatorContext, EvaluatorResult
from ropt.plugins import PluginManager
from ropt.results import FunctionResults, GradientResults

warnings.simplefilter("ignore")  # numpy overflow warnings raised inside ropt

PROBLEMS: list[str] = []


def problem(msg: str) -> None:
    PROBLEMS.append(msg)
    print("VIOLATION:", msg)


# --------------------------------------------------------------------------
# Check A: garbage in inactive entries must be inert
# --------------------------------------------------------------------------
WEIGHTS = [1.0, 1.0, 0.0, 1.0]  # realization 2 has zero weight
X = np.array([1.0, 2.0])


def true_value(x: np.ndarray, realization: int) -> float:
    return float((x**2).sum() + realization)


class GarbageEvaluator:
    """Computes only what ropt flagged active, the rest is `garbage`."""

    def __init__(self, garbage: float) -> None:
        self.garbage = garbage
        self.saw_inactive = False

    def __call__(
        self, variables: np.ndarray, context: EvaluatorContext
    ) -> EvaluatorResult:
        objectives = np.empty((variables.shape[0], 1))
        for row, realization in enumerate(context.realizations):
            if (
                context.active_objectives is None
                or context.active_objectives[0, realization]
            ):
                objectives[row, 0] = true_value(variables[row], int(realization))
            else:
                # ropt said: this (function, realization) entry is not needed.
                self.saw_inactive = True
                objectives[row, 0] = self.garbage
        return EvaluatorResult(objectives=objectives)


def run_check_a(garbage: float) -> tuple[FunctionResults, GradientResults]:
    config = EnOptConfig.model_validate(
        {
            "variables": {"initial_values": X.tolist()},
            "realizations": {"weights": WEIGHTS},
            "function_estimators": [{"method": "stddev"}],
            "gradient": {"number_of_perturbations": 3, "seed": 7},
        }
    )
    evaluator = GarbageEvaluator(garbage)
    ensemble = EnsembleEvaluator(config, None, evaluator, PluginManager())
    # split evaluation: functions first, then the gradient for the same point
    (functions,) = ensemble.calculate(
        X, compute_functions=True, compute_gradients=False
    )
    (gradients,) = ensemble.calculate(
        X, compute_functions=False, compute_gradients=True
    )
    assert isinstance(functions, FunctionResults)
    assert isinstance(gradients, GradientResults)
    assert evaluator.saw_inactive, "realization 2 should have been flagged inactive"
    return functions, gradients


def check_a() -> None:
    # Independent oracle: sample standard deviation over the realizations with
    # a non-zero weight (equal weights), the zero-weight one does not count.
    values = np.array([true_value(X, r) for r, w in enumerate(WEIGHTS) if w > 0])
    expected = float(np.std(values, ddof=1))

    reference_f, reference_g = run_check_a(0.0)
    assert reference_f.functions is not None
    assert reference_g.gradients is not None
    if not np.isclose(reference_f.functions.weighted_objective, expected):
        problem(
            "A0: stddev objective with zeros in the inactive entries is "
            f"{reference_f.functions.weighted_objective}, expected {expected}"
        )

    for garbage in (12345.0, -1e300, 1e200, float(np.finfo(np.float64).max)):
        functions, gradients = run_check_a(garbage)
        value = None if functions.functions is None else functions.functions.weighted_objective
        gradient = (
            None if gradients.gradients is None else gradients.gradients.weighted_objective
        )
        if value is None or not np.array_equal(
            value, reference_f.functions.weighted_objective
        ):
            problem(
                f"A1: finite garbage {garbage!r} in the entries flagged inactive "
                f"changed the reported objective: {value} instead of "
                f"{reference_f.functions.weighted_objective}"
            )
        if gradient is None or not np.array_equal(
            gradient, reference_g.gradients.weighted_objective
        ):
            problem(
                f"A2: finite garbage {garbage!r} in the entries flagged inactive "
                f"changed the reported gradient: {gradient} instead of "
                f"{reference_g.gradients.weighted_objective}"
            )


# --------------------------------------------------------------------------
# Check B: delivered results must be immutable snapshots
# --------------------------------------------------------------------------
class BufferReusingEvaluator:
    """Returns the same `evaluation_info` array object on every call.

    The array is a buffer owned by the evaluator; every call stores the ids of
    the simulations of that call in it (100, 101, ... for the first call, 200,
    201, ... for the second call) and returns the very same array object again.
    """

    def __init__(self, rows: int) -> None:
        self.sim_ids = np.zeros(rows, dtype=np.int64)
        self.calls = 0

    def __call__(
        self, variables: np.ndarray, context: EvaluatorContext
    ) -> EvaluatorResult:
        self.calls += 1
        self.sim_ids[:] = 100 * self.calls + np.arange(variables.shape[0])
        objectives = (variables**2).sum(axis=1, keepdims=True) + context.realizations[
            :, np.newaxis
        ]
        return EvaluatorResult(
            objectives=objectives, evaluation_info={"sim_id": self.sim_ids}
        )


def check_b() -> None:
    config = EnOptConfig.model_validate(
        {
            "variables": {"initial_values": [0.0, 0.0]},
            "realizations": {"weights": [1.0, 1.0, 1.0]},
        }
    )
    evaluator = BufferReusingEvaluator(rows=3)
    ensemble = EnsembleEvaluator(config, None, evaluator, PluginManager())

    (first,) = ensemble.calculate(
        np.array([1.0, 2.0]), compute_functions=True, compute_gradients=False
    )
    assert isinstance(first, FunctionResults)
    info = first.evaluations.evaluation_info["sim_id"]
    at_delivery = info.copy()  # [100, 101, 102]

    # B1: every other array in a delivered result is read-only ...
    if first.evaluations.objectives.flags.writeable:
        problem("B0: evaluations.objectives of a delivered result is writable")
    if info.flags.writeable:
        problem(
            "B1: evaluations.evaluation_info['sim_id'] of a delivered result is "
            "writable, delivered results are not immutable"
        )
    # B2: ... and a copy; evaluation_info is a view of the evaluator's array:
    if np.shares_memory(info, evaluator.sim_ids):
        problem(
            "B2: evaluations.evaluation_info['sim_id'] of a delivered result shares "
            "memory with the array the evaluator returned (not a snapshot)"
        )

    # B3: consequence: the next evaluation changes the result delivered before.
    ensemble.calculate(
        np.array([3.0, 4.0]), compute_functions=True, compute_gradients=False
    )
    now = first.evaluations.evaluation_info["sim_id"]
    if not np.array_equal(now, at_delivery):
        problem(
            "B3: a result that was already delivered changed after the next "
            f"evaluation: evaluation_info['sim_id'] was {at_delivery.tolist()} at "
            f"delivery and is {now.tolist()} now"
        )


def main() -> int:
    check_a()
    check_b()
    if PROBLEMS:
        print(f"\n{len(PROBLEMS)} violation(s) of property C06 observed")
        return 1
    print("no violation observed")
    return 0


if __name__ == "__main__":
    sys.exit(main())
