"""C08 counterexample: the constraint functions handed to SciPy are not
functions of the point they are called with.

The SciPy plug-in decides with `np.allclose` (rtol=1e-5, atol=1e-8) whether a
point is "the same" as the previously evaluated one. If it is, the normalized
constraint callables (and their Jacobians) return the values that were computed
for the *previous* point. Hence a point that clearly violates a configured
linear constraint is reported to the algorithm as satisfying it (value >= 0),
and the callables are locally constant although their Jacobian is not zero.

Only public API is used: `scipy.optimize.minimize` is replaced by a spy before
ropt is imported, so that the spy receives exactly what the plug-in passes to
the back-end.

Exit code 1: the property is violated (current sources). Exit code 0: all
constraint callables agree with the configured constraints.
"""

import sys

import numpy as np
import scipy.optimize

_REAL_MINIMIZE = scipy.optimize.minimize
_SPY = {"handler": None}


def _minimize_spy(**kwargs):
    return _SPY["handler"](**kwargs)


scipy.optimize.minimize = _minimize_spy

from ropt.evaluator import EvaluatorResult  # noqa: E402
from ropt.plan import BasicOptimizer  # noqa: E402

TARGET = np.array([1200.0, 900.0])

# Configured linear constraint:  x0 + x1 <= UPPER
COEFFICIENTS = np.array([[1.0, 1.0]])


def evaluator(variables, _context):
    objectives = np.array([[np.sum((v - TARGET) ** 2)] for v in variables])
    return EvaluatorResult(objectives=objectives)


def make_config(method, initial, upper, **optimizer):
    return {
        "variables": {"initial_values": initial},
        "optimizer": {"method": method, "options": {}, **optimizer},
        "gradient": {"perturbation_magnitudes": 0.01, "number_of_perturbations": 1},
        "linear_constraints": {
            "coefficients": COEFFICIENTS,
            "lower_bounds": -np.inf,
            "upper_bounds": upper,
        },
    }


def configured_ok(point, upper):
    return bool((COEFFICIENTS @ point)[0] <= upper)


def passed_ok(constraints, point):
    ok = True
    for con in constraints:
        value = float(np.atleast_1d(con["fun"](point))[0])
        ok = ok and (value == 0.0 if con["type"] == "eq" else value >= 0.0)
    return ok


failures = []

# ---------------------------------------------------------------------------
# Part 1: direct check of the callables handed to SLSQP.
# ---------------------------------------------------------------------------
UPPER1 = 2000.001
X1 = np.array([1000.0, 1000.0])  # satisfies  x0 + x1 <= 2000.001
X2 = np.array([1000.009, 1000.004])  # violates it by 0.012


def part1(**kwargs):
    constraints = kwargs["constraints"]
    assert len(constraints) == 1 and constraints[0]["type"] == "ineq"
    con = constraints[0]

    # What every algorithm does first: evaluate the objective at x0.
    kwargs["fun"](X1)

    for point in (X1, X2):
        cfg_ok = configured_ok(point, UPPER1)
        got_ok = passed_ok(constraints, point)
        value = float(np.atleast_1d(con["fun"](point))[0])
        print(
            f"  point {point}: x0+x1-{UPPER1} = {point.sum() - UPPER1:+.6f}, "
            f"configured constraint satisfied: {cfg_ok}; "
            f"normalized function passed to SLSQP = {value:+.6f} "
            f"(satisfied: {got_ok})"
        )
        if cfg_ok != got_ok:
            failures.append(
                f"SLSQP: point {point} satisfies the configured constraint: "
                f"{cfg_ok}, but the function passed to SciPy says: {got_ok}"
            )

    # The Jacobian must be the derivative of the value (same sign). Use a
    # plain central difference with an ordinary step size:
    kwargs["fun"](X1)
    jac = np.asarray(con["jac"](X1), dtype=float)
    step = 1e-4
    fdiff = np.zeros(2)
    for idx in range(2):
        delta = np.zeros(2)
        delta[idx] = step
        fdiff[idx] = (
            float(np.atleast_1d(con["fun"](X1 + delta))[0])
            - float(np.atleast_1d(con["fun"](X1 - delta))[0])
        ) / (2 * step)
    print(f"  jacobian passed to SLSQP: {jac}, central difference of fun: {fdiff}")
    if not np.allclose(jac, fdiff, atol=1e-3):
        failures.append(
            f"SLSQP: Jacobian {jac} is not the derivative of the constraint "
            f"function passed to SciPy (central difference: {fdiff})"
        )


print("Part 1: callables handed to SLSQP, x0 + x1 <= 2000.001")
_SPY["handler"] = part1
BasicOptimizer(make_config("slsqp", X1, UPPER1), evaluator).run()

# ---------------------------------------------------------------------------
# Part 2: an ordinary COBYLA run; record what the algorithm is told.
# ---------------------------------------------------------------------------
UPPER2 = 2000.0
stats = {"calls": 0, "wrong": []}


def part2(**kwargs):
    wrapped = []
    for con in kwargs["constraints"]:

        def fun(point, _fun=con["fun"]):
            value = _fun(point)
            truth = UPPER2 - float((COEFFICIENTS @ point)[0])
            told = float(np.atleast_1d(value)[0])
            stats["calls"] += 1
            # Ignore rounding: only count clear disagreements.
            if (truth < -1e-6 and told >= 0.0) or (truth > 1e-6 and told < 0.0):
                stats["wrong"].append((np.array(point), told, truth))
            return value

        wrapped.append({**con, "fun": fun})
    kwargs["constraints"] = wrapped
    return _REAL_MINIMIZE(**kwargs)


print("Part 2: ordinary COBYLA run, x0 + x1 <= 2000")
_SPY["handler"] = part2
BasicOptimizer(
    make_config("cobyla", [500.0, 500.0], UPPER2, max_iterations=200, tolerance=1e-10),
    evaluator,
).run()
print(
    f"  {stats['calls']} constraint calls, {len(stats['wrong'])} of them told "
    "the algorithm the opposite of the configured constraint"
)
for point, told, truth in stats["wrong"][:3]:
    print(f"    point {point}: {UPPER2} - (x0+x1) = {truth:+.6f}, passed value {told:+.6f}")
if stats["wrong"]:
    failures.append(
        f"COBYLA: {len(stats['wrong'])} of {stats['calls']} constraint calls "
        "misreported the feasibility of the point"
    )

if failures:
    print("\nPROPERTY VIOLATED:")
    for failure in failures:
        print(" -", failure)
    sys.exit(1)
print("\nOK: constraint callables agree with the configured constraints")
sys.exit(0)
