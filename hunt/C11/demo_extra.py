"""Secondary C11 observations (see FINDING.txt, section "Further observations").

Each check compares a run without transforms with a run of the same user-domain
configuration with scaling transforms. Prints one line per check; exits 1 if
any of them differs.
"""

import copy
import sys

import numpy as np

from ropt.config.enopt import EnOptConfig, VariablesConfig
from ropt.enums import EventType
from ropt.evaluator import EvaluatorResult
from ropt.plan import BasicOptimizer, OptimizerContext, Plan
from ropt.transforms import OptModelTransforms, VariableScaler
from ropt.transforms.base import ObjectiveTransform


class ObjectiveScaler(ObjectiveTransform):
    def __init__(self, scales):  # noqa: ANN001
        self._scales = scales

    def to_optimizer(self, objectives):  # noqa: ANN001
        return objectives / self._scales

    def from_optimizer(self, objectives):  # noqa: ANN001
        return objectives * self._scales


def sphere(variables, context):  # noqa: ANN001, ARG001
    return EvaluatorResult(objectives=np.sum(variables**2, axis=1, keepdims=True))


def evaluate(config, transforms, evaluator=sphere, handler=None, **handler_kwargs):  # noqa: ANN001
    got = []
    context = OptimizerContext(evaluator=evaluator).add_observer(
        EventType.FINISHED_EVALUATION, lambda event: got.extend(event.data["results"])
    )
    plan = Plan(context)
    step = plan.add_step("evaluator")
    obj = None if handler is None else plan.add_handler(handler, sources={step}, **handler_kwargs)
    plan.run_step(step, config=config, **({} if transforms is None else {"transforms": transforms}))
    return got, (None if obj is None else plan.get(obj, "results"))


CONFIG = {
    "variables": {"initial_values": [1.0, 2.0], "lower_bounds": [0, 0], "upper_bounds": [10, 10]},
    "linear_constraints": {
        "coefficients": [[1, 1], [1, -1]],
        "lower_bounds": [0, -np.inf],
        "upper_bounds": [5, 1],
    },
}


def scaler():
    return OptModelTransforms(variables=VariableScaler(np.array([2.0, 4.0]), np.array([1.0, -1.0])))


def check_store():
    _, plain = evaluate(copy.deepcopy(CONFIG), None, handler="store")
    _, trans = evaluate(copy.deepcopy(CONFIG), scaler(), handler="store")
    a, b = plain[0].evaluations.variables, trans[0].evaluations.variables
    return np.allclose(a, b), f"store handler variables: plain {a}, with scaler {b}"


def check_stale_equation_scaling():
    transforms = scaler()
    config1 = EnOptConfig.model_validate(copy.deepcopy(CONFIG), context=transforms)
    other = copy.deepcopy(CONFIG)
    other["linear_constraints"]["coefficients"] = [[10, 0], [0, 100]]
    EnOptConfig.model_validate(other, context=transforms)  # same transforms, other config
    plain, _ = evaluate(copy.deepcopy(CONFIG), None)
    trans, _ = evaluate(config1, transforms)
    a, b = plain[0].constraint_info.linear_upper, trans[0].constraint_info.linear_upper
    return np.allclose(a, b), f"linear_upper after validating a 2nd config: plain {a}, with scaler {b}"


def check_config_object_mutation():
    variables = VariablesConfig(initial_values=[1.0, 2.0], lower_bounds=[0, 0], upper_bounds=[10, 10])
    first = []
    for _ in range(2):
        seen = []

        def evaluator(x, context, seen=seen):  # noqa: ANN001
            seen.append(x.copy())
            return sphere(x, context)

        BasicOptimizer(
            {"variables": variables, "optimizer": {"max_functions": 1}}, evaluator, transforms=scaler()
        ).run()
        first.append(seen[0][0])
    ok = np.allclose(first[0], first[1]) and np.allclose(variables.initial_values, [1.0, 2.0])
    return ok, (
        f"VariablesConfig object reused: 1st run starts at {first[0]}, 2nd at {first[1]}, "
        f"user's object now holds {variables.initial_values}"
    )


def check_sort_objective_filter():
    def evaluator(x, context):  # noqa: ANN001
        real = np.asarray(context.realizations)
        values = np.stack([np.array([1.0, 2.0, 3.0])[real], np.array([30.0, 20.0, 10.0])[real]], axis=1)
        return EvaluatorResult(objectives=values + x.sum(axis=1, keepdims=True))

    config = {
        "variables": {"initial_values": [0.0]},
        "objectives": {"weights": [0.5, 0.5], "realization_filters": [0, 0]},
        "realizations": {"weights": [1, 1, 1]},
        "realization_filters": [
            {"method": "sort-objective", "options": {"sort": [0, 1], "first": 0, "last": 0}}
        ],
    }
    plain, _ = evaluate(copy.deepcopy(config), None, evaluator)
    trans, _ = evaluate(
        copy.deepcopy(config), OptModelTransforms(objectives=ObjectiveScaler(np.array([1.0, 100.0]))), evaluator
    )
    a, b = plain[0].functions.objectives, trans[0].functions.objectives
    return np.allclose(a, b), f"sort-objective over 2 objectives: objectives plain {a}, with objective scaler {b}"


def check_tracker_tolerance():
    config = {"variables": {"initial_values": [1000.0 + 1e-6], "lower_bounds": [0.0], "upper_bounds": [1000.0]}}
    _, plain = evaluate(copy.deepcopy(config), None, handler="tracker")
    _, trans = evaluate(
        copy.deepcopy(config), OptModelTransforms(variables=VariableScaler(np.array([1e5]), None)), handler="tracker"
    )
    return (plain is None) == (trans is None), (
        f"tracker (tolerance 1e-10), bound violated by 1e-6: plain keeps {plain is not None}, "
        f"with scaler keeps {trans is not None}"
    )


def main() -> int:
    status = 0
    for check in (
        check_store,
        check_stale_equation_scaling,
        check_config_object_mutation,
        check_sort_objective_filter,
        check_tracker_tolerance,
    ):
        ok, message = check()
        print("same     " if ok else "DIFFERENT", check.__name__, "-", message)
        status |= not ok
    return int(status)


if __name__ == "__main__":
    sys.exit(main())
