"""C11 counterexample: the `variables` argument of the plan steps.

A point that the user hands to the evaluator step or to the optimizer step
(`plan.run_step(step, config=..., variables=point)`) is evaluated as given when
no transforms are supplied.  As soon as a `VariableScaler` is supplied, the very
same call makes the evaluator receive `point * scales + offsets` instead of
`point`, and the reported user-domain `evaluations.variables`, objectives and
constraint differences are those of that other point.

The same happens with the library's own restart idiom (see tests/test_plan.py,
test_restart_last / test_restart_optimum): feeding the variables of the result
kept by the tracker back into `run_step(..., variables=...)` re-evaluates the
same point without transforms, but a different point with transforms.

Exit code 1: property violated (current sources).  Exit code 0: the evaluator
receives the same user-domain vectors with and without transforms.
"""

import sys

import numpy as np

from ropt.enums import EventType
from ropt.evaluator import EvaluatorResult
from ropt.plan import OptimizerContext, Plan
from ropt.results import FunctionResults
from ropt.transforms import OptModelTransforms, VariableScaler

CONFIG = {
    "variables": {
        "initial_values": [1.0, 2.0],
        "lower_bounds": [0.0, 0.0],
        "upper_bounds": [10.0, 10.0],
    },
    "linear_constraints": {
        "coefficients": [[1.0, 1.0]],
        "lower_bounds": [0.0],
        "upper_bounds": [8.0],
    },
    "optimizer": {"method": "slsqp", "max_functions": 1},
    "gradient": {"number_of_perturbations": 2, "perturbation_magnitudes": 0.01},
}
POINT = np.array([3.0, 4.0])  # A user-domain point, inside all bounds.


def make_transforms() -> OptModelTransforms:
    return OptModelTransforms(
        variables=VariableScaler(np.array([2.0, 4.0]), np.array([1.0, -1.0]))
    )


def make_config() -> dict:
    return {
        key: {k: (list(v) if isinstance(v, list) else v) for k, v in value.items()}
        for key, value in CONFIG.items()
    }


def run(step_name: str, transforms: OptModelTransforms | None, mode: str):
    """Run one step and return (rows seen by the evaluator, first user-domain result)."""
    seen: list[np.ndarray] = []
    reported: list[FunctionResults] = []

    def evaluator(variables, context):  # noqa: ANN001, ARG001
        seen.append(np.array(variables, copy=True))
        return EvaluatorResult(objectives=np.sum(variables**2, axis=1, keepdims=True))

    def observer(event) -> None:  # noqa: ANN001
        reported.extend(
            item for item in event.data["results"] if isinstance(item, FunctionResults)
        )

    context = OptimizerContext(evaluator=evaluator).add_observer(
        EventType.FINISHED_EVALUATION, observer
    )
    plan = Plan(context)
    kwargs = {} if transforms is None else {"transforms": transforms}

    if mode == "point":
        # The user supplies a point directly:
        step = plan.add_step(step_name)
        plan.run_step(step, config=make_config(), variables=POINT, **kwargs)
        expected = POINT
    else:
        # The restart idiom: evaluate the initial values, take the variables of
        # the result kept by the tracker and pass them on to the next step:
        first = plan.add_step("evaluator")
        tracker = plan.add_handler("tracker", sources={first})
        plan.run_step(first, config=make_config(), **kwargs)
        expected = np.array(plan.get(tracker, "results").evaluations.variables)
        seen.clear()
        reported.clear()
        step = plan.add_step(step_name)
        plan.run_step(step, config=make_config(), variables=expected, **kwargs)

    return expected, seen[0][0], reported[0]


def main() -> int:
    failures = []
    for step_name in ("evaluator", "optimizer"):
        for mode in ("point", "restart"):
            expected0, seen0, result0 = run(step_name, None, mode)
            expected1, seen1, result1 = run(step_name, make_transforms(), mode)
            label = f"{step_name} step, {mode}"

            # Sanity: without transforms the point is evaluated as given, and
            # the point handed in is the same user-domain point in both runs.
            assert np.allclose(seen0, expected0), (label, seen0, expected0)
            assert np.allclose(expected0, expected1), (label, expected0, expected1)

            if not np.allclose(seen1, seen0):
                failures.append(
                    f"{label}: user-domain point {expected1} was handed in; the "
                    f"evaluator received {seen0} without transforms but {seen1} "
                    "with a VariableScaler"
                )
            if not np.allclose(
                result1.evaluations.variables, result0.evaluations.variables
            ):
                failures.append(
                    f"{label}: reported user-domain variables are "
                    f"{result0.evaluations.variables} without transforms but "
                    f"{result1.evaluations.variables} with a VariableScaler"
                )
            if not np.allclose(
                result1.functions.objectives, result0.functions.objectives
            ):
                failures.append(
                    f"{label}: reported objective is {result0.functions.objectives} "
                    f"without transforms but {result1.functions.objectives} with a "
                    "VariableScaler"
                )
            if not np.allclose(
                result1.constraint_info.linear_upper,
                result0.constraint_info.linear_upper,
            ):
                failures.append(
                    f"{label}: linear constraint difference (upper) is "
                    f"{result0.constraint_info.linear_upper} without transforms but "
                    f"{result1.constraint_info.linear_upper} with a VariableScaler"
                )

    if failures:
        print("C11 VIOLATED: a variable scaling transform changes the point that")
        print("is evaluated when it is passed via the `variables` argument:")
        for item in failures:
            print("  -", item)
        return 1
    print("OK: the evaluator receives the same user-domain vectors.")
    return 0


if __name__ == "__main__":
    sys.exit(main())
