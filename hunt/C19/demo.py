"""C19 demo: duplicate registrations of *installed* plug-ins are not rejected.

Two independent distributions are "installed" (plain dist-info directories on
sys.path, the standard importlib.metadata entry-point mechanism that
PluginManager.__init__ documents) and both register an optimizer plug-in in the
group `ropt.plugins.optimizer`.

  control : the names are `clash` and `Clash`  -> PluginManager() raises
            ConfigError("Duplicate plugin name: clash")   (duplicate rejected)
  test    : the names are `clash` and `clash`  -> expected the same rejection,
            but PluginManager() succeeds, one of the two plug-ins is silently
            dropped, and the surviving one is the one registered LAST.

Exit status: 1 if the identical-name duplicate is not rejected (property
violated), 0 if it is rejected with ConfigError.

Run with:  PYTHONPATH=/tmp/wt10-C19/src /venv/bin/python demo.py
"""

from __future__ import annotations

import json
import subprocess
import sys
import tempfile
from pathlib import Path

_PLUGIN_SOURCE = """
from ropt.plugins.optimizer.base import OptimizerPlugin

class P(OptimizerPlugin):
    def create(self, *args, **kwargs):
        raise NotImplementedError
    def is_supported(self, method):
        return method in {{"shared", "only{idx}"}}
    def __repr__(self):
        return "fake{idx}"
"""

_CHILD = """
import json, sys
sys.path[:0] = {paths!r}
from ropt.exceptions import ConfigError
from ropt.plugins import PluginManager

try:
    manager = PluginManager()
except ConfigError as exc:
    print(json.dumps({{"rejected": True, "message": str(exc)}}))
    sys.exit(0)
registry = [(name, repr(plugin)) for name, plugin in manager.plugins("optimizer")]
print(json.dumps({{
    "rejected": False,
    "registry": registry,
    "only1": manager.is_supported("optimizer", "only1"),
    "only2": manager.is_supported("optimizer", "only2"),
    "clash/only1": manager.is_supported("optimizer", "clash/only1"),
    "clash/only2": manager.is_supported("optimizer", "clash/only2"),
    "shared": repr(manager.get_plugin("optimizer", "shared")),
}}))
"""


def _install(root: Path, idx: int, entry_name: str) -> str:
    site = root / f"site{idx}"
    pkg = site / f"c19fake{idx}"
    info = site / f"c19fake{idx}-1.0.dist-info"
    pkg.mkdir(parents=True)
    info.mkdir(parents=True)
    (pkg / "__init__.py").write_text(_PLUGIN_SOURCE.format(idx=idx))
    (info / "METADATA").write_text(
        f"Metadata-Version: 2.1\nName: c19fake{idx}\nVersion: 1.0\n"
    )
    (info / "entry_points.txt").write_text(
        f"[ropt.plugins.optimizer]\n{entry_name} = c19fake{idx}:P\n"
    )
    return str(site)


def _scenario(name1: str, name2: str) -> dict:
    with tempfile.TemporaryDirectory() as tmp:
        paths = [_install(Path(tmp), 1, name1), _install(Path(tmp), 2, name2)]
        out = subprocess.run(
            [sys.executable, "-c", _CHILD.format(paths=paths)],
            check=True,
            capture_output=True,
            text=True,
        )
    return json.loads(out.stdout.strip().splitlines()[-1])


def main() -> int:
    import ropt

    print("ropt imported from", ropt.__file__)

    control = _scenario("clash", "Clash")
    print("control (clash / Clash):", control)
    if not control["rejected"]:
        print("NOTE: even the case-variant duplicate was not rejected")

    test = _scenario("clash", "clash")
    print("test    (clash / clash):", test)
    if test["rejected"]:
        print("OK: identical installed plug-in names are rejected as duplicates")
        return 0

    print()
    print("VIOLATION: two installed plug-ins were registered under the same name")
    print("`clash`, and the duplicate registration was NOT rejected:")
    print("  registry           :", test["registry"])
    print("  bare 'only1'       :", test["only1"], "(method of the first plug-in)")
    print("  bare 'only2'       :", test["only2"], "(method of the second plug-in)")
    print("  'clash/only1'      :", test["clash/only1"])
    print("  'clash/only2'      :", test["clash/only2"])
    print("  bare 'shared' ->   :", test["shared"])
    print("The plug-in registered first under the name was silently replaced by")
    print("the one registered later, whereas the same clash with names differing")
    print("only in case raises ConfigError('Duplicate plugin name: clash').")
    return 1


if __name__ == "__main__":
    sys.exit(main())
