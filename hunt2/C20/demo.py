"""C20 counterexample: external-process runs differ from in-process runs.

The configuration of the optimization is sent to the optimizer process as JSON
and validated again there. That round trip is lossy:

  A. NumPy arrays in ``optimizer.options`` arrive as Python lists. SciPy's TNC
     method only accepts NumPy arrays for its ``scale`` and ``offset`` options,
     so ``external/tnc`` fails where ``tnc`` runs normally.
  B. A linear constraint matrix with zero rows, shape (0, n), arrives as ``[]``
     and is read back as a (1, 0) matrix: the optimizer process dies while
     validating the configuration, where the in-process run completes.

With ``--sigchld`` a third, separate check is run (see FINDING.txt, it needs the
host program to ignore SIGCHLD): the optimizer process is killed with SIGKILL
during the run and the step nevertheless returns the normal-completion code.

Exit status 1: the property is violated, 0: it holds.
"""

from __future__ import annotations

import copy
import os
import signal
import sys
import time
from pathlib import Path
from typing import Any

import numpy as np

# The external optimizer starts the `ropt_plugin_optimizer` script, make sure
# that the one that belongs to this interpreter is found:
os.environ["PATH"] = (
    str(Path(sys.executable).parent) + os.pathsep + os.environ.get("PATH", "")
)

from ropt.enums import OptimizerExitCode  # noqa: E402
from ropt.evaluator import EvaluatorResult  # noqa: E402
from ropt.plan import BasicOptimizer  # noqa: E402
from ropt.results import FunctionResults, GradientResults  # noqa: E402


def _run(config: dict[str, Any], method: str, kill_at: int | None = None) -> Any:
    """Run one optimization, return (evaluated points, results, code, error)."""
    config = copy.deepcopy(config)
    config["optimizer"]["method"] = method
    points: list[Any] = []
    results: list[Any] = []
    calls = 0

    def evaluator(variables: Any, _: Any) -> EvaluatorResult:
        nonlocal calls
        if kill_at is not None and calls == kill_at:
            _kill_optimizer_process()
        calls += 1
        points.append(variables.copy())
        target = np.array([0.5, 0.25, -0.5])
        return EvaluatorResult(
            objectives=((variables - target) ** 2).sum(axis=1, keepdims=True)
        )

    def report(items: Any) -> None:
        for item in items:
            if isinstance(item, FunctionResults) and item.functions is not None:
                results.append(("F", item.functions.weighted_objective.copy()))
            if isinstance(item, GradientResults) and item.gradients is not None:
                results.append(("G", item.gradients.weighted_objective.copy()))

    optimizer = BasicOptimizer(config, evaluator).set_results_callback(report)
    try:
        optimizer.run()
    except Exception as exc:  # noqa: BLE001
        return points, results, None, exc
    return points, results, optimizer.exit_code, None


def _same(run1: Any, run2: Any) -> bool:
    points1, results1, code1, error1 = run1
    points2, results2, code2, error2 = run2
    return (
        code1 == code2
        and (error1 is None) == (error2 is None)
        and len(points1) == len(points2)
        and all(np.array_equal(a, b) for a, b in zip(points1, points2, strict=True))
        and len(results1) == len(results2)
        and all(
            a[0] == b[0] and np.array_equal(a[1], b[1])
            for a, b in zip(results1, results2, strict=True)
        )
    )


def _describe(run: Any) -> str:
    points, results, code, error = run
    return (
        f"{len(points)} evaluator calls, {len(results)} results, "
        f"exit code {code!r}, error {error!r}"
    )


def _compare(name: str, config: dict[str, Any], method: str) -> bool:
    internal = _run(config, method)
    external = _run(config, f"external/{method}")
    print(f"--- {name}")
    print(f"    {method:>24}: {_describe(internal)}")
    print(f"    {'external/' + method:>24}: {_describe(external)}")
    same = _same(internal, external)
    print("    identical" if same else "    DIFFERENT: property C20 violated")
    return same


def _kill_optimizer_process() -> None:
    me = os.getpid()
    for entry in Path("/proc").iterdir():
        if not entry.name.isdigit():
            continue
        try:
            stat = (entry / "stat").read_text().rsplit(")", 1)[1].split()
            cmdline = (entry / "cmdline").read_bytes()
        except OSError:
            continue
        if int(stat[1]) == me and b"ropt_plugin_optimizer" in cmdline:
            os.kill(int(entry.name), signal.SIGKILL)
            # Wait until it is really dead (a zombie, or gone):
            for _ in range(200):
                try:
                    state = (
                        (entry / "stat").read_text().rsplit(")", 1)[1].split()[0]
                    )
                except OSError:
                    break
                if state == "Z":
                    break
                time.sleep(0.01)


_BASE: dict[str, Any] = {
    "variables": {
        "initial_values": [0.0, 0.0, 0.1],
        "lower_bounds": -1.0,
        "upper_bounds": 1.0,
    },
    "optimizer": {"tolerance": 1e-4, "max_iterations": 3},
    "gradient": {"perturbation_magnitudes": 0.01},
}


def _check_tnc_scale() -> bool:
    config = copy.deepcopy(_BASE)
    # SciPy's TNC wants NumPy arrays here, a list is refused (also in-process):
    config["optimizer"]["options"] = {"scale": np.array([1.0, 2.0, 1.0])}
    return _compare("A: TNC with the `scale` option (a NumPy array)", config, "tnc")


def _check_empty_linear_constraints() -> bool:
    config = copy.deepcopy(_BASE)
    config["optimizer"]["options"] = {}
    config["linear_constraints"] = {
        "coefficients": np.zeros((0, 3)),
        "lower_bounds": [],
        "upper_bounds": [],
    }
    return _compare("B: SLSQP with a linear constraint matrix of zero rows", config, "slsqp")


def _check_sigchld() -> bool:
    signal.signal(signal.SIGCHLD, signal.SIG_IGN)
    config = copy.deepcopy(_BASE)
    config["optimizer"]["options"] = {}
    reference = _run(config, "slsqp")
    killed = _run(config, "external/slsqp", kill_at=2)
    print("--- C: SIGCHLD ignored, optimizer process killed (SIGKILL) at evaluation 2")
    print(f"    {'slsqp':>24}: {_describe(reference)}")
    print(f"    {'external/slsqp (killed)':>24}: {_describe(killed)}")
    ok = not (
        killed[3] is None and killed[2] == OptimizerExitCode.OPTIMIZER_STEP_FINISHED
    )
    print(
        "    death was reported"
        if ok
        else "    the death of the process was reported as normal completion: "
        "property C20 violated"
    )
    return ok


def main() -> int:
    if "--sigchld" in sys.argv[1:]:
        return 0 if _check_sigchld() else 1
    ok_a = _check_tnc_scale()
    ok_b = _check_empty_linear_constraints()
    return 0 if ok_a and ok_b else 1


if __name__ == "__main__":
    sys.exit(main())
