"""C11 counterexample: objective scaling changes the user-domain function values.

A realization filter (`sort-objective` or `cvar-objective`) that ranks the
realizations by more than one objective uses a weighted sum of the objective
values *in the optimizer domain*. Supplying an objective scaling transform with
different (positive) scales per objective therefore changes the ranking, hence
the realization weights, hence the user-domain per-objective function values
(and the set of realizations the evaluator is asked to evaluate for gradients).

The script evaluates the same user-domain configuration at the same point,
once without transforms and once with a positive objective scaler, and compares
what the user sees. Exit code 1: the property is violated; 0: it holds.
"""

from __future__ import annotations

import sys
from typing import Any

import numpy as np
from numpy.typing import NDArray

from ropt.evaluator import EvaluatorContext, EvaluatorResult
from ropt.plan import OptimizerContext, Plan
from ropt.transforms import OptModelTransforms
from ropt.transforms.base import ObjectiveTransform


class ObjectiveScaler(ObjectiveTransform):
    """Plain positive scaling of the objectives (same as in the test-suite)."""

    def __init__(self, scales: NDArray[np.float64]) -> None:
        self._scales = scales

    def to_optimizer(self, objectives: NDArray[np.float64]) -> NDArray[np.float64]:
        return objectives / self._scales

    def from_optimizer(self, objectives: NDArray[np.float64]) -> NDArray[np.float64]:
        return objectives * self._scales


# Per-realization objective values, independent of the variables:
#   realization 0: f0 = 1, f1 = 10
#   realization 1: f0 = 2, f1 = 0
VALUES = np.array([[1.0, 10.0], [2.0, 0.0]])


def evaluator(variables: NDArray[np.float64], context: EvaluatorContext) -> EvaluatorResult:
    objectives = VALUES[context.realizations, :] + 0.0 * variables.sum(axis=1)[:, None]
    return EvaluatorResult(objectives=objectives)


def config(method: str, options: dict[str, Any]) -> dict[str, Any]:
    return {
        "variables": {"initial_values": [0.5, 0.25]},
        "objectives": {"weights": [0.5, 0.5], "realization_filters": [0, 0]},
        "realizations": {"weights": [0.5, 0.5]},
        "realization_filters": [{"method": method, "options": options}],
    }


def evaluate(cfg: dict[str, Any], transforms: OptModelTransforms | None) -> Any:
    plan = Plan(OptimizerContext(evaluator=evaluator))
    step = plan.add_step("evaluator")
    tracker = plan.add_handler(
        "tracker", what="last", constraint_tolerance=None, sources={step}
    )
    plan.run_step(step, config=cfg, transforms=transforms)
    return plan.get(tracker, "results")  # user-domain results


def main() -> int:
    failures = 0
    transforms = OptModelTransforms(objectives=ObjectiveScaler(np.array([1.0, 100.0])))
    cases = {
        # keep only the best realization according to objectives 0 and 1:
        "sort-objective": {"sort": [0, 1], "first": 0, "last": 0},
        # CVaR over the worst half of the realizations:
        "cvar-objective": {"sort": [0, 1], "percentile": 0.5},
    }
    for method, options in cases.items():
        plain = evaluate(config(method, options), None)
        scaled = evaluate(config(method, options), transforms)
        # The per-realization values are correctly mapped back:
        assert np.allclose(plain.evaluations.objectives, scaled.evaluations.objectives)
        same_weights = np.allclose(
            plain.realizations.objective_weights, scaled.realizations.objective_weights
        )
        same_functions = np.allclose(
            plain.functions.objectives, scaled.functions.objectives
        )
        print(f"--- realization filter {method} {options}")
        print("  without transforms: objective function values =",
              plain.functions.objectives,
              " realization weights =", plain.realizations.objective_weights.tolist())
        print("  with objective scales [1, 100]: objective function values =",
              scaled.functions.objectives,
              " realization weights =", scaled.realizations.objective_weights.tolist())
        if not (same_weights and same_functions):
            failures += 1
            print("  VIOLATION: the user-domain per-objective function values "
                  "(and realization weights) depend on the objective scaling")
    if failures:
        print(f"C11 violated in {failures} case(s)")
        return 1
    print("C11 holds: objective scaling does not change the user-domain results")
    return 0


if __name__ == "__main__":
    sys.exit(main())
