"""C11, second counterexample: sub-configuration objects are transformed again
at every validation.

`VariablesConfig` (and `NonlinearConstraintsConfig`) apply the variable
(constraint) transform inside a pydantic `mode="after"` model validator that
modifies `self`. Pydantic runs such validators also when an *existing instance*
is used as a field value, so every `EnOptConfig.model_validate(..., context=
transforms)` of a dictionary holding such an instance transforms the very same
object once more. Without transforms re-validation is idempotent; with
transforms the second step of a plan sees other initial values and bounds.

Exit code 1: property violated, 0: holds.
"""

from __future__ import annotations

import sys
from typing import Any

import numpy as np

from ropt.config.enopt import NonlinearConstraintsConfig, VariablesConfig
from ropt.evaluator import EvaluatorResult
from ropt.plan import OptimizerContext, Plan
from ropt.results import FunctionResults
from ropt.transforms import OptModelTransforms, VariableScaler
from ropt.transforms.base import NonLinearConstraintTransform


class ConstraintScaler(NonLinearConstraintTransform):
    def __init__(self, scales: Any) -> None:
        self._scales = scales

    def bounds_to_optimizer(self, lower_bounds: Any, upper_bounds: Any) -> Any:
        return lower_bounds / self._scales, upper_bounds / self._scales

    def to_optimizer(self, constraints: Any) -> Any:
        return constraints / self._scales

    def from_optimizer(self, constraints: Any) -> Any:
        return constraints * self._scales

    def nonlinear_constraint_diffs_from_optimizer(self, lower: Any, upper: Any) -> Any:
        return lower * self._scales, upper * self._scales


def run(transforms: OptModelTransforms | None) -> list[Any]:
    seen: list[Any] = []

    def evaluator(variables: Any, _: Any) -> EvaluatorResult:
        seen.append(variables[0].copy())
        return EvaluatorResult(
            objectives=np.sum(variables**2, axis=1, keepdims=True),
            constraints=np.sum(variables, axis=1, keepdims=True),
        )

    config = {
        "variables": VariablesConfig(
            initial_values=[1.0, 2.0], lower_bounds=[0.0, 0.0], upper_bounds=[3.0, 3.0]
        ),
        "nonlinear_constraints": NonlinearConstraintsConfig(
            lower_bounds=[0.0], upper_bounds=[4.0]
        ),
    }
    plan = Plan(OptimizerContext(evaluator=evaluator))
    step = plan.add_step("evaluator")
    tracker = plan.add_handler(
        "tracker", what="last", constraint_tolerance=None, sources={step}
    )
    out = []
    for _ in range(2):  # the same step, the same configuration, twice
        plan.run_step(step, config=config, transforms=transforms)
        results = plan.get(tracker, "results")
        assert isinstance(results, FunctionResults)
        assert results.constraint_info is not None
        out.append(
            (
                seen[-1],
                results.evaluations.variables,
                results.constraint_info.bound_lower,
                results.constraint_info.nonlinear_upper,
            )
        )
    return out


def main() -> int:
    plain = run(None)
    scaled = run(
        OptModelTransforms(
            variables=VariableScaler(np.array([2.0, 4.0]), np.array([1.0, -1.0])),
            nonlinear_constraints=ConstraintScaler(np.array([10.0])),
        )
    )
    bad = 0
    names = ("evaluator input", "result variables", "bound_lower", "nonlinear_upper")
    for idx, (p, s) in enumerate(zip(plain, scaled, strict=True)):
        for name, a, b in zip(names, p, s, strict=True):
            ok = np.allclose(a, b)
            print(f"run {idx + 1}: {name}: without transforms {a}, with transforms {b}"
                  + ("" if ok else "   <-- VIOLATION"))
            bad += not ok
    if bad:
        print("C11 violated: with transforms the second validation transforms the "
              "configuration objects again")
        return 1
    print("C11 holds")
    return 0


if __name__ == "__main__":
    sys.exit(main())
