"""C17 counterexample: a size-one `gradient.samplers` assignment breaks every sampler.

The configuration documentation (EnOptConfig, "Info" box) states that the numpy
arrays in the nested configuration classes have either the size of the
configured property (here: the number of variables) or a size of one, in which
case "the single value is broadcasted to all relevant elements".  The field
`gradient.samplers` ("indices of the samplers to use for each variable") is
accepted with size one by the validation, so `samplers: [k]` (or the scalar
`k`) assigns all variables to sampler k.

The sampler contract says that each built-in sampler then returns an array of
shape (realizations, perturbations, variables), bounded methods within [-1, 1],
zeros for variables that it does not handle, Latin hypercube stratification per
variable, identical perturbations for all realizations if shared.

On the unmodified sources every built-in method raises an IndexError from
SciPySampler.generate_samples instead, unless a variable mask happens to be
configured as well (then numpy broadcasting rescues the size-one array and the
very same assignment works).

Exit code 1: property violated, 0: samplers behave as the property says.
"""

from __future__ import annotations

import sys
import traceback
from typing import Any

import numpy as np

from ropt.config.enopt import EnOptConfig
from ropt.ensemble_evaluator import EnsembleEvaluator
from ropt.evaluator import EvaluatorContext, EvaluatorResult
from ropt.plugins import PluginManager
from ropt.results import GradientResults

METHODS = ["uniform", "norm", "truncnorm", "sobol", "halton", "lhs"]
BOUNDED = {"uniform", "truncnorm", "sobol", "halton", "lhs"}
NV, NR, NP = 3, 2, 4
X0 = np.array([0.0, 0.0, 0.0])


def evaluator(variables: Any, _: EvaluatorContext) -> EvaluatorResult:
    return EvaluatorResult(objectives=np.sum(variables**2, axis=1, keepdims=True))


def samples_from_pipeline(
    method: str, *, shared: bool, assignment: Any, mask: list[bool] | None
) -> np.ndarray:
    """Run one gradient evaluation and recover the samples that were used.

    The second sampler is the one under test, the first one is a decoy that
    must not touch any variable.
    """
    config: dict[str, Any] = {
        "variables": {"initial_values": X0.tolist()},
        "realizations": {"weights": [1.0] * NR},
        "gradient": {
            "number_of_perturbations": NP,
            "perturbation_magnitudes": 1.0,  # perturbed - x0 == samples
            "samplers": assignment,
        },
        "samplers": [
            {"method": "norm"},
            {"method": method, "shared": shared},
        ],
    }
    if mask is not None:
        config["variables"]["mask"] = mask
    enopt_config = EnOptConfig.model_validate(config)
    ensemble_evaluator = EnsembleEvaluator(
        enopt_config, None, evaluator, PluginManager()
    )
    results = ensemble_evaluator.calculate(
        X0, compute_functions=True, compute_gradients=True
    )
    gradient = next(item for item in results if isinstance(item, GradientResults))
    return np.asarray(gradient.evaluations.perturbed_variables - X0)


def check_contract(
    samples: np.ndarray, method: str, *, shared: bool, handled: np.ndarray
) -> list[str]:
    errors = []
    if samples.shape != (NR, NP, NV):
        return [f"shape {samples.shape} != {(NR, NP, NV)}"]
    if np.any(samples[..., ~handled] != 0.0):
        errors.append("non-zero entries for variables that are not handled")
    if np.any(np.all(samples[..., handled] == 0.0, axis=(0, 1))):
        errors.append("a handled variable is not perturbed at all")
    if method in BOUNDED and np.any(np.abs(samples) > 1.0):
        errors.append("samples outside [-1, 1]")
    if shared and not all(np.array_equal(samples[0], samples[r]) for r in range(NR)):
        errors.append("shared sampler: realizations differ")
    if not shared and any(np.array_equal(samples[0], samples[r]) for r in range(1, NR)):
        errors.append("non-shared sampler: realizations are identical")
    if method == "lhs":
        points = samples[0] if shared else samples.reshape(-1, NV)
        count = points.shape[0]
        for idx in np.where(handled)[0]:
            strata = np.sort(np.floor((points[:, idx] + 1.0) / 2.0 * count))
            if not np.array_equal(strata, np.arange(count)):
                errors.append(f"lhs: variable {idx} is not stratified")
    return errors


def main() -> int:
    failures = 0

    # The same assignment, "all variables use sampler 1", written in the three
    # ways that the configuration accepts, with and without a variable mask:
    cases = [
        ("full-size [1, 1, 1], no mask", [1, 1, 1], None),
        ("size-one [1], mask [T, F, T]", [1], [True, False, True]),
        ("size-one [1], no mask", [1], None),
        ("scalar 1, no mask", 1, None),
    ]
    for label, assignment, mask in cases:
        handled = np.ones(NV, dtype=bool) if mask is None else np.array(mask)
        for method in METHODS:
            for shared in (False, True):
                where = f"{label}: method={method}, shared={shared}"
                try:
                    samples = samples_from_pipeline(
                        method, shared=shared, assignment=assignment, mask=mask
                    )
                except Exception:  # noqa: BLE001
                    last = traceback.format_exc().strip().splitlines()
                    origin = next(
                        (
                            line.strip()
                            for line in reversed(last)
                            if "ropt/plugins/sampler" in line
                        ),
                        "",
                    )
                    print(f"FAIL {where}\n     {last[-1]}\n     {origin}")
                    failures += 1
                    continue
                errors = check_contract(samples, method, shared=shared, handled=handled)
                if errors:
                    print(f"FAIL {where}: {'; '.join(errors)}")
                    failures += 1

    if failures:
        print(
            f"\n{failures} sampler runs violate the perturbation-sample contract: "
            "a size-one gradient.samplers assignment is accepted by the "
            "configuration but is not broadcast to the variables, so the "
            "built-in samplers fail instead of returning a "
            "(realizations, perturbations, variables) array."
        )
        return 1
    print("all sampler runs satisfy the contract")
    return 0


if __name__ == "__main__":
    sys.exit(main())
