"""C14 counterexample: an evaluator step does not end with USER_ABORT on abort.

The documented way to abort a run is to raise
OptimizationAborted(exit_code=OptimizerExitCode.USER_ABORT) from an event
observer or handler (this is what BasicOptimizer.set_abort_callback does at
START_EVALUATION, and what tests/test_plan.py::test_plan_abort does at
FINISHED_EVALUATION). An optimizer step then returns USER_ABORT normally. An
evaluator step, however, lets the exception escape from Plan.run_step(): it
neither returns an exit code, nor emits FINISHED_EVALUATOR_STEP, nor marks the
plan as aborted.

The script runs both step kinds, for every failure pattern of a small
ensemble (every subset of failing realizations) and for an abort requested
at each of the four events of the step. It exits 1 if any run does not return
USER_ABORT normally, and 0 otherwise.
"""

import itertools
import sys

import numpy as np

from ropt.enums import EventType, OptimizerExitCode
from ropt.evaluator import EvaluatorResult
from ropt.exceptions import OptimizationAborted
from ropt.plan import OptimizerContext, Plan

REALIZATIONS = 3


def make_config():
    return {
        "variables": {
            "initial_values": [0.0, 0.2, 0.1],
            "lower_bounds": -2.0,
            "upper_bounds": 2.0,
        },
        "optimizer": {"method": "slsqp", "max_functions": 3},
        "objectives": {"weights": [1.0]},
        "realizations": {
            "weights": [1.0] * REALIZATIONS,
            # Failures are tolerated, the abort is the only reason to stop:
            "realization_min_success": 0,
        },
        "gradient": {"number_of_perturbations": 2, "perturbation_min_success": 1},
    }


def make_evaluator(failing):
    def evaluator(variables, context):
        objectives = np.zeros((variables.shape[0], 1))
        for idx, realization in enumerate(context.realizations):
            objectives[idx, 0] = np.sum((variables[idx] - 0.5 - 0.1 * realization) ** 2)
            if int(realization) in failing:
                objectives[idx, 0] = np.nan
        return EvaluatorResult(objectives=objectives)

    return evaluator


def abort(_event):
    raise OptimizationAborted(exit_code=OptimizerExitCode.USER_ABORT)


def run(step_kind, event_type, failing):
    context = OptimizerContext(evaluator=make_evaluator(failing))
    context.add_observer(event_type, abort)
    plan = Plan(context)
    step = plan.add_step(step_kind)
    return plan.run_step(step, config=make_config()), plan


def main():
    events = {
        "optimizer": (
            EventType.START_OPTIMIZER_STEP,
            EventType.START_EVALUATION,
            EventType.FINISHED_EVALUATION,
            EventType.FINISHED_OPTIMIZER_STEP,
        ),
        "evaluator": (
            EventType.START_EVALUATOR_STEP,
            EventType.START_EVALUATION,
            EventType.FINISHED_EVALUATION,
            EventType.FINISHED_EVALUATOR_STEP,
        ),
    }
    failure_patterns = [
        set(subset)
        for size in range(REALIZATIONS + 1)
        for subset in itertools.combinations(range(REALIZATIONS), size)
    ]

    violations = []
    runs = 0
    for step_kind, event_types in events.items():
        for event_type in event_types:
            for failing in failure_patterns:
                runs += 1
                label = (
                    f"{step_kind} step, abort at {event_type.name}, "
                    f"failing realizations {sorted(failing)}"
                )
                try:
                    exit_code, _ = run(step_kind, event_type, failing)
                except OptimizationAborted as exc:
                    violations.append(
                        f"{label}: run_step() did not return, it raised "
                        f"OptimizationAborted(exit_code={exc.exit_code!r})"
                    )
                    continue
                except Exception as exc:  # noqa: BLE001
                    violations.append(
                        f"{label}: run_step() raised {type(exc).__name__}: {exc}"
                    )
                    continue
                if exit_code != OptimizerExitCode.USER_ABORT:
                    violations.append(f"{label}: returned {exit_code!r}")

    if violations:
        print(f"{len(violations)} of {runs} aborted runs did not end with USER_ABORT:")
        for line in violations:
            print("  " + line)
        return 1
    print(f"all {runs} aborted runs returned USER_ABORT")
    return 0


if __name__ == "__main__":
    sys.exit(main())
