"""C04 counterexample: cvar-constraint ranks realizations on fl(c - bound).

For a one-sided constraint the CVaR filter must put its mass on the worst
realizations with respect to the bound: the LARGEST constraint values for an
upper-bounded constraint, the SMALLEST for a lower-bounded one.  The library
ranks on the rounded differences `c - upper` / `lower - c` instead of on the
values themselves.  Whenever the values differ by less than the floating point
spacing at the magnitude of the bound, the differences collapse to exact ties,
the ranking degenerates to realization-index order, and the filter puts the
tail mass on realizations that are NOT the worst ones - up to selecting exactly
the best realizations and reporting the best-case mean as the CVaR.

Exits 1 if the property is violated, 0 if the library behaves as stated.
"""

import sys
from fractions import Fraction

import numpy as np

from ropt.enums import EventType
from ropt.evaluator import EvaluatorResult
from ropt.plan import OptimizerContext, Plan


def oracle_weights(badness, percentile):
    """Exact CVaR weights: 1/n on the worst, last one fractional, sum = p."""
    n = len(badness)
    order = sorted(range(n), key=lambda i: -badness[i])
    weights = [Fraction(0)] * n
    remaining = Fraction(percentile)
    for idx in order:
        mass = min(remaining, Fraction(1, n))
        weights[idx] = mass
        remaining -= mass
        if remaining <= 0:
            break
    return np.array([float(w) for w in weights])


def evaluate(values, lower, upper, percentile):
    values = np.asarray(values, dtype=np.float64)
    n = values.size
    config = {
        "variables": {"initial_values": [0.0]},
        "realizations": {"weights": [1.0] * n},
        "realization_filters": [
            {
                "method": "cvar-constraint",
                "options": {"sort": 0, "percentile": percentile},
            }
        ],
        "nonlinear_constraints": {
            "lower_bounds": [lower],
            "upper_bounds": [upper],
            "realization_filters": [0],
        },
    }

    def evaluator(variables, context):
        assert np.array_equal(context.realizations, np.arange(n))
        return EvaluatorResult(
            objectives=np.ones((n, 1)), constraints=values[:, np.newaxis].copy()
        )

    collected = []
    context = OptimizerContext(evaluator=evaluator).add_observer(
        EventType.FINISHED_EVALUATION,
        lambda event: collected.extend(event.data["results"]),
    )
    plan = Plan(context)
    step = plan.add_step("evaluator")
    plan.run_step(step, config=config)
    (result,) = collected
    return (
        result.realizations.constraint_weights[0],
        float(result.functions.constraints[0]),
    )


CASES = [
    # (description, values, lower, upper, percentile, badness)
    (
        "upper bound 1e17 (c <= 1e17), values 1..4",
        [1.0, 2.0, 3.0, 4.0],
        -np.inf,
        1e17,
        0.5,
        lambda c: c,  # largest values are the worst
    ),
    (
        "lower bound -1e17 (c >= -1e17), values 4..1",
        [4.0, 3.0, 2.0, 1.0],
        -1e17,
        np.inf,
        0.5,
        lambda c: -c,  # smallest values are the worst
    ),
    (
        "upper bound 1.0 (c <= 1), tiny values of very different size",
        [1e-20, 3e-17, 2e-17, 1e-19],
        -np.inf,
        1.0,
        0.25,
        lambda c: c,
    ),
    (
        "upper bound 100 (c <= 100), 0.3 versus 0.1 + 0.2",
        [0.3, 0.1 + 0.2],
        -np.inf,
        100.0,
        0.5,
        lambda c: c,
    ),
    # Control: an ordinary bound, must pass in any case.
    (
        "control: upper bound 0.4, values 1..4",
        [1.0, 2.0, 3.0, 4.0],
        -np.inf,
        0.4,
        0.5,
        lambda c: c,
    ),
]


def main():
    failures = 0
    for description, values, lower, upper, percentile, badness in CASES:
        weights, reported = evaluate(values, lower, upper, percentile)
        values = np.asarray(values)
        expected = oracle_weights([badness(v) for v in values], percentile)
        expected_value = float(np.dot(expected, values) / expected.sum())
        weights_ok = np.allclose(weights, expected, rtol=0.0, atol=1e-15)
        value_ok = reported == expected_value or np.isclose(
            reported, expected_value, rtol=1e-15, atol=0.0
        )
        status = "ok" if weights_ok and value_ok else "VIOLATION"
        print(f"[{status}] {description}, percentile {percentile}")
        print(f"    values           : {values}")
        print(f"    weights          : {weights}")
        print(f"    expected weights : {expected}")
        print(f"    reported CVaR    : {reported!r}")
        print(f"    expected CVaR    : {expected_value!r}")
        if not (weights_ok and value_ok):
            failures += 1
    if failures:
        print(
            f"{failures} case(s): the CVaR weights are not on the worst "
            "realizations with respect to the constraint bound."
        )
        return 1
    return 0


if __name__ == "__main__":
    sys.exit(main())
