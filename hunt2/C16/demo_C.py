"""C16, third counterexample: changing only the seed does not change the perturbations.

The gradient seed is an int or a tuple of ints that is handed unchanged to
`numpy.random.default_rng` (src/ropt/ensemble_evaluator/_ensemble_evaluator.py,
line 83).  NumPy's SeedSequence zero-pads the entropy to its pool size, hence
trailing zeros in the tuple are not significant: the seeds 7 (= (7,)), (7, 0),
(7, 0, 0) and (7, 0, 0, 0) all give exactly the same perturbations.  The
documentation of GradientConfig recommends tuples with a unique ID to obtain
unique streams for nested and parallel plans; (seed,) for an outer plan and
(seed, 0) for the first nested run are in fact the same stream.

Exit code 1: two configurations that differ only in the seed give bit-identical
             perturbations.
Exit code 0: the perturbations differ.
"""

from __future__ import annotations

import sys
from typing import Any

import numpy as np

from ropt.evaluator import EvaluatorContext, EvaluatorResult
from ropt.plan import BasicOptimizer
from ropt.results import GradientResults


def evaluator(variables: np.ndarray, context: EvaluatorContext) -> EvaluatorResult:
    objectives = np.zeros((variables.shape[0], 1), dtype=np.float64)
    for idx, realization in enumerate(context.realizations):
        objectives[idx, 0] = float(np.sum((variables[idx] - 0.5 - 0.1 * realization) ** 2))
    return EvaluatorResult(objectives=objectives)


def perturbations(seed: Any, method: str) -> list[np.ndarray]:
    config: dict[str, Any] = {
        "variables": {"initial_values": [0.1, 0.2, 0.3]},
        "realizations": {"weights": [1.0, 1.0]},
        "optimizer": {"method": "slsqp", "max_functions": 3},
        "gradient": {"number_of_perturbations": 3, "seed": seed},
        "samplers": [{"method": method}],
    }
    result: list[np.ndarray] = []

    def callback(results: tuple[Any, ...]) -> None:
        result.extend(
            item.evaluations.perturbed_variables.copy()
            for item in results
            if isinstance(item, GradientResults)
        )

    BasicOptimizer(config, evaluator).set_results_callback(callback).run()
    return result


def main() -> int:
    violations = 0
    for method in ("norm", "uniform", "truncnorm", "sobol", "halton", "lhs"):
        for seed1, seed2 in (((7,), (7, 0)), (7, (7, 0, 0, 0)), ((3, 5), (3, 5, 0))):
            pert1 = perturbations(seed1, method)
            pert2 = perturbations(seed2, method)
            assert pert1
            same = len(pert1) == len(pert2) and all(
                a.tobytes() == b.tobytes() for a, b in zip(pert1, pert2, strict=True)
            )
            # Sanity check, a "really" different seed does change them:
            pert3 = perturbations((8,), method)
            assert pert1[0].tobytes() != pert3[0].tobytes()
            if same:
                violations += 1
                print(
                    f"{method}: seed {seed1!r} and seed {seed2!r} give "
                    "bit-identical perturbations"
                )
    if violations:
        print(
            "VIOLATION of C16: configurations that differ only in the seed "
            "produce the same perturbations."
        )
        return 1
    print("OK: changing the seed changed the perturbations.")
    return 0


if __name__ == "__main__":
    sys.exit(main())
