"""C16 counterexample: identical runs report different (uninitialised) function values.

Property C16: two runs with the same configuration (including the gradient
seed) and the same deterministic evaluator produce bit-identical sequences of
evaluator requests, results and exit codes, regardless of other optimizations
executed earlier in the same process.

The configuration below assigns function estimator 0 to the first objective and
the index -1 to the other objectives.  -1 is the value the library itself uses
for "none" in the sibling index arrays `objectives.realization_filters` and
`gradient.samplers`.  `EnOptConfig` accepts the configuration, the run completes
with a normal exit code, but the reported values of the objectives with index -1
(and therefore the weighted objective that is handed to the optimizer) are
uninitialised memory: `_calculate_estimated_functions` allocates its result with
`np.empty` and only fills the entries that belong to an existing estimator.

The script runs exactly the same optimization several times in one process
(with an unrelated optimization in between) and compares the results that are
delivered bit by bit.

Exit code 1: the runs differ (property violated).
Exit code 0: all runs are bit-identical (this includes the case that the
             library rejects the configuration in the same way every time, or
             treats -1 as "default estimator").
"""

from __future__ import annotations

import sys
from typing import Any

import numpy as np

from ropt.evaluator import EvaluatorContext, EvaluatorResult
from ropt.plan import BasicOptimizer
from ropt.results import FunctionResults, GradientResults


def make_evaluator(nobj: int, trace: list[tuple[str, Any]]) -> Any:
    """A deterministic evaluator: a pure function of its arguments.

    It also records the requests it receives in the trace.
    """

    def evaluator(variables: np.ndarray, context: EvaluatorContext) -> EvaluatorResult:
        trace.append(("request", variables.copy()))
        objectives = np.zeros((variables.shape[0], nobj), dtype=np.float64)
        for idx, realization in enumerate(context.realizations):
            for obj in range(nobj):
                target = 0.3 + 0.1 * obj + 0.05 * int(realization)
                objectives[idx, obj] = float(np.sum((variables[idx] - target) ** 2))
        return EvaluatorResult(objectives=objectives)

    return evaluator


def make_config(nobj: int) -> dict[str, Any]:
    return {
        "variables": {"initial_values": [0.1, 0.2, 0.3]},
        "objectives": {
            "weights": [1.0] * nobj,
            # estimator 0 for the first objective, "none" for the others:
            "function_estimators": [0] + [-1] * (nobj - 1),
        },
        "function_estimators": [{"method": "mean"}],
        "realizations": {"weights": [1.0, 1.0, 1.0]},
        "optimizer": {"method": "slsqp", "max_functions": 4},
        "gradient": {"number_of_perturbations": 4, "seed": 7},
    }


OTHER_CONFIG: dict[str, Any] = {
    "variables": {"initial_values": [0.3, -0.2], "lower_bounds": -1, "upper_bounds": 1},
    "realizations": {"weights": [1.0, 1.0]},
    "optimizer": {"method": "l-bfgs-b", "max_functions": 5},
    "gradient": {"number_of_perturbations": 5, "seed": 11},
}


def run(config: dict[str, Any], nobj: int) -> list[tuple[str, Any]]:
    """Run one optimization, return the trace of everything that was delivered."""
    trace: list[tuple[str, Any]] = []

    def callback(results: tuple[Any, ...]) -> None:
        for item in results:
            if isinstance(item, FunctionResults):
                functions = item.functions
                trace.append(
                    (
                        "functions",
                        None
                        if functions is None
                        else (
                            functions.objectives.copy(),
                            np.array(functions.weighted_objective),
                        ),
                    )
                )
            elif isinstance(item, GradientResults):
                gradients = item.gradients
                trace.append(
                    (
                        "gradients",
                        None
                        if gradients is None
                        else (
                            gradients.objectives.copy(),
                            np.array(gradients.weighted_objective),
                        ),
                    )
                )

    try:
        optimizer = BasicOptimizer(config, make_evaluator(nobj, trace))
        optimizer.set_results_callback(callback)
        optimizer.run()
        trace.append(("exit_code", optimizer.exit_code))
    except Exception as exc:  # noqa: BLE001
        # A consistent rejection of the configuration is fine.
        trace.append(("exception", f"{type(exc).__name__}"))
    return trace


def same_bits(item1: Any, item2: Any) -> bool:
    if isinstance(item1, tuple) and isinstance(item2, tuple):
        return len(item1) == len(item2) and all(
            same_bits(a, b) for a, b in zip(item1, item2, strict=True)
        )
    if isinstance(item1, np.ndarray) and isinstance(item2, np.ndarray):
        return (
            item1.shape == item2.shape
            and item1.dtype == item2.dtype
            and item1.tobytes() == item2.tobytes()
        )
    return bool(item1 == item2)


def first_difference(
    trace1: list[tuple[str, Any]], trace2: list[tuple[str, Any]]
) -> tuple[int, Any, Any] | None:
    for idx, (item1, item2) in enumerate(zip(trace1, trace2, strict=False)):
        if not same_bits(item1, item2):
            return idx, item1, item2
    if len(trace1) != len(trace2):
        return min(len(trace1), len(trace2)), len(trace1), len(trace2)
    return None


def main() -> int:
    violations = 0
    for nobj in (8, 16, 5, 12, 24, 32):
        config = make_config(nobj)
        traces = []
        for _ in range(3):
            traces.append(run(config, nobj))
            # An unrelated optimization executed in the same process:
            run(OTHER_CONFIG, 1)
        for number, trace in enumerate(traces[1:], start=2):
            diff = first_difference(traces[0], trace)
            if diff is not None:
                violations += 1
                idx, item1, item2 = diff
                print(
                    f"{nobj} objectives: run 1 and run {number} of the SAME "
                    f"configuration differ at trace item #{idx}:"
                )
                print(f"  run 1: {item1}")
                print(f"  run {number}: {item2}")
                requests1 = [item for item in traces[0] if item[0] == "request"]
                requests2 = [item for item in trace if item[0] == "request"]
                if first_difference(requests1, requests2) is not None:
                    print("  the sequences of evaluator requests differ as well")
                break
        else:
            print(f"{nobj} objectives: 3 identical runs gave bit-identical results")

    if violations:
        print(
            "\nVIOLATION of C16: identical configuration, seed and deterministic "
            "evaluator, but the reported function values (uninitialised memory) "
            "depend on what happened earlier in the process."
        )
        return 1
    print("\nOK: all repeated runs were bit-identical.")
    return 0


if __name__ == "__main__":
    sys.exit(main())
