"""C16, second counterexample: a re-used BasicOptimizer reports every result twice.

`BasicOptimizer.run()` builds a new `Plan` on the `OptimizerContext` that the
object created in its constructor, and registers the observers (results
callback, abort callback) on that context *again* on every call
(src/ropt/plan/_basic_optimizer.py, lines 135-136).  Since the context is
re-used between runs, the second run of the very same optimization (same
configuration, seed and deterministic evaluator) delivers every result twice,
the third run three times, etc.

Exit code 1: the sequence of results delivered by the second run differs from
             the one delivered by the first run.
Exit code 0: both runs deliver bit-identical sequences.
"""

from __future__ import annotations

import sys
from typing import Any

import numpy as np

from ropt.evaluator import EvaluatorContext, EvaluatorResult
from ropt.plan import BasicOptimizer
from ropt.results import FunctionResults, GradientResults

CONFIG: dict[str, Any] = {
    "variables": {"initial_values": [0.1, 0.2, 0.3]},
    "realizations": {"weights": [1.0, 1.0]},
    "optimizer": {"method": "slsqp", "max_functions": 4},
    "gradient": {"number_of_perturbations": 3, "seed": 5},
}


def evaluator(variables: np.ndarray, context: EvaluatorContext) -> EvaluatorResult:
    objectives = np.zeros((variables.shape[0], 1), dtype=np.float64)
    for idx, realization in enumerate(context.realizations):
        objectives[idx, 0] = float(np.sum((variables[idx] - 0.5 - 0.1 * realization) ** 2))
    return EvaluatorResult(objectives=objectives)


def main() -> int:
    delivered: list[tuple[str, bytes]] = []

    def callback(results: tuple[Any, ...]) -> None:
        for item in results:
            if isinstance(item, FunctionResults):
                delivered.append(("F", item.evaluations.variables.tobytes()))
            elif isinstance(item, GradientResults):
                delivered.append(("G", item.evaluations.perturbed_variables.tobytes()))

    optimizer = BasicOptimizer(CONFIG, evaluator).set_results_callback(callback)

    optimizer.run()
    run1, code1 = list(delivered), optimizer.exit_code
    delivered.clear()

    optimizer.run()
    run2, code2 = list(delivered), optimizer.exit_code

    print(f"run 1: {len(run1)} results delivered: {[kind for kind, _ in run1]}, {code1!r}")
    print(f"run 2: {len(run2)} results delivered: {[kind for kind, _ in run2]}, {code2!r}")
    if run1 != run2 or code1 != code2:
        print(
            "VIOLATION of C16: the second run of the same optimization on the "
            "re-used context delivers a different sequence of results."
        )
        return 1
    print("OK: both runs delivered bit-identical sequences of results.")
    return 0


if __name__ == "__main__":
    sys.exit(main())
