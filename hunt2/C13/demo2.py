"""C13, second observation: feasibility is decided on other violations than reported.

The tracker compares the violations of the optimizer-domain twin of a result
with the tolerance, not the violations reported in the result it stores. With a
VariableScaler the linear constraint rows are normalised by max|A_ij * scale_j|
and the bound differences are divided by the scales, so the two differ:

 (a) identity VariableScaler(None, None), row [1000, 1000] <= 1999.5 at x=(1,1):
     reported violation 0.5, tolerance 1e-3 -> must be infeasible, but the
     result is tracked (0.5/1000 < 1e-3). Without the (identity) transform the
     very same ConstraintInfo is reported and the result is rejected.
 (b) scales 1e-3, bound x <= 0 at x = 1e-11: reported violation 1e-11 is within
     the default tolerance 1e-10 -> must be feasible, but it is rejected
     (1e-11/1e-3 > 1e-10).

Exit code 1: property violated (current sources), 0: behaves as stated.
"""

from __future__ import annotations

import sys

import numpy as np

from ropt.enums import EventType
from ropt.evaluator import EvaluatorResult
from ropt.plan import OptimizerContext, Plan
from ropt.transforms import OptModelTransforms, VariableScaler


def evaluator(variables, context):  # noqa: ANN001, ANN201, ARG001
    return EvaluatorResult(objectives=np.sum(variables**2, axis=1)[:, np.newaxis])


def evaluate(config, transforms, tolerance):  # noqa: ANN001, ANN201
    collected = []
    plan = Plan(OptimizerContext(evaluator=evaluator))
    plan.optimizer_context.add_observer(
        EventType.FINISHED_EVALUATION,
        lambda event: collected.extend(event.data["results"]),
    )
    step = plan.add_step("evaluator")
    tracker = plan.add_handler(
        "tracker", sources={step}, what="best", constraint_tolerance=tolerance
    )
    plan.run_step(step, config=config, transforms=transforms)
    return collected[0], plan.get(tracker, "results")


def check(label, config, transforms, tolerance):  # noqa: ANN001, ANN201
    result, tracked = evaluate(config, transforms, tolerance)
    info = result.constraint_info
    reported = np.concatenate(
        [
            item
            for item in (
                info.bound_violation,
                info.linear_violation,
                info.nonlinear_violation,
            )
            if item is not None
        ]
    )
    expected_feasible = bool(np.all(reported <= tolerance))
    ok = (tracked is not None) == expected_feasible
    print(
        f"[{label}] reported violations {reported}, tolerance {tolerance}: "
        f"treated as feasible = {tracked is not None}, expected {expected_feasible}"
        f" -> {'OK' if ok else 'VIOLATED'}"
    )
    return ok


def main() -> int:
    config_a = {
        "variables": {"initial_values": [1.0, 1.0]},
        "linear_constraints": {
            "coefficients": [[1000.0, 1000.0]],
            "lower_bounds": [-np.inf],
            "upper_bounds": [1999.5],
        },
    }
    config_b = {
        "variables": {
            "initial_values": [1e-11],
            "lower_bounds": [-1.0],
            "upper_bounds": [0.0],
        },
    }
    ok = check("a: no transform", config_a, None, 1e-3)
    ok &= check(
        "a: identity VariableScaler",
        config_a,
        OptModelTransforms(variables=VariableScaler(None, None)),
        1e-3,
    )
    ok &= check("b: no transform", config_b, None, 1e-10)
    ok &= check(
        "b: VariableScaler(scales=1e-3)",
        config_b,
        OptModelTransforms(variables=VariableScaler(np.array([1e-3]), None)),
        1e-10,
    )
    return 0 if ok else 1


if __name__ == "__main__":
    sys.exit(main())
