"""C13 counterexample: a linear constraint row without coefficients + VariableScaler.

The linear constraint matrix has one row of zeros, i.e. the constraint reads
0.5 <= 0*x0 + 0*x1 <= 3.0. Its value A.x is 0 for every x, which lies outside
the finite lower bound 0.5, so the result must report

    linear_lower = A.x - lower = -0.5,  linear_upper = A.x - upper = -3.0,
    linear_violation = max(lower - A.x, A.x - upper, 0) = 0.5 > 0

and a tracker with the default tolerance (1e-10) must not treat the result as
feasible. Without a transform the library reports exactly that. With the
library's own VariableScaler (any scales/offsets, even the identity) the
reported differences are NaN, the reported violation is 0, and the result is
accepted as feasible.

Exit code 1: property violated (current sources), 0: behaves as stated.
"""

from __future__ import annotations

import sys
import warnings

import numpy as np

from ropt.enums import EventType
from ropt.evaluator import EvaluatorResult
from ropt.plan import OptimizerContext, Plan
from ropt.transforms import OptModelTransforms, VariableScaler

warnings.filterwarnings("ignore")  # the division by zero warns, but is not an error

X = np.array([1.0, 1.0])
A = np.array([[0.0, 0.0], [1.0, 1.0]])
LOWER = np.array([0.5, 0.0])
UPPER = np.array([3.0, 5.0])
TOLERANCE = 1e-10

CONFIG = {
    "variables": {"initial_values": X},
    "linear_constraints": {
        "coefficients": A,
        "lower_bounds": LOWER,
        "upper_bounds": UPPER,
    },
}


def evaluator(variables, context):  # noqa: ANN001, ANN201, ARG001
    return EvaluatorResult(objectives=np.sum(variables**2, axis=1)[:, np.newaxis])


def evaluate(transforms):  # noqa: ANN001, ANN201
    collected = []
    plan = Plan(OptimizerContext(evaluator=evaluator))
    plan.optimizer_context.add_observer(
        EventType.FINISHED_EVALUATION,
        lambda event: collected.extend(event.data["results"]),
    )
    step = plan.add_step("evaluator")
    tracker = plan.add_handler(
        "tracker", sources={step}, what="last", constraint_tolerance=TOLERANCE
    )
    plan.run_step(step, config=CONFIG, transforms=transforms)
    assert len(collected) == 1
    return collected[0], plan.get(tracker, "results")


def check(label, transforms):  # noqa: ANN001, ANN201
    result, tracked = evaluate(transforms)
    x = result.evaluations.variables
    info = result.constraint_info
    values = A @ x
    expected_lower = values - LOWER
    expected_upper = values - UPPER
    expected_violation = np.maximum(np.maximum(LOWER - values, values - UPPER), 0.0)
    expected_feasible = bool(np.all(expected_violation <= TOLERANCE))

    problems = []
    if not np.allclose(x, X):
        problems.append(f"variables {x} != {X}")
    if info is None or info.linear_lower is None:
        problems.append("no linear constraint info reported")
    else:
        if not np.allclose(info.linear_lower, expected_lower, equal_nan=False):
            problems.append(
                f"linear_lower {info.linear_lower}, expected A.x - lower = {expected_lower}"
            )
        if not np.allclose(info.linear_upper, expected_upper, equal_nan=False):
            problems.append(
                f"linear_upper {info.linear_upper}, expected A.x - upper = {expected_upper}"
            )
        if not np.allclose(info.linear_violation, expected_violation, equal_nan=False):
            problems.append(
                f"linear_violation {info.linear_violation}, expected {expected_violation}"
                " (A.x = 0 is outside the finite lower bound 0.5)"
            )
    if (tracked is not None) != expected_feasible:
        problems.append(
            f"tracker treats the result as feasible = {tracked is not None}, "
            f"expected {expected_feasible} (violation {expected_violation.max()} "
            f"vs tolerance {TOLERANCE})"
        )
    print(f"[{label}]", "OK" if not problems else "VIOLATED")
    for problem in problems:
        print("   ", problem)
    return not problems


def main() -> int:
    ok = check("no transform", None)
    ok &= check(
        "VariableScaler(scales=[2, 2])",
        OptModelTransforms(variables=VariableScaler(np.array([2.0, 2.0]), None)),
    )
    ok &= check(
        "VariableScaler(None, None) (identity)",
        OptModelTransforms(variables=VariableScaler(None, None)),
    )
    return 0 if ok else 1


if __name__ == "__main__":
    sys.exit(main())
