"""C07 counterexample: split_evaluations + nested optimization.

The outer optimizer step (SLSQP, gradient based, split_evaluations=True)
optimizes x0 and x2, a nested plan optimizes x1 for every outer evaluation with
a small evaluation budget (max_functions, as in the ropt test-suite).

SLSQP requests the objective at a point x and then the gradient at the *same*
point x.  The property says that

  * with split_evaluations no single evaluation computes both functions and
    gradients,
  * a quantity already computed for the current point is never evaluated again,
  * the values returned for x are computed at the same point.

Exit code 1 if one of these is violated, 0 otherwise.
"""

from __future__ import annotations

import sys
from typing import Any

import numpy as np

from ropt.enums import EventType
from ropt.evaluator import EvaluatorContext, EvaluatorResult
from ropt.plan import Event, OptimizerContext, Plan
from ropt.results import FunctionResults, GradientResults

OUTER_MASK = [True, False, True]
INNER_MASK = [False, True, False]

# One entry per evaluator call of the outer step:
#   (free variables x, has function rows, has perturbation rows)
outer_calls: list[tuple[tuple[float, ...], bool, bool]] = []


def evaluator(variables: np.ndarray, context: EvaluatorContext) -> EvaluatorResult:
    x = variables
    objective = (
        (x[:, 0] - 0.5) ** 2
        + (x[:, 2] + 0.2) ** 2
        + (x[:, 1] - 0.3 - 0.5 * x[:, 0]) ** 4
        + 0.1 * (x[:, 1] - 1.0) ** 2
    )
    mask = context.config.variables.mask
    if mask is not None and mask.tolist() == OUTER_MASK:
        perturbations = (
            np.full(x.shape[0], -1)
            if context.perturbations is None
            else np.asarray(context.perturbations)
        )
        function_rows = perturbations < 0
        # The outer point x as seen by the algorithm (free variables only):
        base = x[function_rows][0] if function_rows.any() else None
        outer_calls.append(
            (
                None if base is None else tuple(float(v) for v in np.round(base[OUTER_MASK], 12)),
                bool(function_rows.any()),
                bool((perturbations >= 0).any()),
            )
        )
    return EvaluatorResult(objectives=objective[:, np.newaxis])


def main() -> int:
    gradient = {"number_of_perturbations": 5, "perturbation_magnitudes": 1e-6}
    outer_config: dict[str, Any] = {
        "variables": {"initial_values": [0.0, 0.2, 0.1], "mask": OUTER_MASK},
        "gradient": gradient,
        "optimizer": {
            "method": "slsqp",
            "tolerance": 1e-6,
            "max_functions": 4,
            "split_evaluations": True,
        },
    }
    inner_config: dict[str, Any] = {
        "variables": {"initial_values": [0.0, 0.2, 0.1], "mask": INNER_MASK},
        "gradient": gradient,
        "optimizer": {"method": "slsqp", "tolerance": 1e-6, "max_functions": 3},
    }

    context = OptimizerContext(evaluator=evaluator)

    inner_plan = Plan(context)
    inner_step = inner_plan.add_step("optimizer")
    inner_tracker = inner_plan.add_handler("tracker", sources={inner_step})

    def inner_optimization(plan: Plan, variables: np.ndarray) -> FunctionResults | None:
        # Every nested run is independent, it reports its own best result:
        plan.set(inner_tracker, "results", None)
        plan.run_step(inner_step, config=inner_config, variables=variables)
        return plan.get(inner_tracker, "results")

    inner_plan.add_function(inner_optimization)

    outer_plan = Plan(context)
    outer_step = outer_plan.add_step("optimizer")

    # The results delivered by the outer step, these are the values that are
    # handed to SLSQP: (free variables x, kind, completed variables)
    delivered: list[tuple[tuple[float, ...], str, np.ndarray]] = []
    events: list[int] = []

    def observer(event: Event) -> None:
        if event.source != outer_step:
            return
        events.append(len(event.data["results"]))
        for item in event.data["results"]:
            assert isinstance(item, FunctionResults | GradientResults)
            variables = item.evaluations.variables
            delivered.append(
                (
                    tuple(float(v) for v in np.round(variables[OUTER_MASK], 12)),
                    "function" if isinstance(item, FunctionResults) else "gradient",
                    variables.copy(),
                )
            )

    context.add_observer(EventType.FINISHED_EVALUATION, observer)

    outer_plan.run_step(
        outer_step, config=outer_config, nested_optimization=inner_plan
    )

    problems: list[str] = []

    # 1. split_evaluations: no single evaluation computes both.
    for idx, (point, has_functions, has_gradients) in enumerate(outer_calls):
        if has_functions and has_gradients:
            problems.append(
                f"outer evaluation {idx} at x={point} computes functions AND "
                "gradients in a single evaluation although split_evaluations=True"
            )

    # 2. The function at the current point is evaluated only once.
    current = None
    have_function = False
    for idx, (point, has_functions, _) in enumerate(outer_calls):
        if point is not None and point != current:
            current, have_function = point, False
        if has_functions and have_function:
            problems.append(
                f"outer evaluation {idx}: the function at the current point "
                f"x={current} is evaluated a second time"
            )
        have_function = have_function or has_functions

    # 3. Function and gradient returned for the same x belong to the same point.
    last_function: dict[tuple[float, ...], np.ndarray] = {}
    first_function: dict[tuple[float, ...], np.ndarray] = {}
    for point, kind, variables in delivered:
        if kind == "function":
            first_function.setdefault(point, variables)
            last_function[point] = variables
    for point, kind, variables in delivered:
        if kind == "gradient" and point in first_function:
            # SLSQP received the function value of the first evaluation at x:
            if not np.array_equal(variables, first_function[point]):
                problems.append(
                    f"for x={point} the objective handed to the optimizer was "
                    f"computed at {first_function[point]}, the gradient at "
                    f"{variables}"
                )

    print(f"outer evaluations: {len(outer_calls)}")
    for idx, call in enumerate(outer_calls):
        print(f"  {idx}: x={call[0]} functions={call[1]} gradients={call[2]}")
    if problems:
        print("PROPERTY VIOLATED:")
        for problem in problems:
            print("  -", problem)
        return 1
    print("ok: no violation")
    return 0


if __name__ == "__main__":
    sys.exit(main())
