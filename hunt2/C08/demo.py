"""C08 counterexample: a narrow two-sided constraint is handed to SciPy as an equality.

A two-sided (inequality) constraint lb <= c(x) <= ub with 0 < ub - lb < 1e-15 is
a legal configuration (lb < ub, so by the documentation of the configuration
classes it is an inequality constraint).  This is the normal situation when the
constrained quantity is small in its units, e.g. a capacitance in farad that
must stay between 0.2 fF and 0.8 fF:  2e-16 <= c(x) <= 8e-16.

For all `minimize` based methods the SciPy plug-in turns such a constraint into
the single *equality* constraint c(x) - lb = 0, so points that satisfy the
configured bounds do not satisfy what is handed to SciPy.

The script exits with 1 if the property is violated, and with 0 otherwise.
"""

import sys
import warnings
from unittest import mock

import numpy as np

import ropt.plugins.optimizer.scipy as scipy_plugin
from ropt.config.enopt import EnOptConfig
from ropt.evaluator import EvaluatorResult
from ropt.plan import BasicOptimizer
from ropt.plugins.optimizer.utils import NormalizedConstraints

warnings.filterwarnings("ignore")

LB, UB = 2e-16, 8e-16  # 0.2 fF ... 0.8 fF, a two-sided inequality: LB < UB
REL = 1e-9 * LB  # far below the scale of the problem, only guards rounding

failures: list[str] = []


def configured_ok(value: float) -> bool:
    return bool(LB <= value <= UB)


# ---------------------------------------------------------------------------
# Part 1: the public normalization helper used by the plug-in.
# ---------------------------------------------------------------------------
normalized = NormalizedConstraints(np.array([LB]), np.array([UB]))
print(f"part 1: NormalizedConstraints([{LB}], [{UB}]).is_eq = {normalized.is_eq}")
for value in (1e-16, 2e-16, 5e-16, 8e-16, 9e-16):
    normalized.reset()
    normalized.set_constraints(np.array([value]))
    handed = all(
        abs(item) <= REL if is_eq else item >= -REL
        for item, is_eq in zip(
            normalized.constraints[:, 0], normalized.is_eq, strict=True
        )
    )
    if handed != configured_ok(value):
        failures.append(
            f"part 1: c(x) = {value}: configured bounds satisfied = "
            f"{configured_ok(value)}, normalized constraints satisfied = {handed}"
        )


# ---------------------------------------------------------------------------
# Part 2: what the plug-in hands to scipy.optimize.minimize.
# The variables are small too (x0 + x1 is constrained by a linear constraint,
# the non-linear constraint function is c(x) = x0).
# ---------------------------------------------------------------------------
def capture(method: str) -> dict:
    config = EnOptConfig.model_validate(
        {
            "variables": {"initial_values": [3e-16, 1e-16]},
            "optimizer": {"method": method, "options": {}},
            "nonlinear_constraints": {"lower_bounds": [LB], "upper_bounds": [UB]},
            "linear_constraints": {
                "coefficients": [[1.0, 1.0]],
                "lower_bounds": [LB],
                "upper_bounds": [UB],
            },
        }
    )

    def callback(variables, *, return_functions, return_gradients):  # noqa: ANN001, ANN202
        functions = np.array([0.0, variables[0]]) if return_functions else np.array([])
        gradients = (
            np.array([[0.0, 0.0], [1.0, 0.0]]) if return_gradients else np.array([])
        )
        return functions, gradients

    captured: dict = {}
    optimizer = scipy_plugin.SciPyOptimizer(config, callback)
    with mock.patch.object(
        scipy_plugin, "minimize", lambda **kwargs: captured.update(kwargs)
    ):
        optimizer.start(config.variables.initial_values)
    return captured


captured = capture("slsqp")
kinds = [item["type"] for item in captured["constraints"]]
print(f"part 2: constraint kinds handed to SLSQP: {kinds}")
for point in (
    np.array([2e-16, 0.0]),  # both constraints at their lower bound
    np.array([5e-16, 0.0]),  # both in the middle of the allowed interval
    np.array([4e-16, 4e-16]),  # non-linear in the middle, linear at the upper bound
    np.array([1e-16, 0.0]),  # both violated
    np.array([9e-16, 0.0]),  # both violated
):
    configured = configured_ok(point[0]) and configured_ok(point[0] + point[1])
    handed = True
    for item in captured["constraints"]:
        value = float(np.asarray(item["fun"](point.copy())).item())
        handed &= abs(value) <= REL if item["type"] == "eq" else value >= -REL
    if handed != configured:
        failures.append(
            f"part 2 (SLSQP): x = {point}: configured constraints satisfied = "
            f"{configured}, constraints handed to SciPy satisfied = {handed}"
        )


# ---------------------------------------------------------------------------
# Part 3: the effect on an optimization.  Minimize (x - 5)^2 subject to
# 1e-16 <= 1e-16 * x <= (1 + width) * 1e-16, i.e. 1 <= x <= 1 + width.  The
# optimum x = 5 is strictly inside the feasible region for both widths.
# ---------------------------------------------------------------------------
def evaluator(variables, _):  # noqa: ANN001, ANN201
    return EvaluatorResult(
        objectives=((variables - 5.0) ** 2).sum(axis=1)[:, np.newaxis],
        constraints=1e-16 * variables[:, :1],
    )


def optimize(width: float) -> float:
    optimizer = BasicOptimizer(
        {
            "variables": {"initial_values": [2.0]},
            "optimizer": {"method": "slsqp", "max_iterations": 50, "options": {}},
            "nonlinear_constraints": {
                "lower_bounds": [1e-16],
                "upper_bounds": [(1 + width) * 1e-16],
            },
            "gradient": {
                "perturbation_magnitudes": 0.01,
                "number_of_perturbations": 3,
            },
        },
        evaluator,
    ).run()
    assert optimizer.variables is not None
    return float(optimizer.variables[0])


for width in (11.0, 8.0):  # ub - lb = 1.1e-15 (control) and 8e-16
    result = optimize(width)
    print(f"part 3: 1 <= x <= {1 + width}: SLSQP result x = {result}")
    if abs(result - 5.0) > 0.1:
        failures.append(
            f"part 3: feasible region 1 <= x <= {1 + width}, optimum x = 5, but the "
            f"optimization returned x = {result}"
        )

if failures:
    print("\nPROPERTY VIOLATED:")
    for failure in failures:
        print("  -", failure)
    sys.exit(1)
print("\nproperty holds")
sys.exit(0)
