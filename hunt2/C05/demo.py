"""C05 counterexample: a sort filter whose window selects no realization with a
positive weight must end the evaluation with TOO_FEW_REALIZATIONS instead of
producing a value.  A gradient-only evaluation that follows the (failed)
function evaluation at the same point nevertheless produces a gradient, and
that gradient is built from the *unfiltered* configured weights, i.e. from
realizations that are outside the rank window.

Exit code 1: property violated (current sources).  Exit code 0: behaves as stated.
"""

import sys

import numpy as np

from ropt.config.enopt import EnOptConfig
from ropt.ensemble_evaluator import EnsembleEvaluator
from ropt.enums import OptimizerExitCode
from ropt.evaluator import EvaluatorResult
from ropt.exceptions import OptimizationAborted
from ropt.plugins import PluginManager
from ropt.results import GradientResults

# Three realizations with linear objectives f_r(x) = A[r] + B[r] . x
A = np.array([0.0, 1.0, 2.0])
B = np.array([[7.0, 7.0], [1.0, 0.0], [0.0, 1.0]])


def evaluator(variables, context):
    reals = np.asarray(context.realizations)
    objectives = A[reals] + (B[reals] * variables).sum(axis=1)
    return EvaluatorResult(objectives=objectives[:, np.newaxis])


CONFIG = {
    "variables": {"initial_values": [0.0, 0.0]},
    # Realization 0 has the smallest value (rank 0) and a configured weight of 0:
    "realizations": {"weights": [0.0, 1.0, 1.0], "realization_min_success": 1},
    "realization_filters": [
        {"method": "sort-objective", "options": {"sort": [0], "first": 0, "last": 0}}
    ],
    "objectives": {"realization_filters": [0]},
    "gradient": {"number_of_perturbations": 4, "perturbation_magnitudes": 0.01},
}


def new_evaluator():
    config = EnOptConfig.model_validate(CONFIG)
    return EnsembleEvaluator(config, None, evaluator, PluginManager())


def main() -> int:
    x = np.zeros(2)

    # Reference: functions and gradient requested together. The window [0, 0]
    # selects realization 0 only, which has weight zero: too few realizations.
    f_both, g_both = new_evaluator().calculate(
        x, compute_functions=True, compute_gradients=True
    )
    print("combined request : functions =", f_both.functions)
    print("combined request : gradients =", g_both.gradients)
    if f_both.functions is not None or g_both.gradients is not None:
        print("UNEXPECTED: the combined request produced a value")
        return 1

    # Same point, same configuration, but functions first, gradient afterwards
    # (what optimizers do when evaluations are split):
    ensemble_evaluator = new_evaluator()
    (f_only,) = ensemble_evaluator.calculate(
        x, compute_functions=True, compute_gradients=False
    )
    print("function request : functions =", f_only.functions)
    if f_only.functions is not None:
        print("UNEXPECTED: the function request produced a value")
        return 1

    try:
        results = ensemble_evaluator.calculate(
            x, compute_functions=False, compute_gradients=True
        )
    except OptimizationAborted as exc:
        if exc.exit_code == OptimizerExitCode.TOO_FEW_REALIZATIONS:
            print("gradient request aborted with TOO_FEW_REALIZATIONS: OK")
            return 0
        raise
    g_only = next(item for item in results if isinstance(item, GradientResults))
    print("gradient request : gradients =", g_only.gradients)
    print("gradient request : objective weights =", g_only.realizations.objective_weights)

    if g_only.gradients is None:
        print("OK: no gradient is produced when the window selects no positive weight")
        return 0

    unfiltered = 0.5 * B[1] + 0.5 * B[2]
    print(
        "VIOLATION: the rank window [0, 0] selects only realization 0 (weight 0), "
        "so the evaluation must end with TOO_FEW_REALIZATIONS, but a gradient "
        f"{g_only.gradients.objectives[0]} was produced."
    )
    if np.allclose(g_only.gradients.objectives[0], unfiltered, atol=1e-6):
        print(
            "It equals the plain configured-weight mean of the gradients of "
            f"realizations 1 and 2 ({unfiltered}), which have ranks 1 and 2 and "
            "lie outside the window: the filter was silently not applied."
        )
    return 1


if __name__ == "__main__":
    sys.exit(main())
