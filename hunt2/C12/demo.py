"""C12 counterexample: the tracker applies the constraint tolerance to the
optimizer-domain violations, not to the violations reported by the result it
holds (and hands to the user).

With a variable transform the two differ by the variable scale and - for
linear constraints - by the row normalisation that VariableScaler applies even
when it is an identity transform.  Consequences shown below:

 A. with an *identity* VariableScaler a 'best' and a 'last' tracker (and
    BasicOptimizer) hold a result that reports a linear-constraint violation of
    0.5 although the tolerance is 1e-3; without the (identity) transform the
    same events yield the other, feasible, result;
 B. with a variable scale of 1000 the held best result reports a bound
    violation of 0.5 (tolerance 1e-3);
 C. with a variable scale of 0.001 a result that reports a violation of 5e-4
    (within the tolerance 1e-3) and has the lowest objective is refused, so the
    held result is not the lowest feasible one.

Exits 1 if any of these happens, 0 otherwise.
"""

import sys

import numpy as np

from ropt.evaluator import EvaluatorResult
from ropt.plan import BasicOptimizer, OptimizerContext, Plan
from ropt.results import FunctionResults
from ropt.transforms import OptModelTransforms, VariableScaler

TOL = 1e-3
failures = []


def evaluator(variables, _context):
    # Minimise -x: the larger x, the better.
    return EvaluatorResult(objectives=-variables[:, :1].copy())


def reported_violation(result):
    info = result.constraint_info
    values = [
        item
        for item in (
            info.bound_violation,
            info.linear_violation,
            info.nonlinear_violation,
        )
        if item is not None
    ]
    return float(np.max(np.concatenate(values))) if values else 0.0


def run(config, transforms, points):
    """Evaluate the points (given in the optimizer domain) one by one."""
    context = OptimizerContext(evaluator=evaluator)
    delivered = []

    def observer(event):
        for item in event.data["results"]:
            if isinstance(item, FunctionResults) and item.functions is not None:
                delivered.append(item)

    from ropt.enums import EventType

    context.add_observer(EventType.FINISHED_EVALUATION, observer)
    plan = Plan(context)
    step = plan.add_step("evaluator")
    best = plan.add_handler(
        "tracker", what="best", constraint_tolerance=TOL, sources={step}
    )
    last = plan.add_handler(
        "tracker", what="last", constraint_tolerance=TOL, sources={step}
    )
    for point in points:
        plan.run_step(
            step, config=config, transforms=transforms, variables=np.array([point])
        )
    return plan.get(best, "results"), plan.get(last, "results"), delivered


def check(name, best, last, delivered, *, minimised_sign=1.0):
    # Oracle from the statement: feasible == every *reported* violation of the
    # result is within the tolerance; best == lowest objective among those.
    feasible = [item for item in delivered if reported_violation(item) <= TOL]
    expected_best = min(
        feasible, key=lambda r: minimised_sign * float(r.functions.weighted_objective)
    )
    expected_last = feasible[-1]
    for what, held, expected in (
        ("best", best, expected_best),
        ("last", last, expected_last),
    ):
        violation = reported_violation(held)
        if violation > TOL:
            failures.append(
                f"{name}: the '{what}' tracker holds x={held.evaluations.variables} "
                f"which reports a constraint violation of {violation:g} "
                f"> tolerance {TOL:g}"
            )
        if held is not expected:
            failures.append(
                f"{name}: the '{what}' tracker holds x={held.evaluations.variables} "
                f"(objective {float(held.functions.weighted_objective):g}), expected "
                f"x={expected.evaluations.variables} "
                f"(objective {float(expected.functions.weighted_objective):g}, "
                f"reported violation {reported_violation(expected):g})"
            )


# --- A: identity transform, linear constraint 1000 x <= 1000 -----------------
config_a = {
    "variables": {"initial_values": [0.0]},
    "linear_constraints": {
        "coefficients": [[1000.0]],
        "lower_bounds": [-np.inf],
        "upper_bounds": [1000.0],
    },
}
identity = OptModelTransforms(variables=VariableScaler(None, None))
plain = run(config_a, None, [0.5, 1.0005])
ident = run(config_a, identity, [0.5, 1.0005])
check("A (no transform)", *plain)
check("A (identity VariableScaler)", *ident)
if not np.array_equal(
    plain[0].evaluations.variables, ident[0].evaluations.variables
):
    failures.append(
        "A: an identity variable transform changes the tracked best from "
        f"x={plain[0].evaluations.variables} to x={ident[0].evaluations.variables}"
    )

# BasicOptimizer reports the tracked best: a single evaluation of the
# (infeasible) initial point.
config_basic = {
    "variables": {"initial_values": [1.0005]},
    "linear_constraints": config_a["linear_constraints"],
    "optimizer": {"method": "slsqp", "max_functions": 1},
    "gradient": {"perturbation_magnitudes": 1e-4},
}
for name, transforms in (("no transform", None), ("identity VariableScaler", identity)):
    optimizer = BasicOptimizer(
        config_basic, evaluator, transforms=transforms, constraint_tolerance=TOL
    ).run()
    if optimizer.results is not None:
        violation = reported_violation(optimizer.results)
        if violation > TOL:
            failures.append(
                f"A (BasicOptimizer, {name}): reports x={optimizer.variables} with a "
                f"reported violation of {violation:g} > tolerance {TOL:g}"
            )

# --- B: scale 1000, bounds 0 <= x <= 1000 (user domain) ----------------------
config_b = {
    "variables": {"initial_values": [0.0], "lower_bounds": [0.0], "upper_bounds": [1000.0]}
}
scaled_b = OptModelTransforms(variables=VariableScaler(np.array([1000.0]), None))
# optimizer-domain points 0.5 and 1.0005 are x=500 and x=1000.5 for the user
check("B (scale 1000)", *run(config_b, scaled_b, [0.5, 1.0005]))

# --- C: scale 0.001, bounds 0 <= x <= 0.001 (user domain) --------------------
config_c = {
    "variables": {"initial_values": [0.0], "lower_bounds": [0.0], "upper_bounds": [0.001]}
}
scaled_c = OptModelTransforms(variables=VariableScaler(np.array([0.001]), None))
# optimizer-domain points 0.5 and 1.5 are x=0.0005 and x=0.0015 for the user
check("C (scale 0.001)", *run(config_c, scaled_c, [0.5, 1.5]))

if failures:
    print("C12 VIOLATED:")
    for item in failures:
        print(" -", item)
    sys.exit(1)
print("C12 holds on these cases")
sys.exit(0)
