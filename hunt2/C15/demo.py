"""C15 counterexample: a user abort in a plan that has a parent does not latch the parent.

A plan created with ``Plan(context, parent=outer)`` is nested in ``outer``: every
event of its steps is delivered to the handlers of ``outer`` (its ancestor) as
well. When an observer raises the user abort at an event of an optimizer step
of the nested plan, the step reports USER_ABORT and the nested plan is marked
aborted, but its parent is NOT marked aborted and happily runs further steps.

Part 2 shows the consequence inside a running optimization: the function of a
plan used as ``nested_optimization`` spawns such a child plan; the user abort
raised in the child is lost, the enclosing optimizer step keeps evaluating and
does not report USER_ABORT.

Exits 1 when the property is violated, 0 otherwise.
"""

from __future__ import annotations

import sys
from typing import Any

import numpy as np

from ropt.enums import EventType, OptimizerExitCode
from ropt.evaluator import EvaluatorContext, EvaluatorResult
from ropt.exceptions import OptimizationAborted, PlanAborted
from ropt.plan import Event, OptimizerContext, Plan

CONFIG: dict[str, Any] = {
    "optimizer": {"tolerance": 1e-5, "max_functions": 3},
    "variables": {"initial_values": [0.0, 0.1]},
    "gradient": {"perturbation_magnitudes": 0.01},
}


def evaluator(variables: np.ndarray, _: EvaluatorContext) -> EvaluatorResult:
    return EvaluatorResult(
        objectives=((variables - 0.5) ** 2).sum(axis=1, keepdims=True)
    )


class AbortOnce:
    """Observer raising the user abort at the first event from given sources."""

    def __init__(self) -> None:
        self.sources: set[Any] | None = None  # None: any source
        self.fired = False
        self.seen_after_abort = 0

    def __call__(self, event: Event) -> None:
        if self.fired:
            self.seen_after_abort += 1
            return
        if self.sources is None or event.source in self.sources:
            self.fired = True
            raise OptimizationAborted(exit_code=OptimizerExitCode.USER_ABORT)


def part1() -> list[str]:
    problems: list[str] = []
    abort = AbortOnce()
    context = OptimizerContext(evaluator=evaluator).add_observer(
        EventType.FINISHED_EVALUATION, abort
    )
    parent = Plan(context)
    child = Plan(context, parent=parent)

    # The parent is an ancestor: its handlers receive the events of the child.
    child_step = child.add_step("optimizer")
    store = parent.add_handler("store", sources={child_step})

    exit_code = child.run_step(child_step, config=CONFIG)
    print("part 1: child step exit code:", exit_code.name)
    print("part 1: parent handler received child results:",
          parent.get(store, "results") is not None)
    print("part 1: child.aborted =", child.aborted, " parent.aborted =", parent.aborted)

    if exit_code != OptimizerExitCode.USER_ABORT:
        problems.append("part 1: the child step did not report USER_ABORT")
    if not child.aborted:
        problems.append("part 1: the child plan is not marked aborted")
    if parent.get(store, "results") is None:
        problems.append("part 1: the parent handler did not get the child events")
    if not parent.aborted:
        problems.append(
            "part 1: user abort in the nested plan, but its parent is not marked aborted"
        )
    further = parent.add_step("evaluator")
    try:
        code = parent.run_step(further, config=CONFIG)
    except PlanAborted:
        print("part 1: further step of the parent refused to run")
    else:
        problems.append(
            f"part 1: a further step of the parent plan ran after the abort ({code.name})"
        )
    return problems


def part2() -> list[str]:
    problems: list[str] = []
    abort = AbortOnce()
    evaluations_after_abort = 0

    def counting_evaluator(
        variables: np.ndarray, context: EvaluatorContext
    ) -> EvaluatorResult:
        nonlocal evaluations_after_abort
        if abort.fired:
            evaluations_after_abort += 1
        return evaluator(variables, context)

    context = OptimizerContext(evaluator=counting_evaluator).add_observer(
        EventType.FINISHED_EVALUATION, abort
    )
    outer = Plan(context)
    outer_step = outer.add_step("optimizer")
    nested = Plan(context)
    child_plans: list[Plan] = []
    child_codes: list[OptimizerExitCode] = []
    abort.sources = set()

    def nested_function(plan: Plan, variables: np.ndarray) -> Any:
        # A fresh child plan for every nested run, events bubble up via parent:
        child = Plan(plan.optimizer_context, parent=plan)
        child_plans.append(child)
        step = child.add_step("optimizer")
        tracker = child.add_handler("tracker", sources={step}, what="last")
        assert abort.sources is not None
        abort.sources.add(step)
        child_codes.append(
            child.run_step(step, config=inner_config, variables=variables)
        )
        return child.get(tracker, "results")

    nested.add_function(nested_function)

    outer_config = {**CONFIG, "variables": {**CONFIG["variables"], "mask": [True, False]}}
    inner_config = {**CONFIG, "variables": {**CONFIG["variables"], "mask": [False, True]}}

    exit_code = outer.run_step(
        outer_step, config=outer_config, nested_optimization=nested
    )
    print("part 2: child step exit codes:", [code.name for code in child_codes])
    print("part 2: outer step exit code:", exit_code.name)
    print(
        "part 2: aborted flags: first child =", child_plans[0].aborted,
        " nested (its parent) =", nested.aborted, " outer =", outer.aborted,
    )
    print("part 2: evaluator calls after the user abort:", evaluations_after_abort)

    if child_codes[0] != OptimizerExitCode.USER_ABORT or not child_plans[0].aborted:
        problems.append("part 2: the child step/plan did not register the abort")
    if not nested.aborted:
        problems.append("part 2: the parent of the aborted child plan is not aborted")
    if not outer.aborted:
        problems.append("part 2: the outermost ancestor plan is not aborted")
    if exit_code != OptimizerExitCode.USER_ABORT:
        problems.append(
            f"part 2: enclosing step reports {exit_code.name} instead of USER_ABORT"
        )
    if evaluations_after_abort:
        problems.append(
            f"part 2: {evaluations_after_abort} evaluator calls (in further steps) "
            "after the user abort"
        )
    return problems


def main() -> int:
    problems = part1() + part2()
    if problems:
        print("\nPROPERTY VIOLATED:")
        for item in problems:
            print("  -", item)
        return 1
    print("\nOK: aborts latch the parent plan")
    return 0


if __name__ == "__main__":
    sys.exit(main())
