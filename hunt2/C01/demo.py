"""C01 counterexample: function values that are not produced by any estimator.

The per-function estimator index maps (`objectives.function_estimators`,
`nonlinear_constraints.function_estimators`) are never checked against the tuple
of configured estimators (`EnOptConfig.function_estimators`).  A function whose
index does not select one of the configured estimators is skipped by the loop
that fills the result vector, which is allocated with `np.empty`: the library
then reports uninitialised memory as the ensemble function value (and uses it in
the weighted objective), with exit code EVALUATION_STEP_FINISHED and no error.

Three accepted configurations are tried, using only the public API:

  A. `function_estimators: []`  (no estimators configured; the documented default
     calculation is the weighted mean), default index maps;
  B. two estimators (mean, stddev) and the objective map `[0, -1]`, written by
     analogy with the realization filter maps, where -1 means "none/default";
  C. two estimators (mean, stddev) and the map `[0, 2]` (one past the end).

The script exits 0 if, for every case, the library either rejects the
configuration (any exception while validating it / running the step) or reports
values that equal a configured/default estimator applied to the evaluator
output.  It exits 1 if a value is reported that is no estimate at all.
"""

import sys

import numpy as np

from ropt.evaluator import EvaluatorResult
from ropt.plan import OptimizerContext, Plan

# Evaluator output: 3 realizations, 2 objectives, 1 constraint, all finite.
OBJECTIVES = np.array([[1.0, 2.0], [3.0, 5.0], [4.0, 9.0]])
CONSTRAINTS = np.array([[1.0], [2.0], [6.0]])
REALIZATION_WEIGHTS = np.array([1.0, 2.0, 1.0])
OBJECTIVE_WEIGHTS = np.array([1.0, 3.0])


def evaluator(variables, context):
    assert variables.shape[0] == 3
    assert np.array_equal(context.realizations, [0, 1, 2])
    return EvaluatorResult(
        objectives=OBJECTIVES.copy(), constraints=CONSTRAINTS.copy()
    )


def mean(values):
    w = REALIZATION_WEIGHTS / REALIZATION_WEIGHTS.sum()
    return float(np.sum(w * values))


def stddev(values):
    w = REALIZATION_WEIGHTS / REALIZATION_WEIGHTS.sum()
    n = np.count_nonzero(w)
    m = np.sum(w * values)
    return float(np.sqrt(n / (n - 1) * np.sum(w * (values - m) ** 2)))


def base_config():
    return {
        "variables": {"initial_values": [0.0, 0.0]},
        "objectives": {"weights": list(OBJECTIVE_WEIGHTS)},
        "nonlinear_constraints": {"lower_bounds": [0.0], "upper_bounds": [10.0]},
        "realizations": {"weights": list(REALIZATION_WEIGHTS)},
    }


def run(config):
    plan = Plan(OptimizerContext(evaluator=evaluator))
    step = plan.add_step("evaluator")
    store = plan.add_handler("store", sources={step})
    code = plan.run_step(step, config=config)
    results = plan.get(store, "results")
    return code, results


def check(name, config):
    """Return a list of complaints (empty: fine)."""
    # Put recognisable junk on the heap, so that uninitialised memory is not
    # accidentally zero; this must be irrelevant for a correct library.
    junk = [np.full(k, 777.0) for k in (1, 2, 3, 4)]
    del junk
    try:
        code, results = run(config)
    except Exception as exc:  # rejecting the configuration is fine
        print(f"[{name}] configuration rejected: {type(exc).__name__}: {exc}")
        return []
    if not results or results[0].functions is None:
        print(f"[{name}] no function values reported (exit code {code!r}): fine")
        return []
    functions = results[0].functions
    print(f"[{name}] exit code {code!r}")
    print(f"[{name}] reported objectives  {functions.objectives!r}")
    print(f"[{name}] reported constraints {functions.constraints!r}")
    print(f"[{name}] reported weighted objective {functions.weighted_objective!r}")
    complaints = []
    for kind, reported, raw in (
        ("objective", functions.objectives, OBJECTIVES),
        ("constraint", functions.constraints, CONSTRAINTS),
    ):
        for idx in range(raw.shape[1]):
            allowed = (mean(raw[:, idx]), stddev(raw[:, idx]))
            if not any(np.isclose(reported[idx], value) for value in allowed):
                complaints.append(
                    f"[{name}] {kind} {idx}: reported {reported[idx]!r}, but the "
                    f"weighted mean is {allowed[0]!r} and the sample standard "
                    f"deviation is {allowed[1]!r}"
                )
    own = OBJECTIVE_WEIGHTS / OBJECTIVE_WEIGHTS.sum()
    expected_sums = [
        own[0] * a + own[1] * b
        for a in (mean(OBJECTIVES[:, 0]), stddev(OBJECTIVES[:, 0]))
        for b in (mean(OBJECTIVES[:, 1]), stddev(OBJECTIVES[:, 1]))
    ]
    if not any(np.isclose(functions.weighted_objective, v) for v in expected_sums):
        complaints.append(
            f"[{name}] weighted objective {functions.weighted_objective!r} is not "
            f"a weighted sum of estimates (candidates: {expected_sums})"
        )
    return complaints


def main():
    complaints = []

    config = base_config()
    config["function_estimators"] = []
    complaints += check("A: function_estimators=[]", config)

    config = base_config()
    config["function_estimators"] = [{"method": "mean"}, {"method": "stddev"}]
    config["objectives"]["function_estimators"] = [0, -1]
    complaints += check("B: objective estimator map [0, -1]", config)

    config = base_config()
    config["function_estimators"] = [{"method": "mean"}, {"method": "stddev"}]
    config["objectives"]["function_estimators"] = [0, 2]
    config["nonlinear_constraints"]["function_estimators"] = [2]
    complaints += check("C: estimator maps [0, 2] / [2]", config)

    if complaints:
        print()
        print("PROPERTY VIOLATED: values were reported that no estimator produced:")
        for line in complaints:
            print("  " + line)
        return 1
    print("OK: every reported value is an estimate of the evaluator output")
    return 0


if __name__ == "__main__":
    sys.exit(main())
