"""C03 counterexample: a failed realization changes which of the *surviving*
realizations a realization filter selects when sort values are exactly tied.

Property C03: if enough realizations succeed, the reported functions equal
those of the same ensemble with the failed realizations removed (weights
renormalized).

Set-up (function evaluation only, public API: Plan + evaluator step):

* two objectives; objective 0 is a discrete "class" value of a realization
  (so several realizations have exactly the same value), objective 1 is a
  continuous, realization dependent value,
* a `sort-objective` (or `cvar-objective`) realization filter that ranks the
  realizations by objective 0 and is applied to both objectives,
* exactly one realization fails (NaN in objective 1 of its unperturbed
  evaluation), `realization_min_success` = 1.

The "twin" is literally the same ensemble without the failed realization
(one realization less, same values, same relative order, same filter).  The
script compares the functions reported for the ensemble with the failed
realization with those reported for the twin.  Exit code 1 if they differ.
"""

from __future__ import annotations

import sys

import numpy as np

from ropt.enums import EventType
from ropt.evaluator import EvaluatorResult
from ropt.plan import OptimizerContext, Plan

X = np.array([0.2, 0.4])


def continuous_value(x: np.ndarray, rid: int) -> float:
    return float(np.sum((x - 0.1 * rid) ** 2) + 1.0 + rid)


def make_config(count: int, method: str, options: dict) -> dict:
    return {
        "variables": {"initial_values": X},
        "objectives": {"weights": [1.0, 1.0], "realization_filters": [0, 0]},
        "realizations": {"weights": np.ones(count), "realization_min_success": 1},
        "realization_filters": [{"method": method, "options": options}],
    }


def make_evaluator(ids: list[int], classes: np.ndarray, failed: set[int]):
    # ids[i] is the identity of realization i of the ensemble that is evaluated.
    def evaluator(variables, context):  # noqa: ANN001, ANN202
        objectives = np.zeros((variables.shape[0], 2))
        for idx, realization in enumerate(context.realizations):
            rid = ids[int(realization)]
            objectives[idx, 0] = classes[rid]
            objectives[idx, 1] = continuous_value(variables[idx], rid)
            if rid in failed:
                objectives[idx, 1] = np.nan
        return EvaluatorResult(objectives=objectives)

    return evaluator


def evaluate(config: dict, evaluator):  # noqa: ANN001, ANN201
    results = []
    context = OptimizerContext(evaluator=evaluator)
    context.add_observer(
        EventType.FINISHED_EVALUATION,
        lambda event: results.extend(event.data["results"]),
    )
    plan = Plan(context)
    plan.run_step(plan.add_step("evaluator"), config=config, variables=X)
    assert len(results) == 1
    return results[0]


def compare(classes: np.ndarray, failed: int, method: str, options: dict) -> str | None:
    count = classes.size
    full = evaluate(
        make_config(count, method, options),
        make_evaluator(list(range(count)), classes, {failed}),
    )
    survivors = [rid for rid in range(count) if rid != failed]
    twin = evaluate(
        make_config(count - 1, method, options),
        make_evaluator(survivors, classes, set()),
    )
    expected_failed = np.arange(count) == failed
    assert np.array_equal(full.realizations.failed_realizations, expected_failed)
    assert not np.any(twin.realizations.failed_realizations)
    assert full.functions is not None
    assert twin.functions is not None
    if np.allclose(
        full.functions.objectives, twin.functions.objectives, rtol=1e-10, atol=0.0
    ):
        return None
    full_weights = full.realizations.objective_weights[1]
    twin_weights = twin.realizations.objective_weights[1]
    return (
        f"{method} {options}, objective-0 values {classes.tolist()}, "
        f"realization {failed} failed:\n"
        f"   objectives with the failed realization : {full.functions.objectives}\n"
        f"   objectives of the ensemble without it  : {twin.functions.objectives}\n"
        f"   selected (original numbering), with    : "
        f"{np.flatnonzero(full_weights).tolist()}\n"
        f"   selected (original numbering), without : "
        f"{[survivors[i] for i in np.flatnonzero(twin_weights)]}"
    )


def main() -> int:
    messages = []

    # A fixed small example: five realizations, three of them in class 0.
    message = compare(
        np.array([0.0, 1.0, 1.0, 0.0, 0.0]),
        0,
        "sort-objective",
        {"sort": [0], "first": 0, "last": 0},
    )
    if message is not None:
        messages.append(message)

    # The tie-breaking depends on the sort implementation selected by NumPy
    # for the CPU at hand, therefore also scan some more ensembles:
    rng = np.random.default_rng(1234)
    for count in (5, 6, 8, 12, 20, 40):
        for _ in range(20):
            classes = rng.integers(0, 3, size=count).astype(np.float64)
            failed = int(rng.integers(count))
            last = int(rng.integers(0, count - 1))
            for method, options in (
                ("sort-objective", {"sort": [0], "first": 0, "last": last}),
                ("cvar-objective", {"sort": [0], "percentile": 0.3}),
            ):
                message = compare(classes, failed, method, options)
                if message is not None:
                    messages.append(message)

    if messages:
        print(
            f"C03 violated in {len(messages)} cases: the functions differ from "
            "those of the same ensemble with the failed realization removed.\n"
            "First cases:"
        )
        for message in messages[:4]:
            print(" - " + message)
        return 1
    print("OK: failed realizations are excluded exactly as if absent")
    return 0


if __name__ == "__main__":
    sys.exit(main())
