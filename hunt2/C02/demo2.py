"""C02, second (independent) finding: `gradient.samplers` of size one is not broadcast.

All per-variable arrays of the configuration may be given with a size of one,
"in the latter case, the single value is broadcasted to all relevant elements"
(EnOptConfig documentation). `gradient.samplers` ("indices of the samplers to
use for each variable") is stored as given. With a variable mask the size-one
array happens to work through NumPy broadcasting, without a mask the gradient
evaluation fails with an IndexError, so no gradient is reported at all.

Exit code 1: no/incorrect gradient. Exit code 0: exact gradient in all cases.
"""

from __future__ import annotations

import sys

import numpy as np

from ropt.config.enopt import EnOptConfig
from ropt.ensemble_evaluator import EnsembleEvaluator
from ropt.evaluator import EvaluatorResult
from ropt.plugins import PluginManager

SLOPES = np.array([[1.0, 2.0, 3.0], [3.0, -1.0, 0.5]])


def evaluator(variables, context):  # noqa: ANN001, ANN201
    return EvaluatorResult(
        objectives=np.array(
            [[SLOPES[r] @ variables[i] + r] for i, r in enumerate(context.realizations)]
        )
    )


def main() -> int:
    status = 0
    exact = SLOPES.mean(axis=0)
    for samplers, mask in (
        ([0, 0, 0], None),
        ([0], [True, True, True]),
        ([0], None),
        (0, None),
    ):
        variables = {"initial_values": [0.0, 0.0, 0.0]}
        if mask is not None:
            variables["mask"] = mask
        try:
            config = EnOptConfig.model_validate(
                {
                    "variables": variables,
                    "realizations": {"weights": [1, 1]},
                    "gradient": {"number_of_perturbations": 20, "samplers": samplers},
                    "samplers": [{"method": "scipy/norm"}],
                }
            )
            results = EnsembleEvaluator(
                config, None, evaluator, PluginManager()
            ).calculate(
                config.variables.initial_values,
                compute_functions=True,
                compute_gradients=True,
            )
            reported = results[1].gradients.objectives[0]
            good = np.allclose(reported, exact, atol=1e-9)
            print(f"samplers={samplers} mask={mask}: {reported} {'OK' if good else 'WRONG'}")
        except Exception as exc:  # noqa: BLE001
            good = False
            print(f"samplers={samplers} mask={mask}: {type(exc).__name__}: {exc}")
        if not good:
            status = 1
    return status


if __name__ == "__main__":
    sys.exit(main())
