"""C02 counterexample: a shared, injected, deterministic design gives a wrong gradient.

The affine ensemble has 2 realizations, 2 objectives and 2 variables. The
perturbations come from an injected deterministic sampler that follows the
documented contract of `Sampler.generate_samples` for a sampler configured with
`shared=True`: "the first dimension should have a length equal to one, since
all realizations will use the same set of perturbations". The design is the
identity matrix (two perturbations, one along each variable), which is
perfectly conditioned (both squared singular values are 50% of the total), so
the reported gradient of every objective must be exactly the weighted mean of
the realization slopes.

With `gradient.samplers` left at its default (None) the library does not
broadcast the (1, P, V) sample array over the realizations: the evaluator is
called with R + P instead of R + R * P variable vectors (but with R + R * P
realization indices in the context), the returned values are reshaped into a
(R, P, 1) array although there are 2 objectives, and a wrong gradient is
reported silently. Exactly the same configuration with `gradient.samplers =
[0, 0]` (which is the same thing: sampler 0 for every variable) is handled
correctly, this is used as a control.

Exit code 1: property violated (or an exception). Exit code 0: all fine.
"""

from __future__ import annotations

import sys
import traceback

import numpy as np

from ropt.config.enopt import EnOptConfig
from ropt.ensemble_evaluator import EnsembleEvaluator
from ropt.evaluator import EvaluatorResult
from ropt.plugins import PluginManager
from ropt.plugins.sampler.base import Sampler, SamplerPlugin
from ropt.results import GradientResults

# slopes[realization, objective, variable] and offsets[realization, objective]:
SLOPES = np.array(
    [
        [[1.0, 2.0], [0.5, 0.25]],
        [[3.0, -1.0], [-2.0, 4.0]],
    ]
)
OFFSETS = np.array([[0.3, -0.7], [1.1, 0.2]])
REALIZATION_WEIGHTS = np.array([0.5, 0.5])
OBJECTIVE_WEIGHTS = np.array([0.5, 0.5])


class IdentityDesign(Sampler):
    """Deterministic design: perturbation p moves variable p by one magnitude."""

    def __init__(self, enopt_config, sampler_index, mask, rng) -> None:  # noqa: ANN001, ARG002
        self._config = enopt_config
        self._shared = enopt_config.samplers[sampler_index].shared
        self._mask = mask

    def generate_samples(self):  # noqa: ANN201
        variables = self._config.variables.initial_values.size
        perturbations = self._config.gradient.number_of_perturbations
        realizations = self._config.realizations.weights.size
        design = np.eye(perturbations, variables)
        if self._mask is not None:
            design = design * self._mask
        # The documented contract: one set (first axis of length one) if the
        # sampler is shared, one set per realization otherwise.
        first = 1 if self._shared else realizations
        return np.repeat(design[np.newaxis, ...], first, axis=0)


class IdentityDesignPlugin(SamplerPlugin):
    def create(self, enopt_config, sampler_index, mask, rng):  # noqa: ANN001, ANN201
        return IdentityDesign(enopt_config, sampler_index, mask, rng)

    def is_supported(self, method: str) -> bool:
        return method == "identity"


def evaluator(variables, context):  # noqa: ANN001, ANN201
    # One row of results for each variable vector that is passed:
    objectives = np.array(
        [
            SLOPES[context.realizations[idx]] @ variables[idx]
            + OFFSETS[context.realizations[idx]]
            for idx in range(variables.shape[0])
        ]
    )
    return EvaluatorResult(objectives=objectives)


def run(gradient_samplers: list[int] | None) -> tuple[bool, str]:
    gradient = {"number_of_perturbations": 2, "perturbation_magnitudes": 0.1}
    if gradient_samplers is not None:
        gradient["samplers"] = gradient_samplers
    config = EnOptConfig.model_validate(
        {
            "variables": {"initial_values": [0.2, -0.4]},
            "objectives": {"weights": OBJECTIVE_WEIGHTS.tolist()},
            "realizations": {"weights": REALIZATION_WEIGHTS.tolist()},
            "gradient": gradient,
            "samplers": [{"method": "design/identity", "shared": True}],
        }
    )
    plugin_manager = PluginManager()
    plugin_manager.add_plugin("sampler", "design", IdentityDesignPlugin())
    try:
        results = EnsembleEvaluator(config, None, evaluator, plugin_manager).calculate(
            config.variables.initial_values,
            compute_functions=True,
            compute_gradients=True,
        )
    except Exception:  # noqa: BLE001
        return False, "exception:\n" + traceback.format_exc()
    gradient_results = next(
        item for item in results if isinstance(item, GradientResults)
    )
    if gradient_results.gradients is None:
        return False, "no gradient was reported"

    # The conditioning premise, from the reported perturbation differences:
    deltas = np.broadcast_to(
        gradient_results.evaluations.perturbed_variables
        - gradient_results.evaluations.variables,
        (2, 2, 2),
    )
    for realization in range(2):
        sigma2 = np.linalg.svd(deltas[realization], compute_uv=False) ** 2
        assert sigma2.size == 2 and sigma2.min() >= 0.01 * sigma2.sum()  # noqa: PT018

    exact_objectives = np.einsum("r,rkv->kv", REALIZATION_WEIGHTS, SLOPES)
    exact_weighted = OBJECTIVE_WEIGHTS @ exact_objectives
    reported = gradient_results.gradients
    good = np.allclose(reported.objectives, exact_objectives, atol=1e-9) and np.allclose(
        reported.weighted_objective, exact_weighted, atol=1e-9
    )
    message = (
        f"  reported objective gradients:\n{reported.objectives}\n"
        f"  exact objective gradients:\n{exact_objectives}\n"
        f"  reported weighted-objective gradient: {reported.weighted_objective}\n"
        f"  exact weighted-objective gradient:    {exact_weighted}\n"
        f"  shape of reported perturbed variables:  "
        f"{gradient_results.evaluations.perturbed_variables.shape}\n"
        f"  shape of reported perturbed objectives: "
        f"{gradient_results.evaluations.perturbed_objectives.shape}"
    )
    return good, message


def main() -> int:
    status = 0
    for label, gradient_samplers in (
        ("control, gradient.samplers = [0, 0]", [0, 0]),
        ("gradient.samplers = None (the default)", None),
    ):
        good, message = run(gradient_samplers)
        print(f"{label}: {'OK' if good else 'VIOLATION'}")
        print(message)
        if not good:
            status = 1
    if status:
        print(
            "C02 violated: the shared deterministic design is perfectly conditioned "
            "but the reported gradient is not the exact gradient of the affine ensemble."
        )
    return status


if __name__ == "__main__":
    sys.exit(main())
