"""C19 counterexample: 'plugin/method' lookup fails for a registered plug-in
that supports the method, when the plug-in object happens to be falsy.

PluginManager.get_plugin tests the registered object with `if plugin and ...`
instead of `if plugin is not None and ...`.  A plug-in class is free to define
`__len__` (or `__bool__`); here a registry-style plug-in reports the number of
extra methods registered with it.  While that number is zero the plug-in is
falsy, and every explicit 'name/method' request for it is answered with
ConfigError, although
  * the plug-in is registered under that name (a second add_plugin with the
    same name is rejected as a duplicate),
  * the plug-in supports the method, and
  * the bare-name lookup of the very same method on the same manager returns
    exactly this plug-in.

Exit status: 1 if the property is violated, 0 otherwise.
"""

import sys

from ropt.exceptions import ConfigError
from ropt.plugins import PluginManager
from ropt.plugins.function_estimator.base import FunctionEstimatorPlugin
from ropt.plugins.optimizer.base import OptimizerPlugin
from ropt.plugins.plan.base import PlanHandlerPlugin, PlanStepPlugin
from ropt.plugins.realization_filter.base import RealizationFilterPlugin
from ropt.plugins.sampler.base import SamplerPlugin

BASES = {
    "optimizer": OptimizerPlugin,
    "sampler": SamplerPlugin,
    "realization_filter": RealizationFilterPlugin,
    "function_estimator": FunctionEstimatorPlugin,
    "plan_handler": PlanHandlerPlugin,
    "plan_step": PlanStepPlugin,
}


def make_plugin_class(base, *, sized):
    """A plug-in supporting 'basic' plus methods registered at run time."""

    class Registry(base):
        def __init__(self):
            self._extra = {}

        def register(self, name, factory=None):
            self._extra[name.lower()] = factory

        def create(self, *args, **kwargs):  # never used here
            raise NotImplementedError

        def is_supported(self, method):
            return method.lower() == "basic" or method.lower() in self._extra

    if sized:
        # Number of extra methods; makes an instance falsy while it is zero.
        Registry.__len__ = lambda self: len(self._extra)
    return Registry


def lookup(manager, plugin_type, method):
    try:
        return manager.get_plugin(plugin_type, method)
    except ConfigError as exc:
        return exc


failures = []

for plugin_type, base in BASES.items():
    for sized in (False, True):  # False: control, identical but without __len__
        manager = PluginManager()
        plugin = make_plugin_class(base, sized=sized)()
        manager.add_plugin(plugin_type, "Reg", plugin)
        tag = f"[{plugin_type}, {'with' if sized else 'without'} __len__]"

        # The name is taken: the registration is really there.
        try:
            manager.add_plugin(plugin_type, "REG", make_plugin_class(base, sized=sized)())
        except ConfigError:
            pass
        else:
            failures.append(f"{tag} duplicate registration 'REG' was accepted")

        # Bare name: first discoverable plug-in that supports it.
        found = lookup(manager, plugin_type, "basic")
        if found is not plugin:
            failures.append(f"{tag} bare 'basic' -> {found!r}, expected the plug-in")

        # Explicit name, any case: only the named plug-in is consulted, and it
        # supports the method, so the lookup must succeed.
        for request in ("reg/basic", "Reg/basic", "REG/BASIC"):
            found = lookup(manager, plugin_type, request)
            supported = manager.is_supported(plugin_type, request)
            if found is not plugin:
                failures.append(
                    f"{tag} get_plugin({request!r}) -> {found!r}, "
                    "expected the registered plug-in (it supports 'basic' and "
                    "the bare lookup of 'basic' returns it)"
                )
            if supported is not True:
                failures.append(f"{tag} is_supported({request!r}) -> {supported!r}")

        # The answer must not depend on unrelated state of the plug-in object:
        # after registering an extra method the *same* request succeeds.
        before = lookup(manager, plugin_type, "reg/basic") is plugin
        plugin.register("other")
        after = lookup(manager, plugin_type, "reg/basic") is plugin
        if before != after:
            failures.append(
                f"{tag} 'reg/basic' found={before} before and found={after} after "
                "registering an unrelated method 'other' in the plug-in"
            )

if failures:
    print("C19 VIOLATED: explicit 'plugin/method' lookup of a registered, supporting plug-in fails")
    for line in failures:
        print("  -", line)
    sys.exit(1)
print("ok: explicit and bare lookups agree for all plug-in types")
sys.exit(0)
