"""C19 secondary counterexample: plug-in names are only case-insensitive for
names on which str.lower() is a full case folding.

add_plugin/get_plugin normalise names with str.lower().  For names containing
characters such as 'ß', 'µ' (micro sign), 'ſ' or ligatures the
upper-case spelling of the registered name (str.upper() / str.swapcase()) does
not lower-case back to the registered key, so
  * 'NAME/method' does not find the plug-in registered as 'name', and
  * the upper-case spelling can be registered a second time (no duplicate
    error), giving two plug-ins whose names differ only in case.
Exit status: 1 if violated, 0 otherwise.
"""

import sys

from ropt.exceptions import ConfigError
from ropt.plugins import PluginManager
from ropt.plugins.optimizer.base import OptimizerPlugin


class P(OptimizerPlugin):
    def create(self, *args, **kwargs):
        raise NotImplementedError

    def is_supported(self, method):
        return method == "m"


failures = []
for name in ["größe", "µopt", "ﬁt"]:
    for variant in sorted({name.upper(), name.swapcase(), name.title()}):
        manager = PluginManager()
        plugin = P()
        manager.add_plugin("optimizer", name, plugin)
        try:
            found = manager.get_plugin("optimizer", f"{variant}/m")
        except ConfigError as exc:
            found = exc
        if found is not plugin:
            failures.append(f"registered {name!r}; get_plugin({variant + '/m'!r}) -> {found!r}")
        if not manager.is_supported("optimizer", f"{variant}/m"):
            failures.append(f"registered {name!r}; is_supported({variant + '/m'!r}) -> False")
        try:
            manager.add_plugin("optimizer", variant, P())
        except ConfigError:
            pass
        else:
            failures.append(f"registered {name!r}; duplicate registration {variant!r} accepted")

if failures:
    print("C19 VIOLATED: plug-in names are not case-insensitive")
    for line in failures:
        print("  -", line)
    sys.exit(1)
print("ok")
