"""Cooperative multi-run scheduler: every simulated run is a real thread that executes only
while it holds the baton and hands it back at yield points (evaluator entry, event delivery).
A seeded PRNG picks who runs next, so exactly one thread is ever runnable and the
interleaving is a pure function of the seed."""
from __future__ import annotations

import random
import threading
from typing import Any, Callable

import numpy as np


class Scheduler:
    def __init__(self, seed: int, disturb: bool = True) -> None:
        self.rng = random.Random(seed)
        self.cv = threading.Condition()
        self.current: int | None = None
        self.alive: set[int] = set()
        self.switches = 0
        self.choices: list[int] = []
        self.disturb = disturb
        self.errors: dict[int, BaseException] = {}
        self.results: dict[int, Any] = {}
        self.steps = 0
        self.max_steps = 200000

    def _pick(self) -> int | None:
        if not self.alive:
            return None
        order = sorted(self.alive)
        return order[self.rng.randrange(len(order))]

    def _disturb(self) -> None:
        if self.disturb:
            # arbitrary reseeding of / drawing from the global generators at every switch
            np.random.seed(self.rng.getrandbits(32))
            np.random.random(self.rng.randrange(1, 5))
            random.seed(self.rng.getrandbits(32))

    def yield_point(self, tid: int) -> None:
        with self.cv:
            self.steps += 1
            if self.steps > self.max_steps:
                raise RuntimeError("scheduler step cap exceeded")
            nxt = self._pick()
            self._disturb()
            if nxt != tid:
                self.switches += 1
            self.choices.append(nxt)
            self.current = nxt
            self.cv.notify_all()
            while self.current != tid:
                self.cv.wait()

    def _body(self, tid: int, fn: Callable[[], Any]) -> None:
        with self.cv:
            while self.current != tid:
                self.cv.wait()
        try:
            self.results[tid] = fn()
        except BaseException as exc:  # noqa: BLE001
            self.errors[tid] = exc
        finally:
            with self.cv:
                self.alive.discard(tid)
                self.current = self._pick()
                self._disturb()
                self.cv.notify_all()

    def run(self, tasks: list[Callable[[], Any]]) -> None:
        threads = []
        self.alive = set(range(len(tasks)))
        for tid, fn in enumerate(tasks):
            th = threading.Thread(target=self._body, args=(tid, fn), daemon=True)
            threads.append(th)
            th.start()
        with self.cv:
            self.current = self._pick()
            self.cv.notify_all()
        for th in threads:
            th.join(timeout=300)
            if th.is_alive():
                raise RuntimeError("simulated task did not finish")
