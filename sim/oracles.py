"""Shared oracle helpers: link reported results to what the simulated evaluator returned."""
from __future__ import annotations

from typing import Any, Iterator

import numpy as np

from ropt.enums import EventType
from ropt.results import FunctionResults, GradientResults

from . import model
from .harness import RunContext
from .seeds import H
from .simtransforms import TransformModel


class Linked:
    """One reported result linked to its evaluator call and rows."""

    __slots__ = ("rec", "pos", "opt", "user", "call", "rows", "cfg", "is_function", "step")


def step_cfg(ctx: RunContext, source: int) -> dict:
    return ctx.scn["configs"][ctx.step_meta[source]["cfg"]]


def tm_for(ctx: RunContext, cfg: dict) -> TransformModel:
    c = model.cfg_counts(cfg)
    return TransformModel(ctx.scn.get("transforms"), c["nv"], c["no"], c["nc"])


def linked_results(ctx: RunContext) -> Iterator[Linked]:
    calls = ctx.evaluator.calls
    for rec in ctx.events:
        if rec.type != EventType.FINISHED_EVALUATION or rec.results is None:
            continue
        if rec.source < 0:
            continue
        cfg = step_cfg(ctx, rec.source)
        nr = model.cfg_counts(cfg)["nr"]
        npert = model.cfg_counts(cfg)["np"]
        opt = rec.transformed if rec.transformed is not None else rec.results
        fpos = 0
        for pos, item in enumerate(opt):
            ln = Linked()
            ln.rec, ln.pos, ln.opt, ln.user, ln.cfg = rec, pos, item, rec.results[pos], cfg
            ln.step = rec.source
            bid = item.batch_id
            ln.call = calls[bid] if isinstance(bid, int) and 0 <= bid < len(calls) else None
            ln.rows = None
            if isinstance(item, FunctionResults):
                ln.is_function = True
                if ln.call is not None:
                    if ln.call.kind == "f":
                        ln.rows = np.arange(fpos * nr, (fpos + 1) * nr)
                    elif ln.call.kind == "fg":
                        ln.rows = np.arange(0, nr)
                    if ln.rows is not None and ln.rows[-1] >= ln.call.variables.shape[0]:
                        ln.rows = None
                fpos += 1
            else:
                ln.is_function = False
                if ln.call is not None:
                    if ln.call.kind == "g":
                        ln.rows = np.arange(0, nr * npert)
                    elif ln.call.kind == "fg":
                        ln.rows = np.arange(nr, nr + nr * npert)
                    if ln.rows is not None and ln.rows[-1] >= ln.call.variables.shape[0]:
                        ln.rows = None
            yield ln


def returned_opt_values(ln: Linked, tm: TransformModel):
    """Optimizer-domain values of what the evaluator returned for the rows of this result."""
    obj = tm.obj_to_opt(ln.call.obj[ln.rows])
    con = None if ln.call.con is None else tm.con_to_opt(ln.call.con[ln.rows])
    return obj, con


def failed_rows(ln: Linked) -> np.ndarray:
    obj = ln.call.obj[ln.rows]
    con = None if ln.call.con is None else ln.call.con[ln.rows]
    bad = np.any(np.isnan(obj), axis=1)
    if con is not None:
        bad = bad | np.any(np.isnan(con), axis=1)
    return bad


def weights_in_force(ln: Linked, kind: str, j: int):
    """Configured normalised weights for unfiltered functions; the reported filter row
    otherwise (its correctness is C04/C05's job).  Returns (weights | None, filtered)."""
    f = model.filter_of(ln.cfg, kind, j)
    if f < 0:
        return model.realization_weights(ln.cfg), False
    rep = ln.opt.realizations.objective_weights if kind == "o" else ln.opt.realizations.constraint_weights
    if rep is None:
        return None, True
    return np.array(rep[j], dtype=float), True


def has_filters(cfg: dict) -> bool:
    c = model.cfg_counts(cfg)
    return any(model.filter_of(cfg, "o", j) >= 0 for j in range(c["no"])) or any(
        model.filter_of(cfg, "c", j) >= 0 for j in range(c["nc"])
    )


def scenario_key(scn: dict, extra: Any = None) -> str:
    """Distinctness key (deliberately coarse: shapes, not numeric values): sizes, mask and
    zero-weight patterns, filter kinds and maps, estimator maps, transform kinds, step kind,
    request-kind sequence and the fault plan."""
    cfg = scn["configs"][0]
    c = model.cfg_counts(cfg)
    opts = (cfg.get("optimizer") or {}).get("options") or {}
    script = opts.get("script") if isinstance(opts, dict) else None
    sk = [(e["op"], len(e["pts"]), bool(e.get("batch"))) for e in (script or [])]
    fk = sorted(str((f["kind"], f.get("eval"), f.get("real"), f.get("pert"), f.get("col"), f.get("vec"))) for f in scn.get("faults", []))
    filt = [f["method"] for f in cfg.get("realization_filters", [])]
    zr = [w == 0 for w in np.atleast_1d(cfg.get("realizations", {}).get("weights", [1.0]))]
    zo = [w == 0 for w in np.atleast_1d(cfg.get("objectives", {}).get("weights", [1.0]))]
    nl = cfg.get("nonlinear_constraints") or {}
    tr = scn.get("transforms") or {}
    knobs = (
        c["nv"], c["nr"], c["no"], c["nc"], c["np"],
        str(cfg["variables"].get("mask")), str(zr), str(zo),
        str(cfg.get("realizations", {}).get("realization_min_success")),
        str(cfg.get("gradient", {}).get("perturbation_min_success")),
        str(cfg.get("gradient", {}).get("merge_realizations")),
        str(filt), str(cfg["objectives"].get("realization_filters")), str(nl.get("realization_filters")),
        str(cfg["objectives"].get("function_estimators")), str(nl.get("function_estimators")),
        str([e.get("method") for e in cfg.get("function_estimators", [])]),
        str([(s_.get("method"), s_.get("shared")) for s_ in cfg.get("samplers", [])]),
        str(sorted(k for k, v in tr.items() if v)),
        str([s_["kind"] for s_ in scn["plan"]["steps"]]), str(sorted((scn.get("mode") or {}).items(), key=str)),
        "linear" in cfg,
    )
    return f"{H(knobs, sk, fk, extra):016x}"


def exits_summary(ctx: RunContext) -> list:
    return [list(e) for e in ctx.exits]


# ---------------------------------------------------------------------------
# gradient reference
def unperturbed_source(ctx: RunContext, ln: Linked):
    """(call, rows) holding the unperturbed values used for this gradient result."""
    nr = model.cfg_counts(ln.cfg)["nr"]
    if ln.call.kind == "fg":
        return ln.call, np.arange(0, nr)
    # gradient-only: the function values of this point are those of the latest call that evaluated unperturbed rows
    # (a functions-only call - its first vector - or a combined call: ropt keeps no function values across a combined
    # evaluation, so on a correct tree a gradient-only call is never preceded by a combined one without a
    # functions-only call in between)
    for c in reversed(ctx.evaluator.calls[: ln.call.k]):
        if c.kind in ("f", "fg") and c.config is ln.call.config and c.obj is not None:
            return c, np.arange(0, nr)
    return None, None


def gradient_reference(ctx: RunContext, ln: Linked, *, exact_slopes: np.ndarray | None = None):
    """Reference gradients for one GradientResults (optimizer domain, full length).

    Per realization least squares on the *reported* perturbation differences restricted to
    free columns and successful rows, under the C02 conditioning predicate; then the
    estimator's chain rule with the weights in force (failed realizations zeroed,
    renormalised).  Returns dict with per-function entries:
        {"ref": array | None, "why": reason when None}
    plus the model's failure flags.  ``exact_slopes`` (nr, nf, nv_free; optimizer domain)
    replaces the least-squares solve (C02, affine worlds)."""
    cfg = ln.cfg
    c = model.cfg_counts(cfg)
    nr, npert = c["nr"], c["np"]
    tm = tm_for(ctx, cfg)
    mask = model.mask_of(cfg)
    gr = ln.opt
    x = np.asarray(gr.evaluations.variables, dtype=float)
    pv = np.asarray(gr.evaluations.perturbed_variables, dtype=float)
    ucall, urows = unperturbed_source(ctx, ln)
    if ucall is None:
        return None
    y0o = tm.obj_to_opt(ucall.obj[urows])
    y0c = None if ucall.con is None else tm.con_to_opt(ucall.con[urows])
    ypo = tm.obj_to_opt(ln.call.obj[ln.rows]).reshape(nr, npert, -1)
    ypc = None if ln.call.con is None else tm.con_to_opt(ln.call.con[ln.rows]).reshape(nr, npert, -1)
    f_failed = np.any(np.isnan(ucall.obj[urows]), axis=1)
    if ucall.con is not None:
        f_failed |= np.any(np.isnan(ucall.con[urows]), axis=1)
    p_failed = np.any(np.isnan(ln.call.obj[ln.rows]), axis=1)
    if ln.call.con is not None:
        p_failed |= np.any(np.isnan(ln.call.con[ln.rows]), axis=1)
    p_failed = p_failed.reshape(nr, npert)
    succ_count = (~p_failed).sum(axis=1)
    failed = f_failed | (succ_count < model.perturbation_min_success(cfg))
    out = {"failed": failed, "f_failed": f_failed, "p_failed": p_failed, "funcs": {}, "x": x, "mask": mask}
    D = (pv - x[None, None, :])[:, :, mask]
    merge = bool(cfg.get("gradient", {}).get("merge_realizations", False))
    out["merge"] = merge
    # (differences below this are rounding noise of the variables, not perturbations)
    floor = 1e-10 * max(1.0, float(np.max(np.abs(x))) if x.size else 1.0)
    for kind, n, y0, yp in (("o", c["no"], y0o, ypo), ("c", c["nc"], y0c, ypc)):
        for j in range(n):
            w, filtered = weights_in_force(ln, kind, j)
            entry = {"ref": None, "why": None, "filtered": filtered}
            out["funcs"][(kind, j)] = entry
            if w is None:
                entry["why"] = "no-filter-weights"
                continue
            w = np.where(failed, 0.0, w)
            if w.sum() <= 0 or np.any(w < 0):
                entry["why"] = "no-positive-weight-success"
                continue
            wn = w / w.sum()
            est = model.estimator_of(cfg, kind, j)
            entry["est"] = est
            G = np.zeros((nr, int(mask.sum())))
            ok = True
            for r in range(nr):
                if wn[r] <= 0:
                    continue
                s = ~p_failed[r]
                if exact_slopes is not None:
                    fi = j if kind == "o" else c["no"] + j
                    G[r] = exact_slopes[r, fi]
                    if not model.lstsq_ok(D[r][s], floor):
                        ok = False
                        break
                    continue
                Dr = D[r][s]
                if not model.lstsq_ok(Dr, floor):
                    ok = False
                    break
                df = yp[r, s, j] - y0[r, j]
                G[r] = np.linalg.lstsq(Dr, df, rcond=None)[0]
            if not ok:
                entry["why"] = "ill-conditioned"
                continue
            if merge:
                entry["why"] = "merged"
                entry["G"], entry["wn"] = G, wn
                continue
            if est == "stddev" and np.any((wn > 0) & (wn < 1e-6)):
                # a realization with a weight of 1e-9 next to one with weight ~1: the weighted standard deviation and its
                # gradient are differences of nearly equal numbers (f - mean = w_small * (f - f_other)), rounding noise
                # of 1e-3 relative size was observed between two correct evaluations of the same formula
                entry["why"] = "stddev-ill-conditioned-weights"
                continue
            ref = model.estimate_gradient(est, y0[:, j], G, wn)
            if ref is None:
                entry["why"] = "estimator-undefined"
                continue
            if isinstance(ref, str):
                entry["why"] = "stddev-degenerate"
                continue
            full = np.zeros(mask.size)
            full[mask] = ref
            entry["ref"] = full
    return out


# ---------------------------------------------------------------------------
# realization-filter helpers (C04 / C05)
def filter_rows(ln: Linked, fidx: int):
    """Reported weight rows of all functions mapped to filter ``fidx``: list of (kind, j, row)."""
    cfg = ln.cfg
    c = model.cfg_counts(cfg)
    rows = []
    rl = ln.opt.realizations
    for kind, n, rep in (("o", c["no"], rl.objective_weights), ("c", c["nc"], rl.constraint_weights)):
        for j in range(n):
            if model.filter_of(cfg, kind, j) == fidx and rep is not None:
                rows.append((kind, j, np.array(rep[j], dtype=float)))
    return rows


def ranking_entries_inactive(ctx, cfg: dict, call) -> str | None:
    """A filter that is mapped to some function ranks *all* realizations by its key functions, so in a
    function evaluation every (key function, realization) entry must be flagged as needed: an evaluator is
    free to skip (or fill with anything) entries flagged inactive.  Returns a description or None."""
    if call is None or call.kind not in ("f", "fg"):
        return None
    c = model.cfg_counts(cfg)
    for fi, flt in enumerate(cfg.get("realization_filters") or []):
        mapped = any(model.filter_of(cfg, k, j) == fi for k, n in (("o", c["no"]), ("c", c["nc"])) for j in range(n))
        if not mapped:
            continue
        if flt["method"].endswith("objective"):
            keys, act, what = list(flt["options"]["sort"]), call.active_objectives, "objective"
        else:
            keys, act, what = [int(flt["options"]["sort"])], call.active_constraints, "constraint"
        if act is None:
            continue
        for k in keys:
            for r in sorted({int(v) for v in call.realizations}):
                if not act[k, r]:
                    return (f"eval {call.k}: realization {r} is flagged inactive for {what} {k}, but filter {fi} "
                            f"({flt['method']} {flt['options']}) ranks the realizations by that {what}")
    return None


def sort_key_values(cfg: dict, flt: dict, yo: np.ndarray, yc: np.ndarray | None) -> np.ndarray:
    """The value the filter ranks by (optimizer domain): weighted sum of the chosen objectives,
    or the chosen constraint."""
    if flt["method"].endswith("objective"):
        sort = list(flt["options"]["sort"])
        ow = model.objective_weights(cfg)
        if ow.size > 1:
            # (summed realization by realization: equal rows give equal sums, see fix 4a1e1b5)
            return (np.nan_to_num(yo[:, sort]) * ow[sort]).sum(axis=-1)
        return np.nan_to_num(yo[:, sort]).reshape(-1)
    return np.nan_to_num(yc[:, int(flt["options"]["sort"])])


def near_ties(values) -> bool:
    """Ranking ambiguous: two values closer than 1e-9 without being equal.  Exactly equal values are not ambiguous:
    the filters rank them by realization index (stable sort), with or without failed realizations."""
    v = np.sort(np.asarray(values, float))
    if v.size < 2:
        return False
    d = np.diff(v)
    return bool(np.any((d > 0) & (d < 1e-9)))


def ref_filter_weights(cfg, flt, yo, yc, failed, cw, tm):
    """Model weights of one filter; returns (weights | None when nothing succeeded, ambiguous)."""
    vals = sort_key_values(cfg, flt, yo, yc)
    ties = near_ties(vals[~failed])
    if flt["method"].startswith("sort"):
        return model.sort_window_weights(vals, failed, int(flt["options"]["first"]), int(flt["options"]["last"]), cw), ties
    if (~failed).sum() == 0:
        return None, False
    p = float(flt["options"]["percentile"])
    if flt["method"].endswith("objective"):
        bad = vals
    else:
        j = int(flt["options"]["sort"])
        nl = cfg["nonlinear_constraints"]
        lo = float(tm.con_to_opt(np.asarray(nl["lower_bounds"], float))[j])
        hi = float(tm.con_to_opt(np.asarray(nl["upper_bounds"], float))[j])
        if np.isfinite(lo) and np.isfinite(hi):
            bad = np.maximum(lo - vals, vals - hi)  # two-sided / equality: distance beyond (or to) the nearer bound
        elif np.isfinite(lo):
            bad = -vals  # lower-bounded: the smallest values are the worst (ranked on the values themselves)
        else:
            bad = vals  # upper-bounded or unbounded: the largest values are the worst
        ties = near_ties(bad[~failed])
    w, _ = model.cvar_weights_exact(bad, failed, p)
    return np.array([float(x) for x in w]), ties


