"""FakeSciPy: a stand-in for scipy.optimize.minimize / differential_evolution.

It receives exactly what the real SciPy plug-in would hand to SciPy (fun, jac, bounds,
constraints, options) and calls those callables in a seed-chosen order.  Installed by
replacing the names ``minimize`` / ``differential_evolution`` inside
``ropt.plugins.optimizer.scipy`` (only inside simulation workers).

Also the ``simwrap/<method>`` optimizer plug-in: it creates the real SciPyOptimizer with a
recording wrapper around the optimizer callback (the level the property C07 names).
"""
from __future__ import annotations

from typing import Any

import numpy as np

import ropt.plugins.optimizer.scipy as scipy_plugin
from ropt.plugins.optimizer.base import OptimizerPlugin

from . import backend

import scipy.optimize as _so

_REAL = {"minimize": _so.minimize, "differential_evolution": _so.differential_evolution}
CURRENT: list[Any] = []  # stack of FakeState (one per running simulated optimization)


class FakeState:
    def __init__(self, script: list[dict], points: list[list[float]], mode: str = "script") -> None:
        self.script = script
        self.points = points
        self.received: dict[str, Any] = {}
        self.log: list[dict] = []          # requests made to the handed callables + returns
        self.callback_log: list[dict] = []  # optimizer-callback invocations (simwrap)
        self.calls = 0
        self.tick = 0

    def next_seq(self) -> int:
        self.tick += 1
        return self.tick


def install() -> None:
    # the names the plug-in module imported, and the attributes of scipy.optimize itself (so that a
    # plug-in written as `scipy.optimize.minimize(...)` meets the same seam)
    import scipy.optimize as so

    for mod in (scipy_plugin, so):
        if hasattr(mod, "minimize"):
            mod.minimize = fake_minimize
        if hasattr(mod, "differential_evolution"):
            mod.differential_evolution = fake_differential_evolution


def uninstall() -> None:
    import scipy.optimize as so

    for mod in (scipy_plugin, so):
        if hasattr(mod, "minimize"):
            mod.minimize = _REAL["minimize"]
        if hasattr(mod, "differential_evolution"):
            mod.differential_evolution = _REAL["differential_evolution"]


def _point(state: FakeState, pid: int, x0: np.ndarray) -> np.ndarray:
    if isinstance(pid, (list, tuple)):
        return np.array(pid, dtype=np.float64)
    if pid < 0:
        return np.array(x0, dtype=np.float64)
    return np.array(state.points[pid], dtype=np.float64)


def fake_minimize(fun, x0, tol=None, method=None, bounds=None, jac=None, constraints=(), options=None, **kw):
    state: FakeState = CURRENT[-1]
    state.calls += 1
    x0 = np.asarray(x0, dtype=np.float64)
    state.received = {"api": "minimize", "x0": x0.copy(), "tol": tol, "method": method, "bounds": bounds,
                      "jac": jac, "constraints": constraints, "options": options, "extra": kw, "fun": fun}
    for idx, entry in enumerate(state.script):
        q = entry["q"]
        x = _point(state, entry["pt"], x0)
        rec = {"i": idx, "q": q, "k": entry.get("k"), "x": x.copy(), "seq": state.next_seq()}
        _last_ret = None
        if q == "f":
            _last_ret = fun(x)
            rec["ret"] = np.array(_last_ret, copy=True)
        elif q == "g":
            if not callable(jac):
                rec["skipped"] = "no jac handed"
                state.log.append(rec)
                continue
            _last_ret = jac(x)
            rec["ret"] = np.array(_last_ret, copy=True)
        elif q in ("c", "j"):
            cons = list(constraints or [])
            if not cons:
                rec["skipped"] = "no constraints handed"
                state.log.append(rec)
                continue
            k = entry["k"] % len(cons)
            rec["k"] = k
            c = cons[k]
            if q == "c":
                _last_ret = c["fun"](x)
                rec["ret"] = np.array(_last_ret, copy=True)
            else:
                if "jac" not in c:
                    rec["skipped"] = "no constraint jac handed"
                    state.log.append(rec)
                    continue
                _last_ret = c["jac"](x)
                rec["ret"] = np.array(_last_ret, copy=True)
        state.log.append(rec)
    return None


def fake_differential_evolution(func, bounds=None, x0=None, constraints=(), polish=None, vectorized=False, **options):
    state: FakeState = CURRENT[-1]
    state.calls += 1
    x0 = np.asarray(x0, dtype=np.float64)
    state.received = {"api": "differential_evolution", "x0": x0.copy(), "bounds": bounds, "constraints": constraints,
                      "polish": polish, "vectorized": vectorized, "options": options, "fun": func}
    nl = [c for c in (constraints or []) if hasattr(c, "fun")]
    for idx, entry in enumerate(state.script):
        q = entry["q"]
        pts = entry.get("pts") or [entry["pt"]]
        if vectorized:
            x = np.stack([_point(state, p, x0) for p in pts], axis=1)  # (N, S)
        else:
            x = _point(state, pts[0], x0)
        rec = {"i": idx, "q": q, "x": x.copy(), "pts": list(pts), "seq": state.next_seq()}
        if q == "f":
            rec["ret"] = np.array(func(x), copy=True)
        elif q == "c":
            if not nl:
                rec["skipped"] = "no nonlinear constraint handed"
                state.log.append(rec)
                continue
            rec["ret"] = np.array(nl[0].fun(x), copy=True)
        else:
            rec["skipped"] = "not applicable to differential_evolution"
        state.log.append(rec)
    return None


# ----------------------------------------------------------------------------
class SimWrapPlugin(OptimizerPlugin):
    """simwrap/<method>: the real SciPyOptimizer with a recording optimizer callback."""

    def create(self, config, optimizer_callback):
        state = CURRENT[-1] if CURRENT else None

        def recording_callback(variables, *, return_functions, return_gradients):
            rec = {"x": np.array(variables, copy=True), "rf": bool(return_functions), "rg": bool(return_gradients)}
            if state is not None:
                rec["seq"] = state.next_seq()
                state.callback_log.append(rec)
            out = optimizer_callback(variables, return_functions=return_functions, return_gradients=return_gradients)
            rec["functions"] = np.array(out[0], copy=True)
            rec["gradients"] = np.array(out[1], copy=True)
            return out

        return scipy_plugin.SciPyOptimizer(config, recording_callback)

    def is_supported(self, method: str) -> bool:
        return scipy_plugin.SciPyOptimizerPlugin().is_supported(method)
