"""SimKernel: parent and child of ropt's external-optimizer plug-in run as two baton-passing
threads of one process on a simulated kernel: FIFOs with capacity and POSIX
open/select/read/write semantics, a process table with signals, per-process virtual time
and a seeded scheduler.  Every fake system call is a yield point; when nothing is runnable
the clock jumps to the next wake-up, so poll sleeps and select timeouts cost microseconds.

The proxies are installed in the namespace of ``ropt.plugins.optimizer.external`` (the
names os, selectors, subprocess, time, atexit, sys, PluginManager); everything outside
simulated threads keeps seeing the real libraries.
"""
from __future__ import annotations

import atexit as _atexit
import errno
import os as _os
import random
import selectors as _selectors
import signal as _signal
import subprocess as _subprocess
import sys as _sys
import threading
import time as _time
from pathlib import Path
from typing import Any

PIPE_BUF = 4096
PID_BASE = 5_000_000  # above pid_max: a stray real kill could never hit a real process
EVENT_READ, EVENT_WRITE = 1, 2


class ProcessKilled(BaseException):
    """Raised inside a simulated process at a system call when it has been killed."""


class Fifo:
    def __init__(self, path: str, capacity: int) -> None:
        self.path = path
        self.capacity = capacity
        self.buf = bytearray()
        self.readers = 0
        self.writers = 0
        self.had_writer = False
        self.w_counter = 0


class OpenFile:
    def __init__(self, fifo: Fifo, mode: str) -> None:
        self.fifo = fifo
        self.mode = mode  # "r" | "w"
        self.refs = 1
        # Linux suppresses the hang-up of a read end until it has seen a writer: the writer count is
        # remembered only if there is no writer at open time
        self.w_counter_at_open = fifo.w_counter if (mode == "r" and fifo.writers == 0) else -1


class SimProcess:
    def __init__(self, kernel: "SimKernel", pid: int, name: str, cost: float) -> None:
        self.kernel = kernel
        self.pid = pid
        self.name = name
        self.cost = cost
        self.now = 0.0
        self.wake = 0.0
        self.dead = False
        self.reaped = False
        self.status: int | None = None
        self.pending_signal: int | None = None
        self.fds: dict[int, OpenFile] = {}
        self.syscalls = 0
        self.thread: threading.Thread | None = None
        self.resume = threading.Event()
        self.blocked: dict | None = None
        self.exception: BaseException | None = None
        self.result: Any = None
        self.finished_at: float | None = None


class SimKernel:
    def __init__(self, seed: int, *, capacity: int = 65536, faults: list[dict] | None = None,
                 cost_parent: float = 1e-4, cost_child: float = 1e-4, max_steps: int = 400_000, max_time: float = 900.0) -> None:
        self.rng = random.Random(seed)
        self.capacity = capacity
        self.faults = list(faults or [])
        self.fifos: dict[str, Fifo] = {}
        self.procs: dict[int, SimProcess] = {}
        self.by_thread: dict[int, SimProcess] = {}
        self.next_pid = PID_BASE
        self.next_fd = 1000
        self.yielded = threading.Event()
        self.current: SimProcess | None = None
        self.steps = 0
        self.max_steps = max_steps
        self.max_time = max_time
        self.clock = 0.0
        self.fired: dict[str, int] = {}
        self.atexit: list = []
        self.cost = {"parent": cost_parent, "child": cost_child}
        self.hang = False
        self.log: list[tuple] = []
        self.messages = 0
        self.last_fault_time = 0.0
        self.child_target = None  # callable(kernel, argv) run as the child process body
        self.trace_enabled = False
        self.write_log: list[tuple[str, int]] = []

    # ------------------------------------------------------------------ processes
    def _fire(self, kind: str) -> None:
        self.fired[kind] = self.fired.get(kind, 0) + 1
        self.last_fault_time = self.clock

    def _fire_count(self, kind: str) -> None:
        self.fired[kind] = self.fired.get(kind, 0) + 1

    def me(self) -> SimProcess | None:
        return self.by_thread.get(threading.get_ident())

    def spawn(self, name: str, body, start_time: float = 0.0) -> SimProcess:
        pid = self.next_pid
        self.next_pid += 1
        proc = SimProcess(self, pid, name, self.cost.get(name, 1e-4))
        proc.now = proc.wake = start_time
        self.procs[pid] = proc

        def run() -> None:
            self.by_thread[threading.get_ident()] = proc
            proc.resume.wait()
            proc.resume.clear()
            try:
                if proc.pending_signal is not None:
                    raise ProcessKilled()
                proc.result = body()
                if proc.status is None:
                    proc.status = 0 if not isinstance(proc.result, int) else proc.result
            except ProcessKilled:
                if proc.status is None:
                    proc.status = -(proc.pending_signal or 9)
            except SystemExit as exc:
                code = exc.code
                proc.status = 0 if code is None else (code if isinstance(code, int) else 1)
            except BaseException as exc:  # noqa: BLE001
                proc.exception = exc
                proc.status = 1
            finally:
                self._die(proc)
                self.yielded.set()

        proc.thread = threading.Thread(target=run, daemon=True, name=f"sim-{name}-{pid}")
        proc.thread.start()
        return proc

    def _die(self, proc: SimProcess) -> None:
        if proc.dead:
            return
        proc.dead = True
        proc.finished_at = proc.now
        for fd in list(proc.fds):
            self._close(proc, fd)
        self._wake_waiters(proc.now)

    # ------------------------------------------------------------------ scheduling
    def run(self) -> None:
        """Main loop (runs in the controlling thread)."""
        while True:
            alive = [p for p in self.procs.values() if not p.dead]
            if not alive:
                return
            self.steps += 1
            t = min(p.wake for p in alive)
            if self.steps > self.max_steps or t > self.max_time:
                self.hang = True
                for p in alive:
                    p.pending_signal = 9
                # let every process die at its next system call
                for p in alive:
                    if not p.dead:
                        self._resume(p)
                return
            cands = [p for p in alive if p.wake <= t + 1e-12]
            proc = cands[self.rng.randrange(len(cands))] if len(cands) > 1 else cands[0]
            self.clock = max(self.clock, t)
            proc.now = max(proc.now, proc.wake)
            self._resume(proc)

    def _resume(self, proc: SimProcess) -> None:
        self.current = proc
        self.yielded.clear()
        proc.resume.set()
        if not self.yielded.wait(timeout=120):
            raise RuntimeError(f"simulated process {proc.name} did not yield")

    def _yield(self, proc: SimProcess) -> None:
        """Give the baton back to the kernel loop and wait to be scheduled again."""
        self.yielded.set()
        proc.resume.wait()
        proc.resume.clear()
        if proc.pending_signal is not None and not proc.dead:
            self._kill_now(proc)

    def _kill_now(self, proc: SimProcess) -> None:
        """The process dies here: the kernel closes its descriptors at once; the thread then
        unwinds with every further fake system call being a no-op."""
        proc.status = -(proc.pending_signal or 9)
        self._die(proc)
        raise ProcessKilled()

    def syscall(self, name: str, extra: float = 0.0) -> SimProcess | None:
        """Entry of every fake system call made by a simulated process."""
        proc = self.me()
        if proc is None:
            return None
        if proc.dead:
            # a killed process executes nothing any more: should the code under test have swallowed the exception
            # that unwinds its thread (an `except BaseException`), the next system call raises it again
            raise ProcessKilled()
        proc.syscalls += 1
        if self.trace_enabled:
            self.log.append((round(proc.now, 6), proc.name, name))
        for f in self.faults:
            if f.get("_done"):
                continue
            if f["kind"] == "kill_child" and proc.name == "child" and proc.syscalls == f["at"]:
                f["_done"] = True
                self._fire("kill_child")
                proc.pending_signal = int(f.get("sig", 9))
                self._kill_now(proc)
            if f["kind"] == "stall" and proc.name == f["proc"] and proc.syscalls == f["at"]:
                f["_done"] = True
                self._fire("stall")
                extra += f["duration"]
        jitter = 1.0 + 0.5 * self.rng.random()
        proc.wake = proc.now + proc.cost * jitter + extra
        self._yield(proc)
        return proc

    def advance(self, seconds: float) -> None:
        """Virtual time spent computing (e.g. the evaluator); also a yield point."""
        proc = self.me()
        if proc is None or proc.dead:
            return
        proc.wake = proc.now + seconds
        self._yield(proc)

    def _block(self, proc: SimProcess, cond: dict, deadline: float) -> None:
        proc.blocked = cond
        proc.wake = deadline
        try:
            self._yield(proc)
        finally:
            proc.blocked = None

    def _wake_waiters(self, now: float) -> None:
        for p in self.procs.values():
            if p.dead or p.blocked is None:
                continue
            b = p.blocked
            ready = False
            if b["kind"] == "select":
                ready = bool(self._ready(p, b["fds"]))
            elif b["kind"] == "wait":
                ready = self.procs[b["pid"]].dead
            elif b["kind"] == "open":
                ready = getattr(b["fifo"], b["want"]) > 0
            if ready:
                p.wake = min(p.wake, max(p.now, now))

    # ------------------------------------------------------------------ FIFOs
    def mkfifo(self, path: str) -> None:
        if path not in self.fifos:
            self.fifos[path] = Fifo(path, self.capacity)
            Path(path).touch()  # marker so that Path.exists() sees it

    def _open(self, proc: SimProcess, path: str, flags: int) -> int:
        fifo = self.fifos[path]
        acc = flags & _os.O_ACCMODE
        if not flags & _os.O_NONBLOCK:
            # a blocking open of a FIFO waits for the other end (for ever, if it never comes)
            want = "readers" if acc == _os.O_WRONLY else "writers"
            while getattr(fifo, want) == 0:
                self._fire_count("blocking_open_waits")
                self._block(proc, {"kind": "open", "fifo": fifo, "want": want}, proc.now + 1e9)
        if acc == _os.O_WRONLY:
            if fifo.readers == 0:
                raise OSError(errno.ENXIO, "No such device or address", path)
            fifo.writers += 1
            fifo.had_writer = True
            fifo.w_counter += 1
            of = OpenFile(fifo, "w")
        else:
            fifo.readers += 1
            of = OpenFile(fifo, "r")
        fd = self.next_fd
        self.next_fd += 1
        proc.fds[fd] = of
        self._wake_waiters(proc.now)
        return fd

    def _close(self, proc: SimProcess, fd: int) -> None:
        of = proc.fds.pop(fd, None)
        if of is None:
            return
        of.refs -= 1
        if of.refs == 0:
            if of.mode == "w":
                of.fifo.writers -= 1
            else:
                of.fifo.readers -= 1
            if of.fifo.readers == 0 and of.fifo.writers == 0:
                of.fifo.buf.clear()  # the kernel frees the buffers with the last reference
        self._wake_waiters(proc.now)

    def _ready(self, proc: SimProcess, fds: dict[int, int]) -> list[tuple[int, int]]:
        out = []
        for fd, events in fds.items():
            of = proc.fds.get(fd)
            if of is None:
                continue
            f = of.fifo
            mask = 0
            if of.mode == "r":
                # hang-up: no writer now, but one has existed since this end was opened
                if f.buf or (f.writers == 0 and f.w_counter != of.w_counter_at_open):
                    mask |= EVENT_READ
            else:
                if f.capacity - len(f.buf) >= PIPE_BUF or f.readers == 0:
                    mask |= EVENT_WRITE
            mask &= events
            if mask:
                out.append((fd, mask))
        return out

    def _write(self, proc: SimProcess, fd: int, data: bytes) -> int:
        of = proc.fds.get(fd)
        if of is None or of.mode != "w":
            raise OSError(errno.EBADF, "Bad file descriptor")
        f = of.fifo
        if f.readers == 0:
            raise BrokenPipeError(errno.EPIPE, "Broken pipe")
        free = f.capacity - len(f.buf)
        n = len(data)
        if n <= PIPE_BUF:
            if free < n:
                raise BlockingIOError(errno.EAGAIN, "Resource temporarily unavailable")
            count = n
        else:
            if free <= 0:
                raise BlockingIOError(errno.EAGAIN, "Resource temporarily unavailable")
            count = min(free, n)
            if count < n:
                self._fire("short_write_pipe_full")
            for flt in self.faults:
                if flt["kind"] == "short_write" and not flt.get("_done") and proc.name == flt.get("proc", proc.name):
                    flt["_done"] = True
                    count = max(1, min(count, int(n * flt["fraction"])))
                    self._fire("short_write_injected")
        f.buf += data[:count]
        self.messages += 1
        self.write_log.append((proc.name, proc.syscalls))
        self._wake_waiters(proc.now)
        return count

    def _read(self, proc: SimProcess, fd: int, size: int) -> bytes:
        of = proc.fds.get(fd)
        if of is None or of.mode != "r":
            raise OSError(errno.EBADF, "Bad file descriptor")
        f = of.fifo
        data = bytes(f.buf[:size])
        del f.buf[:size]
        if data:
            self._wake_waiters(proc.now)
        return data

    # ------------------------------------------------------------------ teardown
    def shutdown(self) -> None:
        for p in self.procs.values():
            if not p.dead:
                p.pending_signal = p.pending_signal or 9
                p.resume.set()
        for p in self.procs.values():
            if p.thread is not None:
                p.thread.join(timeout=10)


# ============================================================================
# proxies installed into ropt.plugins.optimizer.external
class FakeFile:
    """What os.fdopen(os.dup(fd), 'r') gives on a non-blocking FIFO."""

    def __init__(self, kernel: SimKernel, proc: SimProcess, fd: int) -> None:
        self.k, self.proc, self.fd = kernel, proc, fd
        self.buffer = b""

    def __enter__(self):
        return self

    def __exit__(self, *a) -> None:
        self.close()

    def close(self) -> None:
        # data that was read into the buffer but not consumed is lost, as with a real file object
        if self.buffer:
            self.k.fired["buffered_bytes_dropped"] = self.k.fired.get("buffered_bytes_dropped", 0) + 1
        self.k.syscall("close")
        if not self.proc.dead:
            self.k._close(self.proc, self.fd)

    def readline(self) -> str:
        while b"\n" not in self.buffer:
            self.k.syscall("read")
            if self.proc.dead:
                return ""
            chunk = self.k._read(self.proc, self.fd, 8192)
            if not chunk:
                break
            self.buffer += chunk
        if b"\n" in self.buffer:
            line, _, rest = self.buffer.partition(b"\n")
            self.buffer = rest
            return (line + b"\n").decode("utf-8")
        line, self.buffer = self.buffer, b""
        return line.decode("utf-8", errors="replace")


class FakeOS:
    def __init__(self, kernel: SimKernel) -> None:
        self._k = kernel

    def __getattr__(self, name: str):
        return getattr(_os, name)

    def getpid(self) -> int:
        p = self._k.me()
        return p.pid if p is not None else _os.getpid()

    def mkfifo(self, path, mode=0o666) -> None:
        self._k.syscall("mkfifo")
        self._k.mkfifo(str(path))

    def open(self, path, flags, mode=0o777):
        p = self._k.syscall("open")
        if p is None or str(path) not in self._k.fifos:
            return _os.open(path, flags, mode)
        if p.dead:
            raise ProcessKilled()
        return self._k._open(p, str(path), flags)

    def close(self, fd) -> None:
        p = self._k.me()
        if p is None or fd < 1000:
            return _os.close(fd)
        self._k.syscall("close")
        if not p.dead:
            self._k._close(p, fd)

    def dup(self, fd):
        p = self._k.me()
        if p is None or fd < 1000:
            return _os.dup(fd)
        self._k.syscall("dup")
        of = p.fds[fd]
        of.refs += 1
        new = self._k.next_fd
        self._k.next_fd += 1
        p.fds[new] = of
        return new

    def fdopen(self, fd, *args, **kwargs):
        p = self._k.me()
        if p is None or fd < 1000:
            return _os.fdopen(fd, *args, **kwargs)
        return FakeFile(self._k, p, fd)

    def read(self, fd, size):
        p = self._k.me()
        if p is None or fd < 1000:
            return _os.read(fd, size)
        self._k.syscall("read")
        if p.dead:
            raise ProcessKilled()
        data = self._k._read(p, fd, size)
        if not data:
            f = p.fds[fd].fifo
            if f.writers == 0:
                return b""  # end of file (also before the first writer, as on Linux)
            raise BlockingIOError(errno.EAGAIN, "Resource temporarily unavailable")
        return data

    def write(self, fd, data):
        p = self._k.me()
        if p is None or fd < 1000:
            return _os.write(fd, data)
        self._k.syscall("write")
        if p.dead:
            raise ProcessKilled()
        return self._k._write(p, fd, bytes(data))

    def kill(self, pid, sig) -> None:
        k = self._k
        p = k.me()
        if p is None or pid < PID_BASE:
            return _os.kill(pid, sig)
        k.syscall("kill")
        target = k.procs.get(pid)
        if target is None or target.reaped or (target.dead and target.name == "parent"):
            # (an exited parent is reaped by its own parent at once; a dead child stays a zombie
            # until it is waited for)
            raise ProcessLookupError(errno.ESRCH, "No such process")
        if sig == 0 or target.dead:
            return
        target.pending_signal = int(sig)
        k.fired["signal_sent"] = k.fired.get("signal_sent", 0) + 1
        # a sleeping / blocked target dies right away
        target.wake = min(target.wake, max(target.now, p.now))


class FakeSelector:
    def __init__(self, kernel: SimKernel) -> None:
        self._k = kernel
        self._fds: dict[int, int] = {}

    def register(self, fd, events, data=None):
        self._fds[fd] = events

    def unregister(self, fd):
        self._fds.pop(fd, None)

    def close(self) -> None:
        self._fds.clear()

    def select(self, timeout=None):
        k = self._k
        p = k.syscall("select")
        if p is None or p.dead:
            return []
        ready = k._ready(p, self._fds)
        if not ready and (timeout is None or timeout > 0):
            deadline = p.now + (timeout if timeout is not None else 3600.0)
            k._block(p, {"kind": "select", "fds": dict(self._fds)}, deadline)
            ready = k._ready(p, self._fds)
        return [(_Key(fd), mask) for fd, mask in ready]


class _Key:
    def __init__(self, fd: int) -> None:
        self.fd = self.fileobj = fd


class FakeSelectors:
    EVENT_READ, EVENT_WRITE = EVENT_READ, EVENT_WRITE
    BaseSelector = FakeSelector

    def __init__(self, kernel: SimKernel) -> None:
        self._k = kernel

    def DefaultSelector(self):  # noqa: N802
        return FakeSelector(self._k)


class FakePopen:
    def __init__(self, kernel: SimKernel, argv) -> None:
        self._k = kernel
        k = kernel
        parent = k.syscall("fork")
        for f in k.faults:
            if f["kind"] == "spawn_fails" and not f.get("_done"):
                f["_done"] = True
                k._fire("spawn_fails")
                raise FileNotFoundError(errno.ENOENT, "No such file or directory", argv[0])
        body = k.child_target(k, list(argv))
        self._proc = k.spawn("child", body, start_time=(parent.now if parent else 0.0))
        self.pid = self._proc.pid
        self.returncode: int | None = None

    def poll(self):
        self._k.syscall("waitpid")
        if self._proc.dead:
            self._proc.reaped = True
            self.returncode = self._proc.status
        return self.returncode

    def wait(self, timeout=None):
        k = self._k
        p = k.syscall("waitpid")
        if not self._proc.dead and p is not None and not p.dead:
            deadline = p.now + (timeout if timeout is not None else 3600.0)
            k._block(p, {"kind": "wait", "pid": self._proc.pid}, deadline)
        if self._proc.dead:
            self._proc.reaped = True
            self.returncode = self._proc.status
            return self.returncode
        raise _subprocess.TimeoutExpired("ropt_plugin_optimizer", timeout)


class FakeSubprocess:
    TimeoutExpired = _subprocess.TimeoutExpired

    def __init__(self, kernel: SimKernel) -> None:
        self._k = kernel

    def Popen(self, argv, *a, **kw):  # noqa: N802
        return FakePopen(self._k, argv)


class FakeTime:
    def __init__(self, kernel: SimKernel) -> None:
        self._k = kernel

    def __getattr__(self, name):
        return getattr(_time, name)

    def sleep(self, seconds: float) -> None:
        p = self._k.me()
        if p is None:
            return _time.sleep(seconds)
        self._k.syscall("nanosleep", extra=float(seconds))


class FakeAtexit:
    def __init__(self, kernel: SimKernel) -> None:
        self._k = kernel

    def register(self, func, *a, **kw):
        self._k.atexit.append((func, a, kw))
        return func


class FakeSys:
    def __init__(self, kernel: SimKernel) -> None:
        self._k = kernel

    def __getattr__(self, name):
        return getattr(_sys, name)

    def exit(self, code=0):
        raise SystemExit(code)


# ============================================================================
def install(kernel: SimKernel):
    """Install the proxies in the namespaces of the external plug-in (every loaded module under
    ropt.plugins.optimizer); returns the undo function.

    The seam follows the import style of the code: a module object (``import os``) is replaced by its
    proxy, and a name imported from such a module (``from os import kill``, ``from subprocess import
    Popen``, ``from selectors import DefaultSelector``) by the proxy's attribute of the same name."""
    import ropt.plugins as _plugins_pkg
    from ropt.plugins.optimizer import external

    from . import backend

    fakes = {"os": (_os, FakeOS(kernel)), "selectors": (_selectors, FakeSelectors(kernel)),
             "subprocess": (_subprocess, FakeSubprocess(kernel)), "time": (_time, FakeTime(kernel)),
             "atexit": (_atexit, FakeAtexit(kernel)), "sys": (_sys, FakeSys(kernel))}
    by_identity: dict[int, Any] = {}
    for real, fake in fakes.values():
        by_identity[id(real)] = fake
        for name, member in vars(type(fake)).items():
            if name.startswith("_") or not callable(member):
                continue
            target = getattr(real, name, None)
            if target is not None and (callable(target) or isinstance(target, type)):
                by_identity[id(target)] = getattr(fake, name)
    by_identity[id(_plugins_pkg.PluginManager)] = backend.make_plugin_manager

    saved: list[tuple[Any, str, Any]] = []
    for modname, mod in list(_sys.modules.items()):
        if mod is None or not (modname == external.__name__ or modname.startswith("ropt.plugins.optimizer.")):
            continue
        for name, value in list(vars(mod).items()):
            repl = by_identity.get(id(value))
            if repl is None:
                continue
            if value is _plugins_pkg.PluginManager and mod is not external and not hasattr(mod, "_PluginOptimizer"):
                continue
            saved.append((mod, name, value))
            setattr(mod, name, repl)

    def child_target(k: SimKernel, argv: list[str]):
        def body():
            return external._PluginOptimizer(int(argv[3])).run(Path(argv[1]), Path(argv[2]))  # noqa: SLF001
        return body

    kernel.child_target = child_target

    def undo() -> None:
        for mod, name, val in saved:
            setattr(mod, name, val)

    return undo
