"""SimEvaluator: the simulated user evaluator (table-driven ensemble + fault plan).

It records every call, keeps private copies of what it returned and can behave
like the hostile-but-legal evaluators of C06 (garbage in inactive entries,
memoized result objects, read-only arrays).
"""
from __future__ import annotations

from typing import Any, Callable

import numpy as np

from ropt.enums import OptimizerExitCode
from ropt.evaluator import EvaluatorContext, EvaluatorResult
from ropt.exceptions import OptimizationAborted

from .seeds import hfloat
from .world import World


class SimEvaluatorError(Exception):
    """The marked exception of the simulated user's evaluator."""


class CallRecord:
    __slots__ = (
        "k", "variables", "realizations", "perturbations", "active_objectives",
        "active_constraints", "active", "obj", "con", "returned", "ret_obj_ref",
        "ret_con_ref", "faults", "kind", "config", "raised", "memo_hit", "ret_info_ref", "ret_info",
    )

    def kind_of(self) -> str:
        return self.kind


class SimEvaluator:
    def __init__(self, world: World, faults: list[dict] | None = None, mode: dict | None = None) -> None:
        self.world = world
        self.faults = list(faults or [])
        mode = mode or {}
        self.garbage = mode.get("garbage")  # None or int seed
        self.memoize = bool(mode.get("memoize", False))
        self.readonly = bool(mode.get("readonly", False))
        self.info = bool(mode.get("info", False))
        self.reuse = bool(mode.get("reuse", False))  # the evaluator re-uses its own output buffers
        # the evaluator works in place on the array of variables it was handed (a unit conversion, rounding of integer
        # controls): what it does to its argument must stay its own business
        self.scribble_input = bool(mode.get("scribble_input", False))
        self._buffers: dict[tuple, np.ndarray] = {}
        self.calls: list[CallRecord] = []
        self.fired: dict[str, int] = {}
        self._memo: dict[bytes, EvaluatorResult] = {}
        self.pre_hooks: list[Callable[[SimEvaluator, int], None]] = []
        self.post_hooks: list[Callable[[SimEvaluator, CallRecord], None]] = []
        self.alias_errors: list[str] = []

    # ------------------------------------------------------------------
    def _fire(self, kind: str) -> None:
        self.fired[kind] = self.fired.get(kind, 0) + 1

    def __call__(self, variables: np.ndarray, context: EvaluatorContext) -> EvaluatorResult:
        k = len(self.calls)
        for hook in self.pre_hooks:
            hook(self, k)
        # Verify nothing we returned earlier was modified behind our back:
        self.check_alias(f"before call {k}")

        rec = CallRecord()
        rec.k = k
        rec.config = context.config
        rec.variables = np.array(variables, dtype=np.float64, copy=True)
        rec.realizations = np.array(context.realizations, copy=True)
        rec.perturbations = (
            None if context.perturbations is None else np.array(context.perturbations, copy=True)
        )
        rec.active_objectives = (
            None if context.active_objectives is None else np.array(context.active_objectives, copy=True)
        )
        rec.active_constraints = (
            None if context.active_constraints is None else np.array(context.active_constraints, copy=True)
        )
        rec.active = None if context.active is None else np.array(context.active, copy=True)
        perts = rec.perturbations
        if perts is None:
            rec.kind = "f"
        elif np.any(perts < 0):
            rec.kind = "fg"
        else:
            rec.kind = "g"
        rec.faults = []
        rec.raised = None
        rec.memo_hit = False
        rec.obj = rec.con = None
        rec.returned = rec.ret_obj_ref = rec.ret_con_ref = None
        self.calls.append(rec)

        for f in self.faults:
            if f.get("eval") == k and f["kind"] == "interrupt":
                self._fire("evaluator_interrupts")
                rec.raised = "interrupt"
                raise KeyboardInterrupt(f"simulated interrupt in the evaluator at call {k}")
            if f.get("eval") == k and f["kind"] in ("raise", "abort"):
                self._fire("evaluator_" + f["kind"] + "s")
                rec.raised = f["kind"]
                if f["kind"] == "raise":
                    raise SimEvaluatorError(f"simulated evaluator failure at call {k}")
                raise OptimizationAborted(exit_code=OptimizerExitCode.USER_ABORT)

        key = None
        if self.memoize:
            key = b"|".join(
                [
                    rec.variables.tobytes(),
                    rec.realizations.tobytes(),
                    b"" if perts is None else perts.tobytes(),
                    b"" if rec.active_objectives is None else rec.active_objectives.tobytes(),
                    b"" if rec.active_constraints is None else rec.active_constraints.tobytes(),
                ]
            )
            hit = self._memo.get(key)
            if hit is not None:
                rec.memo_hit = True
                self._fire("memo_hit")
                first = next(c for c in self.calls if c.returned is hit)
                rec.obj, rec.con = first.obj, first.con
                rec.returned = hit
                rec.ret_obj_ref, rec.ret_con_ref = first.ret_obj_ref, first.ret_con_ref
                for hook in self.post_hooks:
                    hook(self, rec)
                return hit

        obj, con = self.world.values(rec.variables, rec.realizations)
        nrows = obj.shape[0]
        vec_index = None
        nreal = len(self.world.real_ids)
        if rec.kind == "f":
            vec_index = np.arange(nrows) // nreal
        # inactive entries: zeros, or finite garbage
        for arr, act, tag in ((obj, rec.active_objectives, "o"), (con, rec.active_constraints, "c")):
            if arr is None or act is None:
                continue
            for row in range(nrows):
                r = int(rec.realizations[row])
                for j in range(arr.shape[1]):
                    if not act[j, r]:
                        if self.garbage is None:
                            arr[row, j] = 0.0
                        else:
                            g = round(hfloat(-1e3, 1e3, self.garbage, "junk", k, row, tag, j), 3)
                            if self.garbage % 5 == 0 and abs(g) > 800:
                                # "arbitrary finite garbage": now and then a huge sentinel value
                                g = [1e200, -1e300, float(np.finfo(np.float64).max)][int(abs(g)) % 3]
                            arr[row, j] = g
                            self._fire("garbage_entry")
        # prescribed objective values (a user function may return anything, e.g. exactly zero)
        for f in self.faults:
            if f["kind"] != "set" or (f.get("eval") is not None and f["eval"] != k):
                continue
            for row in range(nrows):
                if f.get("vec") is not None and vec_index is not None and f["vec"] != int(vec_index[row]):
                    continue
                obj[row, :] = float(f["value"])
                self._fire("set_value_row")
        # NaN failures (only on rows of realizations that are actually evaluated)
        for f in self.faults:
            if f["kind"] != "nan":
                continue
            if f.get("eval") is not None and f["eval"] != k:
                continue
            for row in range(nrows):
                r = int(rec.realizations[row])
                p = -1 if perts is None else int(perts[row])
                if f.get("real") is not None and f["real"] != r:
                    continue
                if f.get("pert") is not None and f["pert"] != p:
                    continue
                if f.get("vec") is not None and vec_index is not None and f["vec"] != int(vec_index[row]):
                    continue
                if rec.active is not None and not rec.active[r]:
                    continue
                col = f.get("col")
                if col is None:
                    obj[row, :] = np.nan
                    if con is not None:
                        con[row, :] = np.nan
                elif col[0] == "o":
                    if col[1] < obj.shape[1]:
                        obj[row, col[1]] = np.nan
                    else:
                        continue
                else:
                    if con is not None and col[1] < con.shape[1]:
                        con[row, col[1]] = np.nan
                    else:
                        continue
                rec.faults.append((row, r, p))
                self._fire("nan_row")

        rec.obj = obj.copy()
        rec.con = None if con is None else con.copy()
        if self.reuse:
            # legal user behaviour: write the new values into the same arrays as last time
            for name, arr in (("o", obj), ("c", con)):
                if arr is None:
                    continue
                buf = self._buffers.get((name, arr.shape))
                if buf is None:
                    self._buffers[(name, arr.shape)] = arr
                else:
                    for old in self.calls[:-1]:
                        if old.ret_obj_ref is buf or old.ret_con_ref is buf:
                            old.returned = None  # its arrays are ours to overwrite
                    buf[...] = arr
                    self._fire("buffer_reused")
                    if name == "o":
                        obj = buf
                    else:
                        con = buf
        if self.readonly:
            obj.setflags(write=False)
            if con is not None:
                con.setflags(write=False)
        info: dict[str, Any] = {}
        if self.info:
            info = {"sim_id": np.arange(nrows) + 1000 * k}
            if self.reuse:
                # the evaluator keeps one info array per shape and overwrites it for every call
                buf = self._buffers.get(("info", nrows))
                if buf is None:
                    self._buffers[("info", nrows)] = info["sim_id"]
                else:
                    for old in self.calls[:-1]:
                        if getattr(old, "ret_info_ref", None) is not None and any(v is buf for v in old.ret_info_ref.values()):
                            old.ret_info_ref = None  # its info array is ours to overwrite
                    buf[...] = info["sim_id"]
                    info["sim_id"] = buf
        result = EvaluatorResult(objectives=obj, constraints=con, batch_id=k, evaluation_info=info)
        rec.returned = result
        rec.ret_info_ref = info
        rec.ret_info = {key: (val, val.copy()) for key, val in info.items()}
        rec.ret_obj_ref = obj
        rec.ret_con_ref = con
        if key is not None:
            self._memo[key] = result
        for hook in self.post_hooks:
            hook(self, rec)
        if self.scribble_input and isinstance(variables, np.ndarray) and variables.flags.writeable:
            self._fire("input_array_overwritten")
            variables *= 0.5
            variables += 7.0
        return result

    # ------------------------------------------------------------------
    def check_alias(self, when: str) -> None:
        """Compare everything this evaluator ever returned with its private copies."""
        seen: set[int] = set()
        for rec in self.calls:
            if rec.returned is None or id(rec.returned) in seen:
                continue
            seen.add(id(rec.returned))
            res = rec.returned
            if res.objectives is not rec.ret_obj_ref:
                self.alias_errors.append(f"{when}: result object of call {rec.k}: .objectives rebound")
            elif not _same(res.objectives, rec.obj):
                self.alias_errors.append(f"{when}: objectives array of call {rec.k} modified")
            if res.constraints is not rec.ret_con_ref:
                self.alias_errors.append(f"{when}: result object of call {rec.k}: .constraints rebound")
            elif rec.con is not None and not _same(res.constraints, rec.con):
                self.alias_errors.append(f"{when}: constraints array of call {rec.k} modified")
            info_ref = getattr(rec, "ret_info_ref", None)
            if info_ref is not None:
                if res.evaluation_info is not info_ref:
                    self.alias_errors.append(f"{when}: result object of call {rec.k}: .evaluation_info rebound")
                elif set(info_ref) != set(rec.ret_info):
                    self.alias_errors.append(f"{when}: evaluation_info dict of call {rec.k}: keys changed")
                else:
                    for key, (arr, pristine) in rec.ret_info.items():
                        if info_ref[key] is not arr:
                            self.alias_errors.append(f"{when}: evaluation_info dict of call {rec.k}: entry {key!r} replaced "
                                                     f"(shape {pristine.shape} -> {np.shape(info_ref[key])})")
                        elif not _same(arr, pristine):
                            self.alias_errors.append(f"{when}: evaluation_info array of call {rec.k} modified")
            if res.batch_id != rec.k and not rec.memo_hit:
                self.alias_errors.append(f"{when}: batch_id of call {rec.k} modified")


def _same(a: np.ndarray | None, b: np.ndarray | None) -> bool:
    if a is None or b is None:
        return a is b
    return a.shape == b.shape and bool(np.array_equal(a, b, equal_nan=True))
