"""Known findings: genuine defects recorded rather than repaired.  The file is committed
and never written at run time."""
from __future__ import annotations

import json
from pathlib import Path

PATH = Path(__file__).resolve().parent.parent / "known_findings.json"


def load() -> dict:
    if PATH.exists():
        return json.loads(PATH.read_text())
    return {"findings": [], "fixed": []}


def match(known: dict, prop: str, violation: dict):
    sig = violation.get("sig", {})
    for f in known.get("findings", []):
        if f["property"] != prop or f["clause"] != violation["clause"]:
            continue
        if all(sig.get(k) == v for k, v in f.get("match", {}).items()):
            return f
    return None
