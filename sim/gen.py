"""Seeded scenario generation (swarm style): every run re-draws sizes, weights, maps,
filters, estimators, samplers, transforms, scripts and fault plans from one PRNG."""
from __future__ import annotations

import random
from typing import Any

INF = float("inf")


def pick(rng: random.Random, seq):
    return seq[rng.randrange(len(seq))]


def r3(rng: random.Random, lo: float, hi: float) -> float:
    return round(rng.uniform(lo, hi), 3)


def gen_weights(rng: random.Random, n: int, zeros: bool = True) -> list[float]:
    style = rng.randrange(4)
    if style == 0:
        w = [1.0] * n
    elif style == 1:
        w = [float(rng.randint(1, 5)) for _ in range(n)]
    else:
        w = [r3(rng, 0.05, 3.0) for _ in range(n)]
    if zeros and n > 1 and rng.random() < 0.4:
        for i in rng.sample(range(n), rng.randint(1, max(1, n // 2))):
            w[i] = 0.0
        if sum(w) <= 0:
            w[rng.randrange(n)] = 1.0
    if zeros and n > 1 and rng.random() < 0.12:
        # non-zero but tiny: such an entry is *not* a zero weight
        i = rng.randrange(n)
        if sum(1 for v in w if v > 1e-6) > 1 or w[i] <= 1e-6:
            w[i] = 1e-9
    return w


def gen_bounds(rng: random.Random, n: int, style: str | None = None) -> tuple[list[float], list[float]]:
    style = style or pick(rng, ["none", "finite", "mixed", "lower", "upper"])
    lb, ub = [], []
    for _ in range(n):
        s = style
        if style == "mixed":
            s = pick(rng, ["none", "finite", "lower", "upper"])
        lo = r3(rng, -3.0, -0.5)
        hi = r3(rng, 0.5, 3.0)
        lb.append(lo if s in ("finite", "lower") else -INF)
        ub.append(hi if s in ("finite", "upper") else INF)
    return lb, ub


def gen_point_inside(rng: random.Random, lb, ub) -> list[float]:
    x = []
    for lo, hi in zip(lb, ub):
        a = lo if lo > -INF else -1.0
        b = hi if hi < INF else 1.0
        x.append(round(a + (b - a) * rng.uniform(0.15, 0.85), 3))
    return x


def gen_filters(rng: random.Random, nr: int, no: int, nc: int, kinds=None, count=None):
    """Returns (filters, objective map or None, constraint map or None)."""
    kinds = kinds or ["sort-objective", "sort-constraint", "cvar-objective", "cvar-constraint"]
    if nc == 0:
        kinds = [k for k in kinds if not k.endswith("constraint")]
    if not kinds:
        return [], None, None
    nf = count if count is not None else rng.randint(1, 2)
    filters = []
    for _ in range(nf):
        kind = pick(rng, kinds)
        if kind.startswith("sort"):
            first = rng.randrange(nr)
            last = rng.randrange(first, nr)
            opts: dict[str, Any] = {"first": first, "last": last}
        else:
            opts = {"percentile": pick(rng, [0.1, 0.25, 0.3, 0.5, 0.7, 0.75, 0.9, 1.0, round(rng.uniform(0.05, 1.0), 3)])}
        if kind.endswith("objective"):
            k = rng.randint(1, no)
            opts["sort"] = sorted(rng.sample(range(no), k))
        else:
            opts["sort"] = rng.randrange(nc)
        filters.append({"method": kind, "options": opts})

    def gen_map(n: int):
        if n == 0:
            return None
        m = [rng.choice([-1] + list(range(nf))) for _ in range(n)]
        return m

    omap = gen_map(no) if rng.random() < 0.85 else None
    cmap = gen_map(nc) if nc and rng.random() < 0.7 else None
    if omap is None and cmap is None:
        omap = gen_map(no)
    return filters, omap, cmap


def gen_estimators(rng: random.Random, no: int, nc: int, allow_stddev: bool = True):
    """Returns (estimators, objective map or None, constraint map or None)."""
    if not allow_stddev or rng.random() < 0.5:
        return None, None, None
    ests = [{"method": "mean"}, {"method": "stddev"}]
    if rng.random() < 0.3:
        ests = [{"method": "stddev"}, {"method": "default/default"}]
    omap = [rng.randrange(len(ests)) for _ in range(no)]
    cmap = [rng.randrange(len(ests)) for _ in range(nc)] if nc and rng.random() < 0.7 else None
    return ests, omap, cmap


def gen_script(rng: random.Random, npoints: int, length: int, ops=("f", "g", "fg"), batch: bool = True):
    script = []
    for _ in range(length):
        op = pick(rng, list(ops))
        if op == "f" and batch and rng.random() < 0.35:
            k = rng.randint(1, 4)
            script.append({"op": "f", "pts": [rng.randrange(-1, npoints) for _ in range(k)], "batch": True})
        else:
            script.append({"op": op, "pts": [rng.randrange(-1, npoints)]})
            # a gradient request right after a function request at the same point
            # exercises the cached-function path of the ensemble evaluator
            if op == "f" and "g" in ops and len(script) < length and rng.random() < 0.5:
                script.append({"op": "g", "pts": list(script[-1]["pts"])})
    return script


def base_scenario(rng: random.Random, prop: str, **kn) -> dict:
    """A scripted single-step scenario with most knobs drawn at random.

    Knobs (all optional): nv, nr, no, nc, npert ranges via *_max, filters (bool|None),
    stddev (bool|None), transforms (bool|None), inject (bool: use the inject sampler),
    world_kind, step ("optimizer"|"evaluator"|None), script_len, mask (bool|None),
    bounds_style, linear (bool|None).
    """
    nv = kn.get("nv") or rng.randint(1, kn.get("nv_max", 4))
    nr = kn.get("nr") or rng.randint(1, kn.get("nr_max", 5))
    no = kn.get("no") or rng.randint(1, kn.get("no_max", 3))
    nc = kn["nc"] if kn.get("nc") is not None else rng.randint(0, kn.get("nc_max", 2))
    npert = kn.get("npert") or rng.randint(1, kn.get("npert_max", 4))
    wseed = rng.getrandbits(32)
    world = {
        "wseed": wseed,
        "var_ids": list(range(nv)),
        "real_ids": list(range(nr)),
        "obj_ids": list(range(no)),
        "con_ids": list(range(nc)),
        "kind": kn.get("world_kind") or pick(rng, ["affine", "quadratic"]),
    }
    lb, ub = gen_bounds(rng, nv, kn.get("bounds_style"))
    x0 = gen_point_inside(rng, lb, ub)
    variables: dict[str, Any] = {"initial_values": x0}
    if any(v > -INF for v in lb) or any(v < INF for v in ub):
        variables["lower_bounds"] = lb
        variables["upper_bounds"] = ub
    use_mask = kn.get("mask")
    if use_mask is None:
        use_mask = rng.random() < 0.3
    if use_mask and nv > 1:
        m = [rng.random() < 0.6 for _ in range(nv)]
        if not any(m):
            m[rng.randrange(nv)] = True
        variables["mask"] = m
    cfg: dict[str, Any] = {"variables": variables}
    ow = gen_weights(rng, no, zeros=kn.get("zero_obj_weights", True))
    if no > 1 and kn.get("negative_obj_weights", True) and rng.random() < 0.12:
        # objective weights may be negative as long as their sum is positive (an objective to maximise)
        i = rng.randrange(no)
        if sum(ow) - 2 * ow[i] > 0.2 and ow[i] > 1e-6:
            ow[i] = -ow[i]
    cfg["objectives"] = {"weights": ow}
    cfg["realizations"] = {"weights": gen_weights(rng, nr, zeros=kn.get("zero_real_weights", True))}
    rms = kn.get("rms", "rand")
    if rms == "rand":
        choice = rng.random()
        if choice < 0.35:
            pass
        else:
            cfg["realizations"]["realization_min_success"] = rng.randint(0, nr + 1)
    elif rms is not None:
        cfg["realizations"]["realization_min_success"] = rms
    if nc:
        clb, cub = [], []
        for _ in range(nc):
            kind = pick(rng, ["le", "ge", "eq", "two", "le", "ge"])
            v = r3(rng, -1.0, 1.0)
            if kind == "le":
                clb.append(-INF); cub.append(v)
            elif kind == "ge":
                clb.append(v); cub.append(INF)
            elif kind == "eq":
                clb.append(v); cub.append(v)
            else:
                clb.append(v); cub.append(round(v + rng.uniform(0.1, 2.0), 3))
        cfg["nonlinear_constraints"] = {"lower_bounds": clb, "upper_bounds": cub}
    use_linear = kn.get("linear")
    if use_linear is None:
        use_linear = rng.random() < 0.25
    if use_linear:
        nl = rng.randint(1, 2)
        coef = [[r3(rng, -2, 2) for _ in range(nv)] for _ in range(nl)]
        for row in coef:
            if all(abs(c) < 1e-6 for c in row):
                row[0] = 1.0
        llb, lub = [], []
        for _ in range(nl):
            kind = pick(rng, ["le", "ge", "eq", "two"])
            v = r3(rng, -2.0, 2.0)
            if kind == "le":
                llb.append(-INF); lub.append(v)
            elif kind == "ge":
                llb.append(v); lub.append(INF)
            elif kind == "eq":
                llb.append(v); lub.append(v)
            else:
                llb.append(v); lub.append(round(v + rng.uniform(0.1, 2.0), 3))
        cfg["linear_constraints"] = {"coefficients": coef, "lower_bounds": llb, "upper_bounds": lub}
    # estimators
    use_sd = kn.get("stddev")
    ests, eomap, ecmap = gen_estimators(rng, no, nc, allow_stddev=(use_sd is not False))
    if use_sd is True and ests is None:
        ests = [{"method": "mean"}, {"method": "stddev"}]
        eomap = [rng.randrange(2) for _ in range(no)]
        ecmap = [rng.randrange(2) for _ in range(nc)] if nc else None
    if ests is not None:
        cfg["function_estimators"] = ests
        cfg["objectives"]["function_estimators"] = eomap
        if ecmap is not None:
            cfg["nonlinear_constraints"]["function_estimators"] = ecmap
    # filters
    use_f = kn.get("filters")
    if use_f is None:
        use_f = rng.random() < 0.5
    if use_f:
        filters, fomap, fcmap = gen_filters(rng, nr, no, nc, kinds=kn.get("filter_kinds"), count=kn.get("filter_count"))
        if filters:
            cfg["realization_filters"] = filters
            if fomap is not None:
                cfg["objectives"]["realization_filters"] = fomap
            if fcmap is not None:
                cfg["nonlinear_constraints"]["realization_filters"] = fcmap
    # gradient
    grad: dict[str, Any] = {"number_of_perturbations": npert, "seed": rng.randint(1, 10**6)}
    grad["perturbation_magnitudes"] = pick(rng, [0.01, 0.05, 0.1, [r3(rng, 0.01, 0.2) for _ in range(nv)]])
    pms = kn.get("pms", "rand")
    if pms == "rand":
        if rng.random() < 0.6:
            grad["perturbation_min_success"] = rng.randint(1, npert + 1)
    elif pms is not None:
        grad["perturbation_min_success"] = pms
    merge = kn.get("merge")
    if merge is None:
        merge = rng.random() < 0.2
    has_sd = ests is not None and any(e["method"].endswith("stddev") for e in ests)
    if merge and not has_sd:
        grad["merge_realizations"] = True
    if kn.get("boundary", True):
        grad["boundary_types"] = pick(rng, [1, 2, 3, [rng.randint(1, 3) for _ in range(nv)]])
    cfg["gradient"] = grad
    if kn.get("inject", True) and rng.random() < kn.get("inject_p", 0.7):
        cfg["samplers"] = [{"method": "sim/inject",
                            "options": {"design": "hash", "sseed": rng.getrandbits(24), "amp": 1.0},
                            "shared": rng.random() < 0.4}]
    else:
        cfg["samplers"] = [{"method": pick(rng, ["norm", "uniform", "truncnorm", "sobol", "halton", "lhs"]),
                            "shared": rng.random() < 0.4}]
    # transforms
    tr = None
    use_t = kn.get("transforms")
    if use_t is None:
        use_t = rng.random() < 0.35
    if use_t:
        tr = {}
        if rng.random() < 0.7:
            tr["var"] = {"scales": [r3(rng, 0.25, 4.0) for _ in range(nv)] if rng.random() < 0.8 else None,
                         "offsets": [r3(rng, -1.0, 1.0) for _ in range(nv)] if rng.random() < 0.7 else None}
            if tr["var"]["scales"] is None and tr["var"]["offsets"] is None:
                tr["var"]["scales"] = [2.0] * nv
        if rng.random() < 0.6:
            tr["obj"] = {"scales": [r3(rng, 0.25, 4.0) for _ in range(no)], "flip": False}
        if nc and rng.random() < 0.6:
            tr["con"] = {"scales": [r3(rng, 0.25, 4.0) for _ in range(nc)]}
        if not tr:
            tr = None
    # points (optimizer-domain, full length) and script
    npoints = rng.randint(1, 3)
    points = []
    for _ in range(npoints):
        points.append([round(v + rng.uniform(-0.3, 0.3), 3) for v in x0])
    length = kn.get("script_len") or rng.randint(1, 5)
    step = kn.get("step") or pick(rng, ["optimizer", "optimizer", "evaluator"])
    script = gen_script(rng, npoints, length, ops=kn.get("ops", ("f", "g", "fg")))
    cfg["optimizer"] = {"method": "sim/scripted",
                        "options": {"script": script, "points": points,
                                    "allow_nan": rng.random() < 0.3}}
    scn = {
        "prop": prop,
        "world": world,
        "transforms": tr,
        "configs": [cfg],
        "plan": {"steps": [{"kind": step, "cfg": 0}], "recorders": ["a"], "trackers": []},
        "faults": [],
        "mode": {},
    }
    if step == "evaluator":
        if rng.random() < 0.5:
            k = rng.randint(1, 3)
            scn["plan"]["steps"][0]["variables"] = [points[rng.randrange(npoints)] for _ in range(k)]
    for smp in cfg.get("samplers", []):
        if smp.get("method") == "sim/inject" and smp.get("shared") and rng.random() < 0.5:
            smp.setdefault("options", {})["contract_shape"] = True
    # index maps that say the same for every function are sometimes written as a size-one array or a scalar
    # (the configuration's broadcasting convention)
    for sect in ("objectives", "nonlinear_constraints"):
        for fld in ("function_estimators", "realization_filters"):
            m = (cfg.get(sect) or {}).get(fld)
            if isinstance(m, list) and len(m) > 1 and len(set(m)) == 1 and rng.random() < kn.get("short_map_p", 0.5):
                cfg[sect][fld] = rng.choice([[m[0]], m[0]])
                scn["short_index_map"] = True
    if rng.random() < kn.get("validated_object_p", 0.15):
        # the user validates the configuration and hands the EnOptConfig object to the steps (which validate again)
        scn["validated_config_object"] = True
    return scn


def add_nan_faults(rng: random.Random, scn: dict, rate: float = 0.5, max_faults: int = 4) -> None:
    """NaN failures at seeded (evaluation, realization, perturbation, column)."""
    if rng.random() > rate:
        return
    cfg = scn["configs"][0]
    nr = len(scn["world"]["real_ids"])
    no = len(scn["world"]["obj_ids"])
    nc = len(scn["world"]["con_ids"])
    npert = cfg["gradient"]["number_of_perturbations"]
    for _ in range(rng.randint(1, max_faults)):
        f: dict[str, Any] = {"kind": "nan"}
        f["eval"] = None if rng.random() < 0.4 else rng.randrange(0, 5)
        f["real"] = rng.randrange(nr)
        f["pert"] = pick(rng, [None, -1] + list(range(npert)))
        if rng.random() < 0.3:
            f["vec"] = rng.randrange(0, 3)
        c = rng.random()
        if c < 0.4:
            f["col"] = None
        elif c < 0.7 or nc == 0:
            f["col"] = ["o", rng.randrange(no)]
        else:
            f["col"] = ["c", rng.randrange(nc)]
        scn["faults"].append(f)


def add_ties(rng: random.Random, scn: dict, cfg_index: int = 0) -> bool:
    """Give two or three realizations bit-identical values of every function one of the filters ranks by (exact ties
    in its sort key), leaving their other functions different.  Returns whether ties were added."""
    cfg = scn["configs"][cfg_index]
    filters = cfg.get("realization_filters") or []
    world = scn["world"]
    rids = list(world["real_ids"])
    if not filters or len(rids) < 2 or world.get("identical"):
        return False
    # (filters with several sort keys included: the library sums the weighted keys realization by realization, so
    # bit-identical keys give bit-identical sort values - with a matrix product they did not, fix 4a1e1b5)
    flt = rng.choice(filters)
    if flt["method"].endswith("objective"):
        keys = [("o", int(k)) for k in flt["options"]["sort"]]
    else:
        keys = [("c", int(flt["options"]["sort"]))]
    group = rng.sample(rids, min(len(rids), rng.choice([2, 2, 3])))
    src = min(group)
    ties = world.setdefault("ties", [])
    for tag, k in keys:
        ids = world["obj_ids"] if tag == "o" else world["con_ids"]
        if k >= len(ids):
            return False
        for dst in group:
            if dst != src:
                ties.append([tag, ids[k], src, dst])
    scn["ties"] = True
    return True
