"""Generic scenario reductions for the shrinker: knob simplification and dimension
reduction.  Every candidate is re-executed; invalid candidates are simply rejected."""
from __future__ import annotations

import copy
from typing import Iterator


def _pop_list(container: dict, key: str) -> None:
    v = container.get(key)
    if isinstance(v, list) and v:
        v.pop()


def generic_reductions(scn: dict) -> Iterator[dict]:
    cfgs = scn.get("configs", [])
    # ---- knob simplification ------------------------------------------------
    if scn.get("transforms"):
        c = copy.deepcopy(scn)
        c["transforms"] = None
        yield c
        for part in list(scn["transforms"]):
            if scn["transforms"].get(part):
                c = copy.deepcopy(scn)
                c["transforms"][part] = None
                yield c
    if scn.get("mode"):
        for k in list(scn["mode"]):
            c = copy.deepcopy(scn)
            del c["mode"][k]
            yield c
    for ci, cfg in enumerate(cfgs):
        if cfg.get("realization_filters"):
            c = copy.deepcopy(scn)
            cc = c["configs"][ci]
            cc.pop("realization_filters", None)
            cc["objectives"].pop("realization_filters", None)
            if cc.get("nonlinear_constraints"):
                cc["nonlinear_constraints"].pop("realization_filters", None)
            yield c
        if cfg.get("function_estimators"):
            c = copy.deepcopy(scn)
            cc = c["configs"][ci]
            cc.pop("function_estimators", None)
            cc["objectives"].pop("function_estimators", None)
            if cc.get("nonlinear_constraints"):
                cc["nonlinear_constraints"].pop("function_estimators", None)
            yield c
        for key in ("linear_constraints",):
            if cfg.get(key):
                c = copy.deepcopy(scn)
                c["configs"][ci].pop(key)
                yield c
        if cfg["variables"].get("mask") is not None:
            c = copy.deepcopy(scn)
            c["configs"][ci]["variables"].pop("mask")
            yield c
        if cfg.get("nonlinear_constraints") and not scn["world"].get("keep_constraints"):
            c = copy.deepcopy(scn)
            cc = c["configs"][ci]
            if len(cfgs) == 1:
                cc.pop("nonlinear_constraints")
                c["world"]["con_ids"] = []
                if c.get("transforms"):
                    c["transforms"]["con"] = None
                cc["realization_filters"] = [f for f in cc.get("realization_filters", []) if not f["method"].endswith("constraint")]
                if not cc["realization_filters"]:
                    cc.pop("realization_filters")
                    cc["objectives"].pop("realization_filters", None)
                c["faults"] = [f for f in c.get("faults", []) if not (f.get("col") and f["col"][0] == "c")]
                yield c
        g = cfg.get("gradient", {})
        for key, val in (("merge_realizations", False), ("boundary_types", 1), ("perturbation_min_success", None)):
            if key in g and g[key] != val:
                c = copy.deepcopy(scn)
                if val is None:
                    c["configs"][ci]["gradient"].pop(key)
                else:
                    c["configs"][ci]["gradient"][key] = val
                yield c
        for sect in ("realizations", "objectives"):
            w = cfg.get(sect, {}).get("weights")
            if isinstance(w, list) and any(x != 1.0 for x in w):
                c = copy.deepcopy(scn)
                c["configs"][ci][sect]["weights"] = [1.0] * len(w)
                yield c
        if "realization_min_success" in cfg.get("realizations", {}):
            c = copy.deepcopy(scn)
            c["configs"][ci]["realizations"].pop("realization_min_success")
            yield c
        opt = cfg.get("optimizer", {})
        for key in ("speculative", "split_evaluations", "parallel", "max_functions"):
            if opt.get(key):
                c = copy.deepcopy(scn)
                c["configs"][ci]["optimizer"].pop(key)
                yield c
    if scn["world"].get("kind") == "quadratic":
        c = copy.deepcopy(scn)
        c["world"]["kind"] = "affine"
        yield c
    # ---- dimension reduction (single-config scenarios only) ----------------------
    if len(cfgs) == 1:
        cfg = cfgs[0]
        w = scn["world"]
        if len(w["real_ids"]) > 1:
            c = copy.deepcopy(scn)
            last = len(w["real_ids"]) - 1
            c["world"]["real_ids"].pop()
            _pop_list(c["configs"][0].get("realizations", {}), "weights")
            c["faults"] = [f for f in c.get("faults", []) if f.get("real") != last]
            for f in c["configs"][0].get("realization_filters", []):
                o = f["options"]
                if "last" in o:
                    o["last"] = min(o["last"], last - 1)
                    o["first"] = min(o["first"], o["last"])
            yield c
        if len(w["obj_ids"]) > 1:
            c = copy.deepcopy(scn)
            last = len(w["obj_ids"]) - 1
            c["world"]["obj_ids"].pop()
            ob = c["configs"][0]["objectives"]
            for k in ("weights", "function_estimators", "realization_filters"):
                _pop_list(ob, k)
            if c.get("transforms") and c["transforms"].get("obj"):
                _pop_list(c["transforms"]["obj"], "scales")
            ok = True
            for f in c["configs"][0].get("realization_filters", []):
                if f["method"].endswith("objective"):
                    f["options"]["sort"] = [s for s in f["options"]["sort"] if s != last]
                    ok = ok and bool(f["options"]["sort"])
            c["faults"] = [f for f in c.get("faults", []) if not (f.get("col") and f["col"] == ["o", last])]
            if ok:
                yield c
        if len(w.get("con_ids", [])) > 1:
            c = copy.deepcopy(scn)
            last = len(w["con_ids"]) - 1
            c["world"]["con_ids"].pop()
            nl = c["configs"][0]["nonlinear_constraints"]
            for k in ("lower_bounds", "upper_bounds", "function_estimators", "realization_filters"):
                _pop_list(nl, k)
            if c.get("transforms") and c["transforms"].get("con"):
                _pop_list(c["transforms"]["con"], "scales")
            ok = all(not (f["method"].endswith("constraint") and f["options"]["sort"] == last)
                     for f in c["configs"][0].get("realization_filters", []))
            c["faults"] = [f for f in c.get("faults", []) if not (f.get("col") and f["col"] == ["c", last])]
            if ok:
                yield c
        if len(w["var_ids"]) > 1:
            c = copy.deepcopy(scn)
            c["world"]["var_ids"].pop()
            cc = c["configs"][0]
            for k in ("initial_values", "lower_bounds", "upper_bounds", "mask", "types"):
                _pop_list(cc["variables"], k)
            for k in ("perturbation_magnitudes", "boundary_types", "perturbation_types", "samplers"):
                _pop_list(cc.get("gradient", {}), k)
            if c.get("transforms") and c["transforms"].get("var"):
                for k in ("scales", "offsets"):
                    _pop_list(c["transforms"]["var"], k)
            opts = cc.get("optimizer", {}).get("options")
            if isinstance(opts, dict):
                for p in opts.get("points", []):
                    if isinstance(p, list) and p:
                        p.pop()
            if cc.get("linear_constraints"):
                for row in cc["linear_constraints"]["coefficients"]:
                    row.pop()
            for st in c["plan"]["steps"]:
                v = st.get("variables")
                if isinstance(v, list) and v:
                    if isinstance(v[0], list):
                        for row in v:
                            row.pop()
                    else:
                        v.pop()
            m = cc["variables"].get("mask")
            if m is None or any(m):
                yield c
        g = cfg.get("gradient", {})
        if g.get("number_of_perturbations", 1) > 1:
            c = copy.deepcopy(scn)
            last = g["number_of_perturbations"] - 1
            c["configs"][0]["gradient"]["number_of_perturbations"] = last
            c["faults"] = [f for f in c.get("faults", []) if f.get("pert") != last]
            yield c
