"""Transforms supplied by the simulated user (the tree only ships abstract bases for
objective / constraint transforms; VariableScaler is the real ropt class)."""
from __future__ import annotations

import numpy as np

from ropt.transforms import OptModelTransforms, VariableScaler
from ropt.transforms.base import NonLinearConstraintTransform, ObjectiveTransform


class ObjectiveScaler(ObjectiveTransform):
    """optimizer = sign * user / scale (sign=-1: maximisation turned into minimisation)."""

    def __init__(self, scales, flip: bool = False) -> None:
        self._scales = np.asarray(scales, dtype=np.float64)
        self._sign = -1.0 if flip else 1.0

    def to_optimizer(self, objectives):
        return self._sign * objectives / self._scales

    def from_optimizer(self, objectives):
        return self._sign * objectives * self._scales

    def weighted_objective_from_optimizer(self, weighted_objective):
        if np.all(self._scales == self._scales[0]):
            return self._sign * weighted_objective * self._scales[0]
        return self._sign * weighted_objective


class ConstraintScaler(NonLinearConstraintTransform):
    def __init__(self, scales) -> None:
        self._scales = np.asarray(scales, dtype=np.float64)

    def bounds_to_optimizer(self, lower_bounds, upper_bounds):
        return lower_bounds / self._scales, upper_bounds / self._scales

    def to_optimizer(self, constraints):
        return constraints / self._scales

    def from_optimizer(self, constraints):
        return constraints * self._scales

    def nonlinear_constraint_diffs_from_optimizer(self, lower_diffs, upper_diffs):
        return lower_diffs * self._scales, upper_diffs * self._scales


def build_transforms(spec: dict | None) -> OptModelTransforms | None:
    if not spec:
        return None
    var = obj = con = None
    if spec.get("var"):
        s = spec["var"].get("scales")
        o = spec["var"].get("offsets")
        var = VariableScaler(
            None if s is None else np.asarray(s, dtype=np.float64),
            None if o is None else np.asarray(o, dtype=np.float64),
        )
    if spec.get("obj"):
        obj = ObjectiveScaler(spec["obj"]["scales"], bool(spec["obj"].get("flip", False)))
    if spec.get("con"):
        con = ConstraintScaler(spec["con"]["scales"])
    if var is None and obj is None and con is None:
        return None
    return OptModelTransforms(variables=var, objectives=obj, nonlinear_constraints=con)


class TransformModel:
    """Reference arithmetic for the same transforms, written independently (numpy only)."""

    def __init__(self, spec: dict | None, n_var: int, n_obj: int, n_con: int) -> None:
        spec = spec or {}
        v = spec.get("var") or {}
        self.vs = np.ones(n_var) if v.get("scales") is None else np.broadcast_to(np.asarray(v["scales"], float), (n_var,))
        self.vo = np.zeros(n_var) if v.get("offsets") is None else np.broadcast_to(np.asarray(v["offsets"], float), (n_var,))
        o = spec.get("obj") or {}
        self.os = np.ones(n_obj) if not o else np.asarray(o["scales"], float)
        self.osign = -1.0 if o and o.get("flip") else 1.0
        c = spec.get("con") or {}
        self.cs = np.ones(n_con) if not c else np.asarray(c["scales"], float)
        self.has_var = bool(spec.get("var"))
        self.has_obj = bool(spec.get("obj"))
        self.has_con = bool(spec.get("con"))

    def x_to_opt(self, x):
        return (np.asarray(x, float) - self.vo) / self.vs

    def x_to_user(self, x):
        return np.asarray(x, float) * self.vs + self.vo

    def obj_to_opt(self, o):
        return self.osign * np.asarray(o, float) / self.os

    def con_to_opt(self, c):
        return np.asarray(c, float) / self.cs
