"""Executable reference model, written from the property statements (numpy only).

It takes the *raw* configuration dictionary (not the validated object) and the values
the simulated evaluator actually returned.
"""
from __future__ import annotations

from fractions import Fraction

import numpy as np

RTOL = 1e-9
ATOL = 1e-12


def close(a, b, rtol=RTOL, atol=ATOL) -> bool:
    a = np.asarray(a, dtype=float)
    b = np.asarray(b, dtype=float)
    if a.shape != b.shape:
        return False
    return bool(np.allclose(a, b, rtol=rtol, atol=atol, equal_nan=True))


def norm(w) -> np.ndarray:
    w = np.asarray(w, dtype=float)
    return w / w.sum()


# ---------------------------------------------------------------------------
# raw-config helpers
def cfg_counts(cfg: dict) -> dict:
    nv = len(np.atleast_1d(cfg["variables"]["initial_values"]))
    nr = len(np.atleast_1d(cfg.get("realizations", {}).get("weights", [1.0])))
    no = len(np.atleast_1d(cfg.get("objectives", {}).get("weights", [1.0])))
    nl = cfg.get("nonlinear_constraints")
    nc = 0 if nl is None else max(len(np.atleast_1d(nl["lower_bounds"])), len(np.atleast_1d(nl["upper_bounds"])))
    npert = cfg.get("gradient", {}).get("number_of_perturbations", 5)
    return {"nv": nv, "nr": nr, "no": no, "nc": nc, "np": npert}


def realization_weights(cfg: dict) -> np.ndarray:
    n = cfg_counts(cfg)["nr"]
    w = np.atleast_1d(np.asarray(cfg.get("realizations", {}).get("weights", [1.0] * n), dtype=float))
    return norm(np.broadcast_to(w, (n,)))


def objective_weights(cfg: dict) -> np.ndarray:
    n = cfg_counts(cfg)["no"]
    w = np.atleast_1d(np.asarray(cfg.get("objectives", {}).get("weights", [1.0] * n), dtype=float))
    return norm(np.broadcast_to(w, (n,)))


def realization_min_success(cfg: dict) -> int:
    n = cfg_counts(cfg)["nr"]
    m = cfg.get("realizations", {}).get("realization_min_success")
    if m is None or m > n:
        return n
    return int(m)


def perturbation_min_success(cfg: dict) -> int:
    n = cfg_counts(cfg)["np"]
    m = cfg.get("gradient", {}).get("perturbation_min_success")
    if m is None or m > n:
        return n
    return int(m)


def mask_of(cfg: dict) -> np.ndarray:
    nv = cfg_counts(cfg)["nv"]
    m = cfg["variables"].get("mask")
    if m is None:
        return np.ones(nv, dtype=bool)
    return np.broadcast_to(np.atleast_1d(np.asarray(m, dtype=bool)), (nv,)).copy()


def _bcast_index(idx, j: int):
    """Index maps follow the configuration's broadcasting convention: a scalar or size-one map applies to all."""
    arr = np.atleast_1d(idx)
    return arr[0] if arr.size == 1 else arr[j]


def estimator_of(cfg: dict, kind: str, j: int) -> str:
    """'mean' or 'stddev' for objective/constraint j."""
    sect = cfg.get("objectives", {}) if kind == "o" else (cfg.get("nonlinear_constraints") or {})
    idx = sect.get("function_estimators")
    ests = cfg.get("function_estimators") or [{"method": "default/default"}]
    e = 0 if idx is None else int(_bcast_index(idx, j))
    method = ests[e].get("method", "default/default").lower().rpartition("/")[2]
    return "mean" if method in ("default", "mean") else method


def filter_of(cfg: dict, kind: str, j: int) -> int:
    """Filter index mapped to objective/constraint j, or -1."""
    sect = cfg.get("objectives", {}) if kind == "o" else (cfg.get("nonlinear_constraints") or {})
    idx = sect.get("realization_filters")
    if idx is None:
        return -1
    f = int(_bcast_index(idx, j))
    if f < 0 or f >= len(cfg.get("realization_filters") or []):
        return -1
    return f


# ---------------------------------------------------------------------------
def row_failed(obj_row, con_row) -> bool:
    bad = bool(np.any(np.isnan(obj_row)))
    if con_row is not None:
        bad = bad or bool(np.any(np.isnan(con_row)))
    return bad


def estimate(kind: str, y: np.ndarray, w: np.ndarray):
    """Weighted mean or sample standard deviation (N/(N-1) over positive weights).

    ``w`` are the weights in force with failed realizations already zeroed; they are
    renormalised here.  Returns None when the estimator is undefined."""
    w = np.asarray(w, dtype=float)
    if w.sum() <= 0:
        return None
    w = w / w.sum()
    y = np.where(w > 0, np.nan_to_num(np.asarray(y, dtype=float)), 0.0)
    mean = float(np.dot(y, w))
    if kind == "mean":
        return mean
    npos = int(np.count_nonzero(w > 0))
    if npos < 2:
        return None
    corr = npos / (npos - 1)
    return float(np.sqrt(corr * np.dot((y - mean) ** 2, w)))


def estimate_gradient(kind: str, y: np.ndarray, g: np.ndarray, w: np.ndarray):
    """Chain-rule gradient of the estimator; g is (realizations, variables)."""
    w = np.asarray(w, dtype=float)
    if w.sum() <= 0:
        return None
    w = w / w.sum()
    g = np.where((w > 0)[:, None], np.nan_to_num(np.asarray(g, dtype=float)), 0.0)
    y = np.where(w > 0, np.nan_to_num(np.asarray(y, dtype=float)), 0.0)
    mg = w @ g
    if kind == "mean":
        return mg
    npos = int(np.count_nonzero(w > 0))
    if npos < 2:
        return None
    corr = npos / (npos - 1)
    mean = float(np.dot(y, w))
    sd = float(np.sqrt(corr * np.dot((y - mean) ** 2, w)))
    if sd < 1e-7:
        # the derivative of a standard deviation is undefined at zero; the library reports a zero gradient when the
        # standard deviation is within numpy's default closeness of zero (1e-8): no comparison in that neighbourhood
        return "degenerate"
    return (corr / sd) * ((w * (y - mean)) @ g)


# ---------------------------------------------------------------------------
def cvar_weights_exact(badness, failed, p: float):
    """Exact-rational CVaR weights: mass 1/n on the worst successful realizations in
    order of badness until mass p is reached, the last one fractionally.

    Returns (weights as Fractions, order) or None when nothing succeeded."""
    badness = np.asarray(badness, dtype=float)
    idx = [i for i in range(badness.size) if not failed[i]]
    n = len(idx)
    if n == 0:
        return None
    order = sorted(idx, key=lambda i: -badness[i])
    P = Fraction(p)
    pm = Fraction(1, n)
    w = [Fraction(0)] * badness.size
    mass = Fraction(0)
    for i in order:
        if mass >= P:
            break
        take = min(pm, P - mass)
        w[i] = take
        mass += take
    return w, order


def sort_window_weights(values, failed, first: int, last: int, cw):
    values = np.asarray(values, dtype=float)
    idx = [i for i in range(values.size) if not failed[i]]
    order = sorted(idx, key=lambda i: values[i])
    w = np.zeros(values.size)
    for rank, i in enumerate(order):
        if first <= rank <= last:
            w[i] = cw[i]
    return w


# ---------------------------------------------------------------------------
def lstsq_ok(D: np.ndarray, floor: float = 0.0) -> bool:
    """Conditioning predicate of C02: full column rank and sigma_min^2 >= 1% of sum sigma^2."""
    if D.ndim != 2 or D.shape[0] < D.shape[1] or D.shape[1] == 0:
        return False
    s = np.linalg.svd(D, compute_uv=False)
    if s.size < D.shape[1]:
        return False
    if s.min() < floor:
        # differences that are rounding noise of the variables (a perturbation clipped onto the bound the point already
        # sits on, up to the last bit): numerically no perturbation at all, whatever the ratio of the singular values
        return False
    s2 = s**2
    tot = s2.sum()
    if tot <= 0:
        return False
    return bool(s2.min() >= 0.01 * tot)


def apply_boundary(x, lb, ub, btype: int):
    """Reference for one scalar. Returns (value, exact) - exact False means only
    containment in [lb, ub] is promised (mirror overshoot of more than one width)."""
    if btype == 1:  # NONE
        return x, True
    if btype == 2:  # TRUNCATE_BOTH
        return min(max(x, lb), ub), True
    # MIRROR_BOTH: reflected at the violated bound, again at the other bound if the image violates that
    # one, ... ("repeat the mirroring a few times"): exact for up to 4 reflections, beyond that only
    # containment is promised
    y = x
    for _ in range(4):
        if y < lb:
            y = 2 * lb - y
        elif y > ub:
            y = 2 * ub - y
        else:
            return y, True
    if lb <= y <= ub:
        return y, True
    return None, False


def violation(value, lb, ub):
    value = np.asarray(value, float)
    return np.maximum(np.maximum(np.asarray(lb, float) - value, value - np.asarray(ub, float)), 0.0)


# ---------------------------------------------------------------------------
# normalized constraints reference (C07/C08)
def normalized_spec(lower, upper):
    """Entries (index, type, rhs, sign) of the constraints an algorithm needs in the form
    sign*(c_index - rhs) >= 0 ('ineq') or == 0 ('eq'), in the order: per constraint, equality,
    else lower side then upper side."""
    out = []
    for i, (lo, hi) in enumerate(zip(lower, upper)):
        if abs(hi - lo) < 1e-15:
            out.append((i, "eq", float(lo), 1.0))
        else:
            if np.isfinite(lo):
                out.append((i, "ineq", float(lo), 1.0))
            if np.isfinite(hi):
                out.append((i, "ineq", float(hi), -1.0))
    return out


def masked_linear(cfg: dict):
    """Linear constraints restated on the free variables: rows touching fixed variables are
    not retained (documented behaviour); returns (A_free, lower, upper, kept_row_indices) or None."""
    lin = cfg.get("linear_constraints")
    if lin is None:
        return None
    A = np.atleast_2d(np.asarray(lin["coefficients"], dtype=float))
    n = A.shape[0]
    lo = np.broadcast_to(np.atleast_1d(np.asarray(lin["lower_bounds"], dtype=float)), (n,))
    hi = np.broadcast_to(np.atleast_1d(np.asarray(lin["upper_bounds"], dtype=float)), (n,))
    m = mask_of(cfg)
    keep = np.all(A[:, ~m] == 0, axis=1) if (~m).any() else np.ones(n, dtype=bool)
    return A[keep][:, m], lo[keep], hi[keep], np.where(keep)[0]
