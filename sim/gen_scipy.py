"""Scenario family for the SciPy plug-in driven by FakeSciPy (C07, C08)."""
from __future__ import annotations

import random
from typing import Any

from . import gen

INF = float("inf")
GRADIENT = ["slsqp", "l-bfgs-b", "tnc", "bfgs", "cg", "newton-cg"]
NOGRAD = ["cobyla", "nelder-mead", "powell"]
DE = "differential_evolution"
BOUNDS_OK = {"nelder-mead", "powell", "l-bfgs-b", "tnc", "slsqp", DE}
LIN_EQ = {"slsqp", DE}
LIN_INEQ = {"cobyla", "slsqp", DE}
NL_EQ = {"slsqp", DE}
NL_INEQ = {"cobyla", "slsqp", DE}


def gen_kind_vector(rng: random.Random, n: int, allow_eq: bool, allow_ineq: bool, force=None):
    """Returns (lower, upper, kinds) for n constraints."""
    lo, hi, kinds = [], [], []
    for i in range(n):
        choices = []
        if allow_ineq:
            choices += ["le", "ge", "two", "none"]
        if allow_eq:
            choices += ["eq"]
        kind = force[i] if force else rng.choice(choices)
        v = round(rng.uniform(-1.0, 1.0), 3)
        if kind == "le":
            lo.append(-INF); hi.append(v)
        elif kind == "ge":
            lo.append(v); hi.append(INF)
        elif kind == "eq":
            lo.append(v); hi.append(v)
        elif kind == "two":
            if rng.random() < 0.25:
                # a band that is narrow relative to the size of its bounds (e.g. [2000, 2000.01])
                big = round(rng.choice([-1, 1]) * rng.uniform(500.0, 5000.0), 1)
                lo.append(big); hi.append(big + round(abs(big) * rng.uniform(2e-6, 8e-6), 6))
            else:
                lo.append(v); hi.append(round(v + rng.uniform(0.2, 2.0), 3))
        else:
            lo.append(-INF); hi.append(INF)
        kinds.append(kind)
    return lo, hi, kinds


def scipy_scenario(rng: random.Random, prop: str, *, method: str | None = None, unsupported: bool = False,
                   kinds_nl=None, kinds_lin=None, world_kind: str = "quadratic") -> dict:
    method = method or rng.choice(GRADIENT + NOGRAD + [DE, "slsqp", "slsqp", "cobyla", DE])
    nv = rng.randint(1, 3)
    no = rng.randint(1, 2)
    use_mask = nv > 1 and rng.random() < 0.35
    mask = None
    if use_mask:
        mask = [rng.random() < 0.6 for _ in range(nv)]
        if not any(mask):
            mask[rng.randrange(nv)] = True
        if all(mask):
            mask[rng.randrange(nv)] = False
    nfree = nv if mask is None else sum(mask)
    # bounds
    want_bounds = method == DE or (method in BOUNDS_OK and rng.random() < 0.6)
    bad_bounds = False
    if unsupported and method not in BOUNDS_OK and rng.random() < 0.4:
        want_bounds = True
        bad_bounds = True
    if unsupported and method == DE and rng.random() < 0.3:
        want_bounds = False
        bad_bounds = True
    if want_bounds:
        style = "finite" if method == DE else rng.choice(["finite", "mixed", "lower", "upper"])
        lb, ub = [], []
        for _ in range(nv):
            s = style if style != "mixed" else rng.choice(["finite", "lower", "upper", "none"])
            lb.append(round(rng.uniform(-4.0, -2.5), 3) if s in ("finite", "lower") else -INF)
            ub.append(round(rng.uniform(2.5, 4.0), 3) if s in ("finite", "upper") else INF)
        if all(v == -INF for v in lb) and all(v == INF for v in ub):
            lb[0] = -3.0
    else:
        lb, ub = [-INF] * nv, [INF] * nv
    x0 = [round(rng.uniform(-1.0, 1.0), 3) for _ in range(nv)]
    variables: dict[str, Any] = {"initial_values": x0}
    if want_bounds:
        variables["lower_bounds"] = lb
        variables["upper_bounds"] = ub
    if mask is not None:
        variables["mask"] = mask
    if rng.random() < (0.5 if method == DE else 0.15):
        # integer variables (VariableType.INTEGER = 2): part of the problem for methods that support integrality
        variables["types"] = rng.choice([2, [rng.choice([1, 2]) for _ in range(nv)], [rng.choice([1, 2]) for _ in range(nv)]])
    cfg: dict[str, Any] = {"variables": variables, "objectives": {"weights": gen.gen_weights(rng, no, zeros=False)},
                           "realizations": {"weights": [1.0]}}
    # non-linear constraints
    nc = 0
    bad_nl = bad_lin = False
    if method in NL_INEQ or (unsupported and rng.random() < 0.5):
        nc = rng.randint(0, 3) if kinds_nl is None else len(kinds_nl)
        if unsupported and method not in NL_INEQ:
            nc = max(nc, 1)
    if nc:
        if method in NL_EQ:
            lo, hi, kn = gen_kind_vector(rng, nc, True, True, kinds_nl)
        elif method in NL_INEQ:
            if unsupported and rng.random() < 0.6:
                lo, hi, kn = gen_kind_vector(rng, nc, True, False)  # all equalities: not supported by cobyla
                bad_nl = True
            else:
                lo, hi, kn = gen_kind_vector(rng, nc, False, True, kinds_nl)
                if all(k == "none" for k in kn) is False and all(abs(a - b) < 1e-15 for a, b in zip(lo, hi)):
                    bad_nl = True
        else:
            lo, hi, kn = gen_kind_vector(rng, nc, True, True)
            bad_nl = True
        cfg["nonlinear_constraints"] = {"lower_bounds": lo, "upper_bounds": hi}
    # linear constraints
    nl = 0
    if method in LIN_INEQ or (unsupported and rng.random() < 0.4):
        nl = rng.randint(0, 3) if kinds_lin is None else len(kinds_lin)
        if unsupported and method not in LIN_INEQ:
            nl = max(nl, 1)
    if nl:
        coef = []
        for _ in range(nl):
            row = [round(rng.uniform(-2, 2), 3) for _ in range(nv)]
            c_kind = rng.random()
            if mask is not None and c_kind < 0.55:
                # rows that do not touch fixed variables are retained
                row = [c if m else 0.0 for c, m in zip(row, mask)]
            elif mask is not None and c_kind < 0.7:
                # rows that touch a fixed variable ever so slightly (still not "zero on the fixed variables")
                row = [c if m else (rng.choice([-1, 1]) * rng.choice([1e-9, 1e-10, 1e-12]) if rng.random() < 0.7 else 0.0)
                       for c, m in zip(row, mask)]
            if all(abs(c) < 1e-9 for c in row):
                row[[i for i in range(nv) if mask is None or mask[i]][0]] = 1.0
            coef.append(row)
        if method in LIN_EQ:
            lo, hi, kn = gen_kind_vector(rng, nl, True, True, kinds_lin)
        elif method in LIN_INEQ:
            if unsupported and rng.random() < 0.6:
                lo, hi, kn = gen_kind_vector(rng, nl, True, False)
                bad_lin = True
            else:
                lo, hi, kn = gen_kind_vector(rng, nl, False, True, kinds_lin)
        else:
            lo, hi, kn = gen_kind_vector(rng, nl, True, True)
            bad_lin = True
        cfg["linear_constraints"] = {"coefficients": coef, "lower_bounds": lo, "upper_bounds": hi}
    mag = 0.01
    cfg["gradient"] = {"number_of_perturbations": nfree, "perturbation_magnitudes": mag, "boundary_types": 1,
                       "seed": rng.randint(1, 10**6)}
    cfg["samplers"] = [{"method": "sim/inject", "options": {"design": "identity", "amp": 1.0}, "shared": True}]
    opt: dict[str, Any] = {"method": f"simwrap/{method}"}
    if rng.random() < 0.5:
        opt["speculative"] = True
    if rng.random() < 0.5:
        opt["split_evaluations"] = True
    if method == DE and rng.random() < 0.6:
        opt["parallel"] = True
    c = rng.random()
    if c < 0.35:
        pass
    elif c < 0.55:
        opt["options"] = {}
    else:
        opt["options"] = {"disp": False} if method != DE else {"seed": rng.randint(1, 1000)}
    if rng.random() < 0.6:
        opt["max_iterations"] = rng.randint(1, 50)
    if rng.random() < 0.3:
        opt["tolerance"] = rng.choice([1e-3, 1e-6])
    cfg["optimizer"] = opt
    world = {"wseed": rng.getrandbits(32), "var_ids": list(range(nv)), "real_ids": [0], "obj_ids": list(range(no)),
             "con_ids": list(range(nc)), "kind": world_kind}
    # point pool: free-length vectors, identical copies or well separated
    base = [x0[i] for i in range(nv) if mask is None or mask[i]]
    pool = [list(base)]
    for _ in range(rng.randint(1, 2)):
        pool.append([round(b + rng.choice([-1, 1]) * rng.uniform(0.5, 1.5), 3) for b in base])
    if rng.random() < 0.5:
        pool.append(list(pool[rng.randrange(len(pool))]))  # an identical copy
    scn = {
        "prop": prop, "world": world, "transforms": None, "configs": [cfg],
        "plan": {"steps": [{"kind": "optimizer", "cfg": 0}], "recorders": ["a"], "trackers": []},
        "faults": [], "mode": {}, "fake": {"script": [], "points": pool},
        "expect_reject": bool(unsupported and (bad_bounds or bad_nl or bad_lin)),
        "method": method,
    }
    return scn


def alphabet(scn: dict) -> list[tuple]:
    """Requests FakeSciPy can issue for this scenario: (q, k)."""
    cfg = scn["configs"][0]
    method = scn["method"]
    if method == DE:
        a = [("f", None)]
        if cfg.get("nonlinear_constraints"):
            a.append(("c", None))
        return a
    a = [("f", None)]
    if method in GRADIENT:
        a.append(("g", None))
    ncons = 0
    from . import model
    nl = cfg.get("nonlinear_constraints")
    if nl:
        ncons += len(model.normalized_spec(nl["lower_bounds"], nl["upper_bounds"]))
    ml = model.masked_linear(cfg)
    if ml is not None:
        ncons += len(model.normalized_spec(ml[1], ml[2]))
    for k in range(ncons):
        a.append(("c", k))
        if method != "cobyla":
            a.append(("j", k))
    return a
