"""Seed derivation: one integer decides everything.

All derived values come from blake2b over a canonical repr of the parts, never
from Python's hash() (which depends on PYTHONHASHSEED).
"""
from __future__ import annotations

import hashlib
import random
import struct

_MASK = (1 << 64) - 1


def H(*parts) -> int:
    """64-bit hash of the parts (ints, strs, floats, tuples thereof)."""
    h = hashlib.blake2b(digest_size=8)
    h.update(repr(parts).encode())
    return int.from_bytes(h.digest(), "big")


def run_seed(batch_seed: int, prop: str, index: int) -> int:
    return H("run", int(batch_seed), prop, int(index))


def rng_for(*parts) -> random.Random:
    return random.Random(H(*parts))


def hfloat(lo: float, hi: float, *parts) -> float:
    """Index-hashed float in [lo, hi): a pure function of the parts."""
    u = H(*parts) / float(1 << 64)
    return lo + (hi - lo) * u


def hround(lo: float, hi: float, digits: int, *parts) -> float:
    return round(hfloat(lo, hi, *parts), digits)


def digest_bytes(*chunks: bytes) -> str:
    h = hashlib.blake2b(digest_size=16)
    for c in chunks:
        h.update(struct.pack("<Q", len(c)))
        h.update(c)
    return h.hexdigest()
