"""Scenario minimisation: ddmin over list-valued parts (script, faults, event faults),
then module-provided reductions (drop dimensions, simplify knobs)."""
from __future__ import annotations

import copy
import time
from typing import Callable, Iterable

MAX_RUNS = 300
MAX_SECONDS = 60.0


def _lists(scn: dict):
    """(getter, setter) pairs for every list the generic ddmin may shorten."""
    out = []

    def mk(container, key):
        return (lambda: container[key]), (lambda v: container.__setitem__(key, v))

    if isinstance(scn.get("faults"), list):
        out.append(("faults", scn, "faults"))
    if isinstance(scn.get("event_faults"), list):
        out.append(("event_faults", scn, "event_faults"))
    if isinstance(scn.get("ops"), list):
        out.append(("ops", scn, "ops"))
    for cfg in scn.get("configs", []):
        opts = (cfg.get("optimizer") or {}).get("options")
        if isinstance(opts, dict) and isinstance(opts.get("script"), list):
            out.append(("script", opts, "script"))
    return out


def _ddmin_list(scn: dict, path_index: int, test: Callable[[dict], bool], budget) -> dict:
    name, _, _ = _lists(scn)[path_index]
    n = 2
    while True:
        _, cont, key = _lists(scn)[path_index]
        items = cont[key]
        if len(items) == 0:
            return scn
        n = min(n, len(items))
        size = max(1, len(items) // n)
        reduced = False
        for start in range(0, len(items), size):
            if budget():
                return scn
            cand = copy.deepcopy(scn)
            _, c2, k2 = _lists(cand)[path_index]
            c2[k2] = items[:start] + items[start + size:]
            if name == "script" and not c2[k2] and not cand.get("allow_empty_script"):
                continue
            if test(cand):
                scn = cand
                n = max(n - 1, 2)
                reduced = True
                break
        if not reduced:
            if size == 1:
                return scn
            n = min(len(items), n * 2)


def minimise(scn: dict, test: Callable[[dict], bool],
             reductions: Callable[[dict], Iterable[dict]] | None = None) -> tuple[dict, int]:
    t0 = time.time()
    runs = [0]

    def counted(c: dict) -> bool:
        runs[0] += 1
        return test(c)

    def budget() -> bool:
        return runs[0] >= MAX_RUNS or time.time() - t0 > MAX_SECONDS

    scn = copy.deepcopy(scn)
    changed = True
    while changed and not budget():
        changed = False
        before = repr(scn)
        for i in range(len(_lists(scn))):
            scn = _ddmin_list(scn, i, counted, budget)
        if reductions is not None:
            progress = True
            while progress and not budget():
                progress = False
                for cand in reductions(scn):
                    if budget():
                        break
                    if counted(cand):
                        scn = cand
                        progress = True
                        break
        changed = repr(scn) != before
    return scn, runs[0]
