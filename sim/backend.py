"""Simulator-owned parties plugged into ropt through its public plug-in API.

* ``sim/scripted``  optimizer: issues a seed-chosen request script through the real callback.
* ``sim/inject``    sampler: the simulator chooses every perturbation sample.
* ``sim/recorder``  plan handler: records every event it is handed (and can raise the abort).
"""
from __future__ import annotations

from typing import Any

import numpy as np

from ropt.enums import OptimizerExitCode
from ropt.exceptions import OptimizationAborted
from ropt.plugins import PluginManager
from ropt.plugins.optimizer.base import Optimizer, OptimizerPlugin
from ropt.plugins.plan.base import PlanHandlerPlugin, ResultHandler
from ropt.plugins.sampler.base import Sampler, SamplerPlugin

from .seeds import hfloat

# run-id -> RunContext (see harness.py); lets plug-ins created by ropt find the
# simulation they belong to (the id travels in the JSON-able optimizer options).
ACTIVE: dict[int, Any] = {}
# filled by inject samplers with the "retain" option when an array they handed out was modified
RETAINED_TAMPERED: list[dict] = []
RETAINERS: list[Any] = []


def sweep_retained() -> list[dict]:
    """Final look at every array a retaining sampler handed out; returns and clears the tamper records."""
    for smp in RETAINERS:
        for arr, pristine in smp._kept:
            if not np.array_equal(arr, pristine):
                RETAINED_TAMPERED.append({"sampler": smp._index, "call": "end"})
    out = list(RETAINED_TAMPERED)
    RETAINED_TAMPERED.clear()
    RETAINERS.clear()
    return out


def ctx_for(options: Any) -> Any:
    if isinstance(options, dict):
        return ACTIVE.get(options.get("run"))
    return None


# ----------------------------------------------------------------------------
class ScriptedOptimizer(Optimizer):
    def __init__(self, config, optimizer_callback) -> None:
        self._config = config
        self._callback = optimizer_callback
        opts = config.optimizer.options if isinstance(config.optimizer.options, dict) else {}
        self._opts = opts
        self._script = opts.get("script", [])
        self._points = opts.get("points", [])
        self._allow_nan = bool(opts.get("allow_nan", False))
        self._parallel = bool(opts.get("parallel", False))
        self._ctx = ctx_for(opts)

    @property
    def allow_nan(self) -> bool:
        return self._allow_nan

    @property
    def is_parallel(self) -> bool:
        return self._parallel

    def _point(self, pid: Any, x0: np.ndarray) -> np.ndarray:
        mask = self._config.variables.mask
        if isinstance(pid, dict):
            # a step relative to the start point (an algorithm that continues from where it was started)
            d = np.asarray(pid["rel"], dtype=np.float64)
            if mask is not None and d.size == mask.size:
                d = d[mask]
            return np.array(x0, dtype=np.float64) + d
        if pid < 0:
            return np.array(x0, dtype=np.float64)
        x = np.asarray(self._points[pid], dtype=np.float64)
        mask = self._config.variables.mask
        if mask is not None and x.size == mask.size:
            x = x[mask]
        return x

    def start(self, initial_values: np.ndarray) -> None:
        mask = self._config.variables.mask
        x0 = np.asarray(initial_values, dtype=np.float64)
        if mask is not None:
            x0 = x0[mask]
        log = self._ctx.backend_log if self._ctx is not None else []
        log.append({"ev": "start", "x0": x0.copy(), "n_free": int(x0.size), "config": self._config})
        if "array_option" in self._opts:
            # an algorithm option that has to be a NumPy array of a given type and shape (like TNC's `scale`): what the
            # user configured must be what the algorithm gets, wherever it runs
            val, meta = self._opts["array_option"], self._opts["array_option_meta"]
            if not isinstance(val, np.ndarray):
                msg = f"Argument 'array_option' has incorrect type (expected numpy.ndarray, got {type(val).__name__})"
                raise TypeError(msg)
            if str(val.dtype) != meta["dtype"] or list(val.shape) != list(meta["shape"]):
                msg = f"array_option arrived as {val.dtype}{list(val.shape)}, configured {meta['dtype']}{list(meta['shape'])}"
                raise TypeError(msg)
        for idx, entry in enumerate(self._script):
            if self._opts.get("raise_at") == idx:
                msg = f"simulated optimizer failure before request {idx}"
                raise RuntimeError(msg)
            if self._opts.get("exit_at") == idx:
                raise SystemExit(3)
            op = entry["op"]
            pts = entry["pts"]
            if entry.get("batch"):
                x = np.vstack([self._point(p, x0) for p in pts])
            else:
                x = self._point(pts[0], x0)
            rf = op in ("f", "fg")
            rg = op in ("g", "fg")
            rec = {"ev": "request", "i": idx, "op": op, "x": x.copy(), "rf": rf, "rg": rg, "config": self._config}
            log.append(rec)
            functions, gradients = self._callback(x, return_functions=rf, return_gradients=rg)
            rec["functions"] = np.array(functions, copy=True)
            rec["gradients"] = np.array(gradients, copy=True)
            rec["done"] = True
            # the algorithm owns its iterate and may update it in place afterwards
            x += 1.0e3
        log.append({"ev": "end"})


class ScriptedOptimizerPlugin(OptimizerPlugin):
    def create(self, config, optimizer_callback):
        return ScriptedOptimizer(config, optimizer_callback)

    def is_supported(self, method: str) -> bool:
        return method.lower() in {"scripted"}


# ----------------------------------------------------------------------------
class InjectSampler(Sampler):
    """Deterministic designs chosen by the simulator.

    options: {"design": "hash"|"identity"|"pm"|"rankdef"|"table", "sseed": int,
              "amp": float, "table": [[[...]]]}
    """

    def __init__(self, enopt_config, sampler_index, mask, rng) -> None:
        self._config = enopt_config
        self._sc = enopt_config.samplers[sampler_index]
        self._index = sampler_index
        self._mask = mask
        self._calls = 0
        self._opts = self._sc.options
        self._kept: list[tuple[np.ndarray, np.ndarray]] = []  # (array handed out, pristine copy)
        if isinstance(self._opts, dict) and self._opts.get("retain"):
            RETAINERS.append(self)

    def generate_samples(self) -> np.ndarray:
        nv = self._config.variables.initial_values.size
        nr = self._config.realizations.weights.size
        npert = self._config.gradient.number_of_perturbations
        mask = np.ones(nv, dtype=bool) if self._mask is None else np.asarray(self._mask)
        call = self._calls
        self._calls += 1
        if not (isinstance(self._opts, dict) and self._opts.get("retain")):
            out = inject_samples(self._opts, bool(self._sc.shared), self._index, call, nr, npert, nv, np.where(mask)[0])
            if self._sc.shared and isinstance(self._opts, dict) and self._opts.get("contract_shape"):
                # the documented shape for a shared sampler: first dimension of length one
                out = out[:1].copy()
            return out
        # a sampler that keeps what it handed out (a tabulated design): the arrays stay the sampler's own,
        # and a call-independent design hands out the very same array again
        for arr, pristine in self._kept:
            if not np.array_equal(arr, pristine):
                RETAINED_TAMPERED.append({"sampler": self._index, "call": call})
        if self._kept and self._opts.get("design", "hash") in ("identity", "pm", "rankdef"):
            return self._kept[0][0]
        out = inject_samples(self._opts, bool(self._sc.shared), self._index, call, nr, npert, nv, np.where(mask)[0])
        self._kept.append((out, out.copy()))
        return out


def inject_samples(opts: dict, shared: bool, index: int, call: int, nr: int, npert: int, nv: int, cols) -> np.ndarray:
    """Pure function giving the samples of the inject sampler (also used by oracles)."""
    design = opts.get("design", "hash")
    amp = float(opts.get("amp", 1.0))
    sseed = opts.get("sseed", 0)
    out = np.zeros((nr, npert, nv))
    ncols = max(len(cols), 1)
    for r in range(nr):
        rk = 0 if shared else r
        for p in range(npert):
            for ci, v in enumerate(cols):
                if design == "identity":
                    val = amp if (p % ncols) == ci else 0.0
                elif design == "pm":
                    sgn = 1.0 if (p // ncols) % 2 == 0 else -1.0
                    val = sgn * amp if (p % ncols) == ci else 0.0
                elif design == "rankdef":
                    val = amp * (1.0 + 0.5 * p) * (1.0 if ci % 2 == 0 else -1.0)
                elif design == "table":
                    tab = opts["table"]
                    t1 = tab[call % len(tab)]
                    t2 = t1[rk % len(t1)]
                    t3 = t2[p % len(t2)]
                    val = float(t3[int(v) % len(t3)])
                else:
                    val = amp * round(hfloat(-1.0, 1.0, sseed, index, call, rk, p, int(v)), 4)
                out[r, p, v] = val
    return out


class InjectSamplerPlugin(SamplerPlugin):
    def create(self, enopt_config, sampler_index, mask, rng):
        return InjectSampler(enopt_config, sampler_index, mask, rng)

    def is_supported(self, method: str) -> bool:
        return method.lower() in {"inject"}


# ----------------------------------------------------------------------------
class Recorder(ResultHandler):
    def __init__(self, plan, *, ctx=None, tag: str = "h", level: int = 0) -> None:
        super().__init__(plan)
        self._ctx = ctx
        self._tag = tag
        self._level = level
        self["count"] = 0

    def handle_event(self, event) -> None:
        self["count"] = self["count"] + 1
        if self._ctx is not None:
            self._ctx.on_event(event, receiver=self._tag, level=self._level)


class RecorderPlugin(PlanHandlerPlugin):
    def create(self, name, plan, **kwargs):
        return Recorder(plan, **kwargs)

    def is_supported(self, method: str) -> bool:
        return method.lower() in {"recorder"}


def make_plugin_manager() -> PluginManager:
    pm = PluginManager()
    pm.add_plugin("optimizer", "sim", ScriptedOptimizerPlugin())
    pm.add_plugin("sampler", "sim", InjectSamplerPlugin())
    pm.add_plugin("plan_handler", "sim", RecorderPlugin())
    pm.add_plugin("sampler", "tap", TappedSamplerPlugin())
    return pm


def user_abort() -> OptimizationAborted:
    return OptimizationAborted(exit_code=OptimizerExitCode.USER_ABORT)


# ----------------------------------------------------------------------------
# Tap around the real SciPy samplers: records what generate_samples returned and what the
# underlying QMC engine produced during that call.
TAP_LOG: list[dict] = []
_QMC_PATCHED = [False]
_QMC_CAPTURE: list[list] = []


def _patch_qmc() -> None:
    if _QMC_PATCHED[0]:
        return
    from scipy.stats import qmc

    orig = qmc.QMCEngine.random

    def random(self, n=1, *, workers=1):
        out = orig(self, n, workers=workers)
        if _QMC_CAPTURE:
            _QMC_CAPTURE[-1].append(np.array(out, copy=True))
        return out

    qmc.QMCEngine.random = random
    _QMC_PATCHED[0] = True


class TappedSampler(Sampler):
    def __init__(self, enopt_config, sampler_index, mask, rng) -> None:
        from ropt.plugins.sampler.scipy import SciPySampler

        _patch_qmc()
        self._inner = SciPySampler(enopt_config, sampler_index, mask, rng)
        self._config = enopt_config
        self._index = sampler_index
        self._mask = None if mask is None else np.array(mask, copy=True)
        self._calls = 0

    def generate_samples(self) -> np.ndarray:
        _QMC_CAPTURE.append([])
        try:
            out = self._inner.generate_samples()
        finally:
            pts = _QMC_CAPTURE.pop()
        sc = self._config.samplers[self._index]
        TAP_LOG.append({
            "config": self._config, "index": self._index, "call": self._calls,
            "mask": self._mask, "shared": bool(sc.shared),
            "method": sc.method.lower().rpartition("/")[2],
            "samples": np.array(out, copy=True), "engine_points": pts,
        })
        self._calls += 1
        return out


class TappedSamplerPlugin(SamplerPlugin):
    def create(self, enopt_config, sampler_index, mask, rng):
        return TappedSampler(enopt_config, sampler_index, mask, rng)

    def is_supported(self, method: str) -> bool:
        return method.lower() in {"uniform", "norm", "truncnorm", "sobol", "halton", "lhs", "default"}
