"""Build and execute one simulated run from a JSON-able scenario.

A run is a pure function of (scenario, code under test).  The scenario holds the
raw configuration dictionaries, the world, the request script (inside the
optimizer options), the fault plan, the plan layout and the transforms.
"""
from __future__ import annotations

import copy
import warnings
from typing import Any

import numpy as np

from ropt.enums import EventType, OptimizerExitCode
from ropt.exceptions import OptimizationAborted, PlanAborted
from ropt.plan import BasicOptimizer, OptimizerContext, Plan
from ropt.results import FunctionResults, GradientResults

from . import backend
from .evaluator import SimEvaluator, SimEvaluatorError
from .seeds import digest_bytes
from .simtransforms import build_transforms
from .world import World

_RUN_COUNTER = [0]


def canon_bytes(arr: Any) -> bytes:
    """Bytes of an array with every NaN replaced by the canonical quiet NaN (the sign/payload bits of a NaN
    carry no meaning and do not survive e.g. a JSON round trip)."""
    a = np.ascontiguousarray(np.asarray(arr))
    if a.dtype.kind == "f":
        m = np.isnan(a)
        if m.any():
            a = a.copy()
            a[m] = np.nan
    return a.tobytes()


def result_bytes(item: Any) -> bytes:
    """Canonical byte serialisation of a Results object (all arrays)."""
    chunks: list[bytes] = [type(item).__name__.encode(), repr(item.batch_id).encode()]

    def add(name: str, arr: Any) -> None:
        chunks.append(name.encode())
        if arr is None:
            chunks.append(b"None")
        else:
            a = np.asarray(arr)
            chunks.append(str(a.shape).encode() + str(a.dtype).encode())
            chunks.append(canon_bytes(a))

    ev = item.evaluations
    for fld in ("variables", "objectives", "constraints", "perturbed_variables",
                "perturbed_objectives", "perturbed_constraints"):
        if hasattr(ev, fld):
            add("ev." + fld, getattr(ev, fld))
    info = getattr(ev, "evaluation_info", None) or {}
    for key in sorted(info):
        add("ev.info." + str(key), info[key])
    rl = item.realizations
    for fld in ("failed_realizations", "objective_weights", "constraint_weights"):
        add("rl." + fld, getattr(rl, fld))
    if isinstance(item, FunctionResults):
        fn = item.functions
        if fn is None:
            chunks.append(b"functions=None")
        else:
            for fld in ("weighted_objective", "objectives", "constraints"):
                add("fn." + fld, getattr(fn, fld))
        ci = item.constraint_info
        if ci is None:
            chunks.append(b"ci=None")
        else:
            for fld in ("bound_lower", "bound_upper", "linear_lower", "linear_upper",
                        "nonlinear_lower", "nonlinear_upper", "bound_violation",
                        "linear_violation", "nonlinear_violation"):
                add("ci." + fld, getattr(ci, fld))
    else:
        gr = item.gradients
        if gr is None:
            chunks.append(b"gradients=None")
        else:
            for fld in ("weighted_objective", "objectives", "constraints"):
                add("gr." + fld, getattr(gr, fld))
    return b"\x00".join(chunks)


class EventRec:
    __slots__ = ("n", "type", "source", "config", "event", "results", "transformed",
                 "snap", "deliveries", "tracker_state", "plan_level")


class RunContext:
    def __init__(self, scn: dict) -> None:
        self.scn = scn
        _RUN_COUNTER[0] += 1
        self.run_id = _RUN_COUNTER[0]
        backend.ACTIVE[self.run_id] = self
        self.events: list[EventRec] = []
        self._event_by_id: dict[int, EventRec] = {}
        self.deliveries: list[tuple[int, str]] = []  # (event#, receiver)
        self.step_index: dict[Any, int] = {}
        self.step_meta: list[dict] = []
        self.backend_log: list[dict] = []
        self.exits: list[tuple] = []
        self.event_faults = list(scn.get("event_faults", []))
        self.fired: dict[str, int] = {}
        self.after_event: list[Any] = []
        self.plans: list[Plan] = []
        self.trackers: list[dict] = []
        self.evaluator: SimEvaluator | None = None
        self.world: World | None = None
        self.transforms = None
        self.validated: dict[int, Any] = {}
        self.keepalive: list[Any] = []

    def close(self) -> None:
        backend.ACTIVE.pop(self.run_id, None)

    # -- events ---------------------------------------------------------
    def on_event(self, event, receiver: str, level: int = 0) -> None:
        rec = self._event_by_id.get(id(event))
        if rec is None:
            rec = EventRec()
            rec.n = len(self.events)
            rec.type = EventType(event.event_type)
            rec.source = self.step_index.get(event.source, -1)
            rec.config = event.config
            rec.event = event
            rec.results = event.data.get("results")
            rec.transformed = event.data.get("transformed_results")
            rec.snap = None
            if rec.results is not None:
                rec.snap = [result_bytes(r) for r in rec.results]
                if rec.transformed is not None:
                    rec.snap += [result_bytes(r) for r in rec.transformed]
            rec.deliveries = []
            rec.tracker_state = None
            self.events.append(rec)
            self._event_by_id[id(event)] = rec
            self.keepalive.append(event)
        rec.deliveries.append(receiver)
        self.deliveries.append((rec.n, receiver))
        for f in self.event_faults:
            if f.get("event") == rec.n and f.get("receiver") == receiver and not f.get("_done"):
                f["_done"] = True
                self.fired["abort_at_event"] = self.fired.get("abort_at_event", 0) + 1
                raise backend.user_abort()
        if receiver == "obs":
            if self.trackers:
                rec.tracker_state = [t["plan"].get(t["id"], "results") for t in self.trackers]
            for hook in self.after_event:
                hook(self, rec)


def _opt_results(rec: EventRec):
    """Optimizer-domain results of an event (transformed_results when transforms are on)."""
    return rec.transformed if rec.transformed is not None else rec.results


def prepare_config(cfg: dict, ctx: RunContext) -> dict:
    cfg = copy.deepcopy(cfg)
    opt = cfg.setdefault("optimizer", {})
    if isinstance(opt.get("options"), dict) and "script" in opt["options"]:
        opt["options"]["run"] = ctx.run_id
    if isinstance(opt.get("options"), dict):
        # option values written as {"__np__": dtype, "value": v} stand for NumPy scalars (what a user gets from
        # arithmetic on arrays), which a JSON scenario cannot hold directly
        for key, val in list(opt["options"].items()):
            if isinstance(val, dict) and val.get("__np__") == "array":
                opt["options"][key] = np.array(val["value"], dtype=val["dtype"]).reshape(val["shape"])
            elif isinstance(val, dict) and "__rng__" in val:
                # a seeded generator object given as an option value (SciPy accepts one wherever it accepts a seed)
                opt["options"][key] = np.random.default_rng(val["__rng__"])
            elif isinstance(val, dict) and "__np__" in val:
                opt["options"][key] = getattr(np, val["__np__"])(val["value"])
    return cfg


def _build_plan(ctx: RunContext, context: OptimizerContext, spec: dict, level: int, reuse: dict | None = None,
                suffix: str = "") -> dict:
    """``reuse``: an outer plan built earlier whose nested plans (the user's own objects) this new outer plan is handed
    too; ``suffix`` distinguishes the handlers of the new plan from those of the earlier one."""
    plan = Plan(context)
    ctx.plans.append(plan)
    built: dict[str, Any] = {"plan": plan, "steps": [], "trackers": [], "spec": spec, "level": level}
    for tag in spec.get("recorders", ["a"]):
        plan.add_handler("sim/recorder", ctx=ctx, tag=f"h{level}{tag}{suffix}", level=level)
    for pos, sspec in enumerate(spec["steps"]):
        if sspec.get("same_as") is not None:
            # the step object of an earlier entry is run once more (a restart loop in the user's code)
            first = built["steps"][sspec["same_as"]]
            built["steps"].append({"id": first["id"], "spec": sspec, "nested": None, "plan": first["plan"], "index": first["index"]})
            continue
        owner, owner_level = plan, level
        if sspec.get("child"):
            # the step lives in a plan of its own that was created as a child of this plan (Plan(context, parent=plan))
            # and is run directly by the user, not through nested_optimization
            owner, owner_level = Plan(context, parent=plan), level + 1
            ctx.plans.append(owner)
            for tag in spec.get("recorders", ["a"]):
                owner.add_handler("sim/recorder", ctx=ctx, tag=f"h{owner_level}{tag}", level=owner_level)
        sid = owner.add_step(sspec["kind"])
        ctx.step_index[sid] = len(ctx.step_meta)
        ctx.step_meta.append({"kind": sspec["kind"], "level": owner_level, "cfg": sspec["cfg"]})
        nested = None
        if sspec.get("nested") and reuse is not None:
            nested = reuse["steps"][pos]["nested"]
        elif sspec.get("nested"):
            nested = _build_plan(ctx, context, sspec["nested"], level + 1)
        built["steps"].append({"id": sid, "spec": sspec, "nested": nested, "plan": owner,
                               "index": ctx.step_index[sid]})
    for tspec in spec.get("trackers", []):
        sources = {built["steps"][i]["id"] for i in tspec["sources"]}
        kwargs: dict[str, Any] = {"what": tspec.get("what", "best"), "sources": sources}
        if "tol" in tspec:
            kwargs["constraint_tolerance"] = tspec["tol"]
        tid = plan.add_handler("tracker", **kwargs)
        entry = {"id": tid, "plan": plan, "spec": tspec, "level": level,
                 "sources": [built["steps"][i]["index"] for i in tspec["sources"]]}
        built["trackers"].append(entry)
        ctx.trackers.append(entry)
    return built


def _run_built(ctx: RunContext, built: dict, configs: list[dict], variables=None) -> None:
    plan: Plan = built["plan"]
    for st in built["steps"]:
        sspec = st["spec"]
        cfg = prepare_config(configs[sspec["cfg"]], ctx)
        reuse = getattr(ctx, "shared_validated", None)
        if reuse is not None:
            # the same validated EnOptConfig object is used for several runs
            from ropt.config.enopt import EnOptConfig

            key = sspec["cfg"]
            if key not in reuse:
                try:
                    reuse[key] = (EnOptConfig.model_validate(cfg, context=ctx.transforms), ctx.run_id)
                except Exception:  # noqa: BLE001 - an invalid configuration: let the step report it as usual
                    reuse = None
            if reuse is not None:
                cfg, first_run = reuse[key]
                backend.ACTIVE[first_run] = ctx
        elif ctx.scn.get("validated_config_object"):
            # the step is handed an EnOptConfig object that the caller validated (a fresh one for every step run, so
            # that runs stay distinguishable by their configuration object) instead of a dictionary
            from ropt.config.enopt import EnOptConfig

            try:
                cfg = EnOptConfig.model_validate(cfg, context=ctx.transforms)
            except Exception:  # noqa: BLE001 - an invalid configuration: let the step report it as usual
                pass
        if isinstance(cfg, dict) and ctx.scn.get("subconfig_objects"):
            # the user builds the variable and non-linear constraint settings as objects of their own (created once,
            # user domain) and puts the same objects into the configuration of every step
            from ropt.config.enopt import GradientConfig, NonlinearConstraintsConfig, VariablesConfig

            store = ctx.__dict__.setdefault("subconfig_store", {})
            if sspec["cfg"] not in store:
                objs = {"variables": VariablesConfig(**cfg["variables"])}
                if cfg.get("nonlinear_constraints"):
                    objs["nonlinear_constraints"] = NonlinearConstraintsConfig(**cfg["nonlinear_constraints"])
                if cfg.get("gradient"):
                    objs["gradient"] = GradientConfig(**cfg["gradient"])
                # ... and likewise every other part of the configuration that has a class of its own
                from ropt.config import enopt as _enopt

                for field, cls_name in (("linear_constraints", "LinearConstraintsConfig"), ("objectives", "ObjectiveFunctionsConfig"),
                                        ("realizations", "RealizationsConfig")):
                    if cfg.get(field) and hasattr(_enopt, cls_name):
                        objs[field] = getattr(_enopt, cls_name)(**cfg[field])
                for field, cls_name in (("samplers", "SamplerConfig"), ("realization_filters", "RealizationFilterConfig"),
                                        ("function_estimators", "FunctionEstimatorConfig")):
                    if cfg.get(field) and hasattr(_enopt, cls_name):
                        objs[field] = [getattr(_enopt, cls_name)(**item) for item in cfg[field]]
                store[sspec["cfg"]] = objs
            cfg.update(store[sspec["cfg"]])
        kwargs: dict[str, Any] = {"config": cfg}
        if ctx.transforms is not None:
            kwargs["transforms"] = ctx.transforms
        v = sspec.get("variables")
        if variables is not None and sspec.get("use_outer_variables", True):
            v = variables
        if v is not None:
            kwargs["variables"] = np.asarray(v, dtype=np.float64)
        if st["nested"] is not None:
            inner = st["nested"]

            def _inner(plan_: Plan, vars_: np.ndarray, inner=inner) -> Any:
                _run_built(ctx, inner, configs, variables=vars_)
                tr = inner["trackers"][0]
                return plan_.get(tr["id"], "results")

            inner["plan"].add_function(_inner)
            kwargs["nested_optimization"] = inner["plan"]
        if sspec.get("metadata") is not None:
            kwargs["metadata"] = sspec["metadata"]
        # (number of evaluator calls before each step run: lets a check cut the call list by step run)
        ctx.__dict__.setdefault("call_marks", []).append(len(ctx.evaluator.calls))
        try:
            code = st.get("plan", plan).run_step(st["id"], **kwargs)
            ctx.exits.append(("ret", st["index"], None if code is None else int(code)))
        except PlanAborted:
            ctx.exits.append(("plan_aborted", st["index"], None))
            if built["level"] > 0:
                # a nested function written as a plain sequence of steps: the refusal leaves it like any exception
                raise
        except SimEvaluatorError as exc:
            ctx.exits.append(("evaluator_error", st["index"], str(exc)))
            if built["level"] > 0:
                raise
        except KeyboardInterrupt as exc:
            # (raised by the simulated user evaluator, fault kind "interrupt")
            ctx.exits.append(("evaluator_interrupt", st["index"], str(exc)))
            if built["level"] > 0:
                raise
        except OptimizationAborted as exc:
            ctx.exits.append(("abort_escaped", st["index"], int(exc.exit_code)))
            if built["level"] > 0:
                raise
        except Exception as exc:  # noqa: BLE001  - internal exception escaping the step
            import re

            # (temporary directory names are random: keep them out of the trace)
            text = re.sub(r"/tmp/tmp[A-Za-z0-9_]+", "/tmp/<tmpdir>", f"{type(exc).__name__}: {exc}")
            # (so are the simulator's run ids and object addresses that pydantic echoes from the input)
            text = re.sub(r"'run': \d+", "'run': <id>", text)
            # (pydantic echoes a window of the input whose position depends on the length of that id)
            text = re.sub(r"input_value=.*?, input_type=", "input_value=<...>, input_type=", text, flags=re.S)
            text = re.sub(r"0x[0-9a-fA-F]{6,}", "0x<addr>", text)
            ctx.exits.append(("exception", st["index"], text))
            ctx.last_exception = exc
            if built["level"] > 0:
                raise


def _run_restarts(ctx: RunContext, pm) -> None:
    """One EnsembleOptimizer object (public class of ropt.optimization) started at each point of scn["starts"] in
    turn: the user's own restart loop without a plan.  ctx.restart_marks holds the length of the fake back-end's
    request log before each start."""
    from ropt.config.enopt import EnOptConfig
    from ropt.ensemble_evaluator import EnsembleEvaluator
    from ropt.optimization import EnsembleOptimizer

    scn = ctx.scn
    cfg = prepare_config(scn["configs"][0], ctx)
    config = EnOptConfig.model_validate(cfg, context=ctx.transforms)
    ensemble_evaluator = EnsembleEvaluator(config, ctx.transforms, ctx.evaluator, pm)
    optimizer = EnsembleOptimizer(enopt_config=config, ensemble_evaluator=ensemble_evaluator, plugin_manager=pm,
                                  signal_evaluation=lambda results=None: None)
    ctx.restart_marks = []
    for i, start in enumerate(scn["starts"]):
        ctx.restart_marks.append(len(ctx.fake.log) if ctx.fake is not None else 0)
        try:
            code = optimizer.start(np.asarray(start, dtype=np.float64))
            ctx.exits.append(("ret", i, None if code is None else int(code)))
        except OptimizationAborted as exc:
            ctx.exits.append(("abort_escaped", i, int(exc.exit_code)))
        except Exception as exc:  # noqa: BLE001
            ctx.exits.append(("exception", i, f"{type(exc).__name__}: {exc}"))
            ctx.last_exception = exc
            break


def _run_evaluator_sequence(ctx: RunContext, pm) -> None:
    """One EnsembleEvaluator object (public class) answering scn["requests"] in turn, each {"op": f|g|fg, "x": [...],
    "faults": [...] (optional: the evaluator's fault list from this request on)}.  Every answer is recorded as a
    FINISHED_EVALUATION event of step 0, so that the oracles written for plan runs apply unchanged."""
    from types import SimpleNamespace

    from ropt.config.enopt import EnOptConfig
    from ropt.ensemble_evaluator import EnsembleEvaluator

    scn = ctx.scn
    cfg = prepare_config(scn["configs"][0], ctx)
    cfg.pop("optimizer", None)
    config = EnOptConfig.model_validate(cfg)
    ee = EnsembleEvaluator(config, None, ctx.evaluator, pm)
    ctx.step_index["sequence"] = 0
    ctx.step_meta.append({"kind": "evaluator-object", "level": 0, "cfg": 0})
    for i, req in enumerate(scn["requests"]):
        if req.get("faults") is not None:
            ctx.evaluator.faults = list(req["faults"])
        try:
            results = ee.calculate(np.asarray(req["x"], dtype=np.float64), compute_functions="f" in req["op"],
                                   compute_gradients="g" in req["op"])
            ctx.exits.append(("ret", i, len(results)))
        except OptimizationAborted as exc:
            ctx.exits.append(("abort_escaped", i, int(exc.exit_code)))
            continue
        except Exception as exc:  # noqa: BLE001
            ctx.exits.append(("exception", i, f"{type(exc).__name__}: {exc}"))
            ctx.last_exception = exc
            break
        ctx.on_event(SimpleNamespace(event_type=EventType.FINISHED_EVALUATION, source="sequence", config=config,
                                     data={"results": tuple(results)}), "obs")


def run_scenario(scn: dict, setup=None, shared: dict | None = None) -> RunContext:
    """Execute the scenario against the real ropt code; return the populated context.

    ``setup(ctx)`` is called once the evaluator exists (schedulers install their yield hooks
    there); ``shared`` may carry a plug-in manager to re-use between runs."""
    warnings.simplefilter("ignore")
    ctx = RunContext(scn)
    try:
        world = World(scn["world"])
        ctx.world = world
        ctx.transforms = build_transforms(scn.get("transforms"))
        evaluator = SimEvaluator(world, scn.get("faults"), scn.get("mode"))
        ctx.evaluator = evaluator
        if shared is not None and shared.get("pm") is not None:
            pm = shared["pm"]
        else:
            pm = backend.make_plugin_manager()
            if shared is not None:
                shared["pm"] = pm
        if shared is not None and shared.get("reuse_validated"):
            ctx.shared_validated = shared.setdefault("validated", {})
        if setup is not None:
            setup(ctx)
        ctx.fake = None
        if scn.get("fake") is not None:
            from . import fakescipy

            ctx.fake = fakescipy.FakeState(scn["fake"]["script"], scn["fake"]["points"])
            fakescipy.CURRENT.append(ctx.fake)
            fakescipy.install()
            pm.add_plugin("optimizer", "simwrap", fakescipy.SimWrapPlugin())
        elif scn.get("simwrap"):
            from . import fakescipy

            ctx.fake = fakescipy.FakeState([], [])
            fakescipy.CURRENT.append(ctx.fake)
            pm.add_plugin("optimizer", "simwrap", fakescipy.SimWrapPlugin())
        context = OptimizerContext(evaluator=evaluator, plugin_manager=pm)
        for et in EventType:
            context.add_observer(et, lambda e, ctx=ctx: ctx.on_event(e, "obs"))
        ctx.context = context
        if scn.get("entry") == "optimizer_object_restarts":
            _run_restarts(ctx, pm)
        elif scn.get("entry") == "evaluator_object_sequence":
            _run_evaluator_sequence(ctx, pm)
        else:
            built = _build_plan(ctx, context, scn["plan"], 0)
            ctx.built = built
            _run_built(ctx, built, scn["configs"])
            if scn.get("second_outer_plan"):
                # a second top-level plan of the same shape that is handed the nested plan objects of the first
                ctx.second_outer_first_event = len(ctx.events)
                ctx.event_faults = list(scn.get("second_event_faults", []))
                if scn.get("second_faults") is not None:
                    evaluator.faults = list(scn["second_faults"])
                built2 = _build_plan(ctx, context, scn["plan"], 0, reuse=built, suffix="B")
                ctx.built2 = built2
                _run_built(ctx, built2, scn["configs"])
        evaluator.check_alias("end of run")
    finally:
        if getattr(ctx, "fake", None) is not None:
            from . import fakescipy

            if fakescipy.CURRENT and fakescipy.CURRENT[-1] is ctx.fake:
                fakescipy.CURRENT.pop()
            if scn.get("fake") is not None:
                fakescipy.uninstall()
        ctx.close()
    return ctx


def trace_digest(ctx: RunContext) -> str:
    """Digest of everything observable: evaluator calls, events + payloads, exits."""
    chunks: list[bytes] = []
    ev = ctx.evaluator
    for c in ev.calls:
        chunks.append(f"CALL {c.k} {c.kind} {c.raised}".encode())
        chunks.append(c.variables.tobytes())
        chunks.append(c.realizations.astype(np.int64).tobytes())
        chunks.append(b"" if c.perturbations is None else c.perturbations.astype(np.int64).tobytes())
        chunks.append(b"" if c.active_objectives is None else c.active_objectives.tobytes())
        chunks.append(b"" if c.active_constraints is None else c.active_constraints.tobytes())
        chunks.append(b"" if c.obj is None else canon_bytes(c.obj))
        chunks.append(b"" if c.con is None else canon_bytes(c.con))
    for rec in ctx.events:
        chunks.append(f"EVENT {rec.n} {int(rec.type)} {rec.source} {rec.deliveries}".encode())
        for s in rec.snap or []:
            chunks.append(s)
    for e in ctx.exits:
        chunks.append(repr(e).encode())
    for b in ctx.backend_log:
        chunks.append(f"B {b.get('ev')} {b.get('op')}".encode())
        for key in ("x", "functions", "gradients"):
            if key in b:
                chunks.append(canon_bytes(b[key]))
    return digest_bytes(*chunks)
