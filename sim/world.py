"""The simulated user world: an index-hashed ensemble of functions.

f_{r,f}(x) = b[r,f] + a[r,f,:].x + q[f] * sum((x - c[f,:])**2)

Coefficients are hashed from (wseed, ids) rather than drawn sequentially, so
the shrinker can delete a realization / function / variable without changing
any other number.  ``ids`` are the stable identities of realizations,
functions (objectives first, then constraints) and variables.
"""
from __future__ import annotations

import numpy as np

from .seeds import hfloat


class World:
    def __init__(self, spec: dict) -> None:
        self.spec = spec
        self.wseed = spec["wseed"]
        self.var_ids = list(spec["var_ids"])
        self.real_ids = list(spec["real_ids"])
        self.obj_ids = list(spec["obj_ids"])
        self.con_ids = list(spec.get("con_ids", []))
        self.kind = spec.get("kind", "affine")  # affine | quadratic
        self.identical = bool(spec.get("identical", False))
        self.offsets = spec.get("offsets", {})  # {"o<id>"/"c<id>": float} twin-run shifts
        self.scale = float(spec.get("scale", 1.0))
        # exact ties: [tag, fid, rid_src, rid_dst] gives realization rid_dst the coefficients of rid_src for that
        # function, so the two realizations return bit-identical values of it at every point
        self.ties = {(t[0], int(t[1]), int(t[3])): int(t[2]) for t in spec.get("ties", [])}
        nv, nr = len(self.var_ids), len(self.real_ids)
        fids = [("o", i) for i in self.obj_ids] + [("c", i) for i in self.con_ids]
        nf = len(fids)
        self.a = np.zeros((nr, nf, nv))
        self.b = np.zeros((nr, nf))
        self.q = np.zeros(nf)
        self.c = np.zeros((nf, nv))
        for fi, (tag, fid) in enumerate(fids):
            if self.kind == "quadratic":
                self.q[fi] = round(hfloat(0.25, 1.5, self.wseed, "q", tag, fid), 3)
                for vi, vid in enumerate(self.var_ids):
                    self.c[fi, vi] = round(
                        hfloat(-1.0, 1.0, self.wseed, "c", tag, fid, vid), 3
                    )
            for ri, rid in enumerate(self.real_ids):
                rkey = 0 if self.identical else self.ties.get((tag, fid, rid), rid)
                self.b[ri, fi] = round(
                    hfloat(-3.0, 3.0, self.wseed, "b", rkey, tag, fid), 3
                ) * self.scale + float(self.offsets.get(f"{tag}{fid}", 0.0))
                for vi, vid in enumerate(self.var_ids):
                    self.a[ri, fi, vi] = (
                        round(hfloat(-2.0, 2.0, self.wseed, "a", rkey, tag, fid, vid), 3)
                        * self.scale
                    )
        self.n_obj = len(self.obj_ids)
        self.n_con = len(self.con_ids)

    def values(self, x: np.ndarray, realizations: np.ndarray) -> tuple[np.ndarray, np.ndarray | None]:
        """User-domain objective/constraint values for rows of user-domain x."""
        x = np.atleast_2d(np.asarray(x, dtype=np.float64))
        r = np.asarray(realizations, dtype=int)
        a = self.a[r]  # rows, nf, nv
        vals = self.b[r] + np.einsum("rfv,rv->rf", a, x)
        if self.kind == "quadratic":
            d = x[:, None, :] - self.c[None, :, :]
            vals = vals + self.q[None, :] * (d * d).sum(axis=-1)
        obj = vals[:, : self.n_obj].copy()
        con = vals[:, self.n_obj :].copy() if self.n_con else None
        return obj, con

    def slopes(self, x: np.ndarray | None = None) -> np.ndarray:
        """d f_{r,f} / d x (user domain) : (nr, nf, nv).  Exact for affine worlds;
        for quadratic worlds the derivative at user-domain point x."""
        g = self.a.copy()
        if self.kind == "quadratic":
            assert x is not None
            g = g + 2.0 * self.q[None, :, None] * (np.asarray(x)[None, None, :] - self.c[None, :, :])
        return g
