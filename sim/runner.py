"""Batch runner: seeded search over scenarios in a fork pool, violation triage
(known findings / minimise / replay), determinism self-test and evidence."""
from __future__ import annotations

import concurrent.futures as cf
import faulthandler
import importlib
import json
import multiprocessing as mp
import os
import subprocess
import sys
import time
import traceback
from pathlib import Path
from typing import Any

from . import findings as findings_mod
from . import shrink
from .seeds import H, run_seed

ROOT = Path(__file__).resolve().parent.parent
EVIDENCE = Path(os.environ.get("VERIF_EVIDENCE_DIR", ROOT / "evidence"))
REPLAYS = Path(os.environ.get("VERIF_REPLAY_DIR", ROOT / "replays"))

EXIT_OK, EXIT_VIOLATION, EXIT_HARNESS = 0, 1, 2


class HarnessError(Exception):
    pass


def load_check(prop: str):
    return importlib.import_module(f"checks.{prop.lower()}")


def assert_real_tree() -> str:
    import ropt

    path = str(Path(ropt.__file__).resolve())
    want = os.environ.get("ROPT_SRC", "/repo/src")
    if not path.startswith(str(Path(want).resolve())):
        raise HarnessError(f"ropt imported from {path}, expected under {want}")
    return path


# ---------------------------------------------------------------------------
def _exec_one(prop: str, batch_seed: int, index: int, tier: str) -> dict:
    mod = load_check(prop)
    seed = run_seed(batch_seed, prop, index)
    t0 = time.perf_counter()
    try:
        scn = mod.generate(seed, index, tier)
    except Exception:  # noqa: BLE001
        return {"index": index, "seed": seed, "harness_error": "generate: " + traceback.format_exc()}
    try:
        out = mod.execute(scn)
    except Exception:  # noqa: BLE001
        return {"index": index, "seed": seed, "scenario": scn,
                "harness_error": "execute: " + traceback.format_exc()}
    out["index"] = index
    out["seed"] = seed
    out["wall"] = time.perf_counter() - t0
    if out.get("violations"):
        out["scenario"] = scn
    elif index < 3:
        out["sample_scenario"] = scn
    return out


def _exec_chunk(args) -> list[dict]:
    prop, batch_seed, indices, tier = args
    faulthandler.dump_traceback_later(600, exit=True)
    try:
        return [_exec_one(prop, batch_seed, i, tier) for i in indices]
    finally:
        faulthandler.cancel_dump_traceback_later()


def run_indices(prop: str, batch_seed: int, indices: list[int], tier: str, workers: int) -> list[dict]:
    if workers <= 1:
        return _exec_chunk((prop, batch_seed, indices, tier))
    nchunks = max(workers * 4, 1)
    size = max(1, (len(indices) + nchunks - 1) // nchunks)
    chunks = [indices[i : i + size] for i in range(0, len(indices), size)]
    results: list[dict] = []
    ctx = mp.get_context("fork")
    # a worker killed from outside (the kernel's OOM killer picking a bystander, for instance) breaks the whole pool:
    # the chunks without a result are run once more in a fresh pool before this counts as a harness error
    pending = list(chunks)
    for attempt in (1, 2):
        failed: list = []
        last_exc: Exception | None = None
        with cf.ProcessPoolExecutor(max_workers=workers, mp_context=ctx) as ex:
            futs = [(c, ex.submit(_exec_chunk, (prop, batch_seed, c, tier))) for c in pending]
            for c, f in futs:
                try:
                    results.extend(f.result(timeout=1800))
                except cf.process.BrokenProcessPool as exc:
                    failed.append(c)
                    last_exc = exc
                except Exception as exc:  # noqa: BLE001
                    raise HarnessError(f"worker died: {type(exc).__name__}: {exc}") from exc
        if not failed:
            break
        if attempt == 2:
            raise HarnessError(f"worker died: {type(last_exc).__name__}: {last_exc}") from last_exc
        print(f"  note: process pool broke ({len(failed)} chunks without result), running them again", flush=True)
        pending = failed
    results.sort(key=lambda r: r["index"])
    return results


# ---------------------------------------------------------------------------
def _sig_key(v: dict) -> str:
    return v["clause"] + "|" + json.dumps(v.get("sig", {}), sort_keys=True)


def digest_sample(prop: str, batch_seed: int, count: int, tier: str) -> dict[str, str]:
    res = run_indices(prop, batch_seed, list(range(count)), tier, workers=1)
    return {str(r["index"]): r.get("digest", "ERR") for r in res}


def _fresh_interpreter_digests(prop: str, batch_seed: int, count: int, tier: str) -> dict[str, str]:
    env = dict(os.environ)
    env["PYTHONHASHSEED"] = "12345"
    env["VERIF_SEED"] = str(batch_seed)
    cmd = [sys.executable, str(ROOT / "check"), prop, "--tier", tier, "--digest-sample", str(count)]
    proc = subprocess.run(cmd, capture_output=True, text=True, env=env, cwd=ROOT, timeout=1200)
    if proc.returncode != 0:
        raise HarnessError(f"digest subprocess failed: {proc.stderr[-2000:]}")
    line = [ln for ln in proc.stdout.splitlines() if ln.startswith("DIGESTS ")][-1]
    return json.loads(line[len("DIGESTS "):])


def replay_file(prop: str, path: str) -> int:
    mod = load_check(prop)
    data = json.loads(Path(path).read_text())
    out = mod.execute(data["scenario"])
    want = data["clause"]
    hits = [v for v in out.get("violations", []) if v["clause"] == want]
    print(f"REPLAY property={prop} clause={want} digest={out.get('digest')} expected_digest={data.get('digest')}")
    if hits:
        print(f"  reproduced: {hits[0]['detail']}")
        if data.get("digest") and out.get("digest") != data["digest"]:
            print("  WARNING: violation reproduced but trace digest differs")
        print(f"VIOLATION property={prop} replay={path}")
        return EXIT_VIOLATION
    print("  not reproduced on this tree")
    return EXIT_OK


def _verify_replay_fresh(prop: str, path: Path) -> bool:
    env = dict(os.environ)
    # (the hash seed the check itself runs with: a violation that *is* a dependence on string hashing compares this
    # interpreter with fresh ones under other values and has to see the same side here)
    env["PYTHONHASHSEED"] = "0"
    cmd = [sys.executable, str(ROOT / "check"), prop, "--replay", str(path)]
    proc = subprocess.run(cmd, capture_output=True, text=True, env=env, cwd=ROOT, timeout=600)
    return proc.returncode == EXIT_VIOLATION and "VIOLATION" in proc.stdout


# ---------------------------------------------------------------------------
def run_check(prop: str, tier: str, batch_seed: int, workers: int | None = None) -> int:
    t0 = time.time()
    mod = load_check(prop)
    workers = workers or min(16, os.cpu_count() or 1)
    src = assert_real_tree()
    budget = float(os.environ.get("VERIF_BUDGET_S", getattr(mod, "BUDGET", {}).get(tier, 45 if tier == "quick" else 600)))
    n_fixed = mod.COUNT[tier] if isinstance(mod.COUNT[tier], int) else None
    print(f"[{prop}] tier={tier} VERIF_SEED={batch_seed} workers={workers} ropt={src}")

    results: list[dict] = []
    next_index = 0
    chunk = getattr(mod, "CHUNK", 2000)
    while True:
        if n_fixed is not None:
            todo = list(range(next_index, min(n_fixed, next_index + chunk * 4)))
        else:
            todo = list(range(next_index, next_index + chunk))
        if not todo:
            break
        results.extend(run_indices(prop, batch_seed, todo, tier, workers))
        next_index = todo[-1] + 1
        elapsed = time.time() - t0
        if n_fixed is not None and next_index >= n_fixed:
            break
        if elapsed > budget:
            if n_fixed is not None:
                print(f"[{prop}] budget {budget}s reached after {next_index}/{n_fixed} runs")
            break

    harness_errors = [r for r in results if "harness_error" in r]
    if harness_errors:
        print(f"HARNESS-ERROR property={prop} runs={len(harness_errors)}")
        print(harness_errors[0]["harness_error"])
        _write_evidence(prop, mod, tier, batch_seed, results, t0, [], [], harness=len(harness_errors))
        return EXIT_HARNESS

    # determinism self-test: same seeds again, in a fresh interpreter with another hash seed,
    # single worker; full trace digests must agree.
    n_det = min(getattr(mod, "DETERMINISM", {}).get(tier, 48 if tier == "quick" else 400), len(results))
    det_ok = True
    det_mismatch: list[int] = []
    if n_det and not os.environ.get("VERIF_SKIP_DETERMINISM"):
        fresh = _fresh_interpreter_digests(prop, batch_seed, n_det, tier)
        mism = [i for i in range(n_det) if fresh.get(str(i)) != results[i].get("digest")]
        if mism:
            # not fatal yet: a defect that leaks process-global state between runs also shows up here. A
            # violation that is minimised and reproduced in a fresh interpreter stands on its own; without
            # one the batch is reported as a harness error below.
            det_ok = False
            det_mismatch = mism

    # triage violations
    known = findings_mod.load()
    groups: dict[str, list[dict]] = {}
    for r in results:
        for v in r.get("violations", []):
            groups.setdefault(_sig_key(v), []).append({"run": r, "v": v})
    known_seen: dict[str, int] = {}
    unknown: list[tuple[str, list[dict]]] = []
    for key, items in groups.items():
        f = findings_mod.match(known, prop, items[0]["v"])
        if f is not None:
            known_seen[f["id"]] = known_seen.get(f["id"], 0) + len(items)
        else:
            unknown.append((key, items))
    for fid, cnt in sorted(known_seen.items()):
        f = next(x for x in known["findings"] if x["id"] == fid)
        print(f"KNOWN-FINDING: property={prop} {f['id']}: {f['description']} (seen in {cnt} runs)")

    violations_reported = []
    unreplayable: list[str] = []
    max_report = 5
    # group unknown by clause so one defect gives one report
    by_clause: dict[str, list[dict]] = {}
    for key, items in unknown:
        by_clause.setdefault(items[0]["v"]["clause"], []).extend(items)
    for clause, items in sorted(by_clause.items()):
        if len(violations_reported) >= max_report:
            break
        items.sort(key=lambda it: (len(json.dumps(it["run"]["scenario"])), it["run"]["index"]))
        # a violation must reproduce from its scenario alone in this (the controlling) process: runs whose
        # failure depended on what an earlier run left behind in the worker process are skipped here and the
        # next candidate is taken (if none reproduces it is a harness error, never a verdict)
        first = None
        t_try = time.time()
        for cand in items[:2000]:
            if time.time() - t_try > 45:
                break
            try:
                o = mod.execute(cand["run"]["scenario"])
            except Exception:  # noqa: BLE001
                continue
            if any(v["clause"] == clause for v in o.get("violations", [])):
                first = cand
                break
        if first is None:
            # never a verdict by itself; another clause of the same batch may still give a replayable violation
            unreplayable.append(f"clause={clause}: none of the tried candidate scenarios reproduces in isolation "
                                f"(process-global state leaking between runs?)")
            continue
        scn = first["run"]["scenario"]

        def still_fails(cand: dict, clause=clause) -> bool:
            try:
                o = mod.execute(cand)
            except Exception:  # noqa: BLE001
                return False
            return any(v["clause"] == clause and findings_mod.match(known, prop, v) is None
                       for v in o.get("violations", []))

        small, nruns = shrink.minimise(scn, still_fails, getattr(mod, "reductions", None))
        out = mod.execute(small)
        v = next(v for v in out["violations"] if v["clause"] == clause)
        REPLAYS.mkdir(exist_ok=True)
        path = REPLAYS / f"{prop}-{first['run']['seed']:016x}-{H(clause) % 10**6:06d}.json"
        path.write_text(json.dumps({
            "property": prop, "clause": clause, "sig": v.get("sig", {}), "detail": v["detail"],
            "seed": first["run"]["seed"], "index": first["run"]["index"], "batch_seed": batch_seed,
            "tier": tier, "digest": out.get("digest"), "shrink_runs": nruns,
            "original_size": len(json.dumps(scn)), "size": len(json.dumps(small)),
            "runs_with_this_clause": len(items), "scenario": small,
        }, indent=1, default=_json_default))
        fresh_ok = _verify_replay_fresh(prop, path)
        if not fresh_ok:
            # the controlling process has run many scenarios by now: when the code under test keeps process-global state
            # (which is itself what some properties forbid) minimisation may have followed that state instead of the
            # scenario. Fall back to unminimised candidate scenarios, each verified in a fresh interpreter.
            for cand in [first] + [it for it in items[:6] if it is not first]:
                cscn = cand["run"]["scenario"]
                try:
                    cout = mod.execute(cscn)
                except Exception:  # noqa: BLE001
                    continue
                cv = next((x for x in cout.get("violations", []) if x["clause"] == clause), None)
                if cv is None:
                    continue
                path.write_text(json.dumps({
                    "property": prop, "clause": clause, "sig": cv.get("sig", {}), "detail": cv["detail"],
                    "seed": cand["run"]["seed"], "index": cand["run"]["index"], "batch_seed": batch_seed,
                    "tier": tier, "digest": cout.get("digest"), "shrink_runs": 0, "minimised": False,
                    "original_size": len(json.dumps(cscn)), "size": len(json.dumps(cscn)),
                    "runs_with_this_clause": len(items), "scenario": cscn,
                }, indent=1, default=_json_default))
                if _verify_replay_fresh(prop, path):
                    fresh_ok, v = True, cv
                    break
        if not fresh_ok:
            unreplayable.append(f"clause={clause}: violation does not replay in a fresh interpreter: {path}")
            continue
        print(f"  clause={clause} runs={len(items)} detail={v['detail']}")
        print(f"VIOLATION property={prop} replay={path}")
        violations_reported.append({"clause": clause, "replay": str(path), "detail": v["detail"]})

    if unreplayable and not violations_reported:
        for u in unreplayable:
            print(f"HARNESS-ERROR property={prop} {u}")
        _write_evidence(prop, mod, tier, batch_seed, results, t0, [], list(known_seen), harness=len(unreplayable))
        return EXIT_HARNESS
    for u in unreplayable:
        print(f"  note: not reported, no replay: {u}")
    if det_mismatch and not violations_reported:
        print(f"HARNESS-ERROR property={prop} nondeterministic runs: indices {det_mismatch[:10]}")
        _write_evidence(prop, mod, tier, batch_seed, results, t0, [], list(known_seen), harness=len(det_mismatch))
        return EXIT_HARNESS
    _write_evidence(prop, mod, tier, batch_seed, results, t0, violations_reported, list(known_seen),
                    det=n_det if det_ok else 0)
    wall = time.time() - t0
    print(f"[{prop}] runs={len(results)} violations={len(violations_reported)} known={len(known_seen)} wall={wall:.1f}s")
    return EXIT_VIOLATION if violations_reported else EXIT_OK


def _json_default(o: Any):
    import numpy as np

    if isinstance(o, np.ndarray):
        return o.tolist()
    if isinstance(o, (np.floating, np.integer, np.bool_)):
        return o.item()
    return repr(o)


def _write_evidence(prop, mod, tier, batch_seed, results, t0, violations, known_seen, harness=0, det=0) -> None:
    EVIDENCE.mkdir(exist_ok=True)
    good = [r for r in results if "harness_error" not in r]
    nontrivial_keys = {r["key"] for r in good if r.get("nontrivial")}
    probes: dict[str, int] = {}
    fired: dict[str, int] = {}
    strata: dict[str, int] = {}
    sim_time = 0.0
    evals = events = 0
    for r in good:
        for k, v in r.get("probes", {}).items():
            probes[k] = probes.get(k, 0) + int(v)
        for k, v in r.get("fired", {}).items():
            fired[k] = fired.get(k, 0) + int(v)
        if r.get("stratum"):
            strata[r["stratum"]] = strata.get(r["stratum"], 0) + 1
        sim_time += r.get("sim_time", 0.0)
        evals += r.get("evals", 0)
        events += r.get("events", 0)
    wall = time.time() - t0
    samples = []
    for r in good[:3]:
        samples.append({"index": r["index"], "seed": r["seed"], "summary": r.get("summary"),
                        "verdict": "violation" if r.get("violations") else "ok",
                        "scenario": r.get("sample_scenario") or r.get("scenario")})
    stuck = [k for k in getattr(mod, "PROBES", []) if probes.get(k, 0) == 0]
    for k in stuck:
        print(f"[{prop}] WARNING: reach probe '{k}' stuck at zero")
    ev = {
        "property_id": prop,
        "tier": tier,
        "seed": int(batch_seed),
        "level": mod.LEVEL,
        "coverage": {
            "evaluations": len(good),
            "distinct_nontrivial": len(nontrivial_keys),
            "rule": mod.RULE,
            "samples": samples or [{"note": "no run completed"}],
            "runs_per_hour": int(len(good) / max(wall, 1e-9) * 3600),
            "seeds_per_hour": int(len(good) / max(wall, 1e-9) * 3600),
            "simulated_evaluator_calls": evals,
            "simulated_events": events,
            "simulated_time_s": round(sim_time, 3),
            "fault_kinds_fired": fired,
            "reach_probes": probes,
            "reach_probes_stuck_at_zero": stuck,
            "strata": strata,
            "determinism_selftest_runs": det,
            "components": getattr(mod, "COMPONENTS", {}),
            "known_findings_seen": known_seen,
            "violation_reports": violations,
            "harness_errors": harness,
            "exhaustive": False,
        },
        "assumptions": getattr(mod, "ASSUMPTIONS", []),
        "wall_s": round(wall, 2),
        "violations": len(violations),
    }
    (EVIDENCE / f"{prop}.json").write_text(json.dumps(ev, indent=1, default=_json_default))
