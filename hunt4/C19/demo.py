"""C19 demo: plug-in names that differ only in case are treated as different.

A plug-in is registered under a name that contains the lower-case letter
U+0131 (LATIN SMALL LETTER DOTLESS I).  The upper-case / title-case /
swap-case forms of that very name, as produced by Python's own str.upper(),
str.title(), str.swapcase() and str.capitalize(), differ from the registered
name only in case.  The property says that plug-in names are case-insensitive,
so for each of those spellings

  * 'NAME/method' must find the plug-in (get_plugin returns it, is_supported
    is True), and
  * a second add_plugin under that spelling must be rejected as a duplicate.

Exits 1 if any of this fails, 0 otherwise.  Only the public API is used.
"""

from __future__ import annotations

import sys
from typing import Any

from ropt.exceptions import ConfigError
from ropt.plugins import PluginManager
from ropt.plugins.function_estimator.base import FunctionEstimatorPlugin
from ropt.plugins.optimizer.base import OptimizerPlugin
from ropt.plugins.plan.base import PlanHandlerPlugin, PlanStepPlugin
from ropt.plugins.realization_filter.base import RealizationFilterPlugin
from ropt.plugins.sampler.base import SamplerPlugin

BASES = {
    "optimizer": OptimizerPlugin,
    "sampler": SamplerPlugin,
    "realization_filter": RealizationFilterPlugin,
    "function_estimator": FunctionEstimatorPlugin,
    "plan_handler": PlanHandlerPlugin,
    "plan_step": PlanStepPlugin,
}


def make_plugin(base: type) -> Any:  # noqa: ANN401
    class _Plugin(base):  # type: ignore[misc,valid-type]
        def create(self, *args: Any, **kwargs: Any) -> None:  # noqa: ANN401
            return None

        def is_supported(self, method: str) -> bool:
            return method == "m"

    return _Plugin()


def main() -> int:
    failures: list[str] = []

    # "isik" written with the dotless i (Turkish for "light"), all lower case:
    registered = "ışık"
    spellings = {
        "upper": registered.upper(),
        "title": registered.title(),
        "swapcase": registered.swapcase(),
        "capitalize": registered.capitalize(),
    }
    # Sanity: these really are case variants of the registered name according
    # to Python: lower-casing the ASCII part aside, upper() of the registered
    # name is exactly the upper-case spelling, and every spelling has the same
    # upper-case form as the registered name.
    for how, spelling in spellings.items():
        assert spelling != registered, how
        assert spelling.upper() == registered.upper(), how

    for plugin_type, base in BASES.items():
        for how, spelling in spellings.items():
            manager = PluginManager()
            plugin = make_plugin(base)
            manager.add_plugin(plugin_type, registered, plugin)

            # The registered spelling itself works:
            assert manager.get_plugin(plugin_type, f"{registered}/m") is plugin

            # 1. Lookup under the other-case spelling:
            try:
                found = manager.get_plugin(plugin_type, f"{spelling}/m")
            except ConfigError as exc:
                failures.append(
                    f"[{plugin_type}] registered {registered!r}; "
                    f"get_plugin({spelling!r} + '/m') [str.{how}() of the "
                    f"registered name] raised ConfigError: {exc}"
                )
            else:
                if found is not plugin:
                    failures.append(
                        f"[{plugin_type}] get_plugin({spelling!r} + '/m') "
                        f"returned another plug-in: {found!r}"
                    )
            if not manager.is_supported(plugin_type, f"{spelling}/m"):
                failures.append(
                    f"[{plugin_type}] registered {registered!r}; "
                    f"is_supported({spelling!r} + '/m') is False"
                )

            # 2. Registration under the other-case spelling is a duplicate:
            try:
                manager.add_plugin(plugin_type, spelling, make_plugin(base))
            except ConfigError:
                pass
            else:
                failures.append(
                    f"[{plugin_type}] registered {registered!r}; a second "
                    f"add_plugin under {spelling!r} [str.{how}()] was accepted "
                    "instead of being rejected as a duplicate; names now held: "
                    f"{[name for name, _ in manager.plugins(plugin_type)][-2:]}"
                )

    # The same in the other direction: registered in upper case, requested in
    # the lower-case spelling whose upper() is the registered name.
    manager = PluginManager()
    plugin = make_plugin(OptimizerPlugin)
    manager.add_plugin("optimizer", registered.upper(), plugin)
    if not manager.is_supported("optimizer", f"{registered}/m"):
        failures.append(
            f"[optimizer] registered {registered.upper()!r}; "
            f"is_supported({registered!r} + '/m') is False although "
            f"{registered!r}.upper() == {registered.upper()!r}"
        )

    if failures:
        print(f"C19 violated ({len(failures)} failures); first ones:")
        for line in failures[:8]:
            print("  -", line)
        return 1
    print("C19 holds for names containing U+0131")
    return 0


if __name__ == "__main__":
    sys.exit(main())
