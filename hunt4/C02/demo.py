"""C02 counterexample: merged gradient of IDENTICAL affine realizations.

All realizations are the same affine function f(x) = s.x + o, so the ensemble
mean is f itself for any realization weights, and its exact gradient is s (zero
for the fixed variable).  Every realization gets its own, well conditioned set
of perturbations (more perturbations than free variables, smallest squared
singular value of each perturbation-difference matrix >= 1% of the total), there
are no failures, no filters, no transforms.  With gradient.merge_realizations
the property promises the exact gradient "whenever realizations share
perturbations or are identical".

With non-uniform realization weights the library reports a vector that is not
even parallel to s.  The check below deliberately ignores any overall scale
factor, so the already known 1/(number of contributing realizations) scaling of
the merged gradient does NOT make this script fail: only the direction counts.

Exit code 1: property violated (current sources).  Exit code 0: gradient is
(a positive multiple of) the exact gradient.
"""

import sys

import numpy as np

from ropt.evaluator import EvaluatorContext, EvaluatorResult
from ropt.plan import BasicOptimizer
from ropt.results import GradientResults

SLOPE_OBJ = np.array([1.0, -2.0, 5.0, 0.5])  # slope w.r.t. x0..x3 (x2 is fixed)
SLOPE_CON = np.array([-0.5, 1.5, 7.0, 2.0])
MASK = np.array([True, True, False, True])
REL_TOL = 1e-6


def evaluator(variables: np.ndarray, _: EvaluatorContext) -> EvaluatorResult:
    # Every realization is the same affine function.
    return EvaluatorResult(
        objectives=(variables @ SLOPE_OBJ + 3.0)[:, np.newaxis],
        constraints=(variables @ SLOPE_CON - 1.0)[:, np.newaxis],
    )


def first_gradient(weights: list[float], *, shared: bool) -> GradientResults:
    config = {
        "variables": {"initial_values": [0.1, 0.2, 0.3, 0.4], "mask": MASK},
        "nonlinear_constraints": {"lower_bounds": [-np.inf], "upper_bounds": [100.0]},
        "realizations": {"weights": weights},
        "samplers": [{"method": "norm", "shared": shared}],
        "gradient": {
            "number_of_perturbations": 5,
            "perturbation_magnitudes": 0.1,
            "merge_realizations": True,
            "seed": 4,
        },
        "optimizer": {"method": "slsqp", "max_iterations": 1, "max_functions": 3},
    }
    found: list[GradientResults] = []

    def callback(results: tuple) -> None:
        found.extend(item for item in results if isinstance(item, GradientResults))

    BasicOptimizer(config, evaluator).set_results_callback(callback).run()
    assert found, "no gradient results were reported"
    assert found[0].gradients is not None
    return found[0]


def conditioning(result: GradientResults) -> float:
    # Smallest squared singular value / total, worst realization.
    diffs = result.evaluations.perturbed_variables - result.evaluations.variables
    assert np.all(diffs[..., ~MASK] == 0.0)
    worst = np.inf
    for matrix in diffs[..., MASK]:
        sigma2 = np.linalg.svd(matrix, compute_uv=False) ** 2
        assert sigma2.size == MASK.sum()
        worst = min(worst, sigma2.min() / sigma2.sum())
    return float(worst)


def direction_error(gradient: np.ndarray, exact: np.ndarray) -> tuple[float, float]:
    scale = float(gradient @ exact / (exact @ exact))
    residual = float(np.linalg.norm(gradient - scale * exact) / np.linalg.norm(exact))
    return scale, residual


def check(label: str, weights: list[float], *, shared: bool) -> bool:
    result = first_gradient(weights, shared=shared)
    cond = conditioning(result)
    print(f"--- {label}: weights={weights}, shared perturbations={shared}")
    print(f"    worst conditioning (min sigma^2 / total) = {cond:.4f} (needs >= 0.01)")
    if cond < 0.01:
        print("    conditioning bound missed: trivial case, not counted")
        return True
    ok = True
    for name, gradient, slope in (
        ("objective ", result.gradients.objectives[0], SLOPE_OBJ),
        ("constraint", result.gradients.constraints[0], SLOPE_CON),
    ):
        exact = np.where(MASK, slope, 0.0)
        scale, residual = direction_error(gradient, exact)
        print(f"    {name}: reported {gradient}")
        print(f"                exact    {exact}")
        print(
            f"                best multiple of the exact gradient: {scale:.6f}, "
            f"relative residual {residual:.3e}"
        )
        if np.any(gradient[~MASK] != 0.0):
            print("                entry of the fixed variable is not zero")
            ok = False
        if not (scale > 0 and residual <= REL_TOL):
            ok = False
    return ok


def main() -> int:
    # Controls: these only show the known overall scaling (factor 1/3).
    control1 = check("control, uniform weights", [1.0, 1.0, 1.0], shared=False)
    control2 = check("control, shared perturbations", [0.7, 0.2, 0.1], shared=True)
    # The counterexample: identical realizations, non-uniform weights.
    target = check("counterexample", [0.7, 0.2, 0.1], shared=False)
    print()
    if not (control1 and control2):
        print("unexpected: a control case is not parallel to the exact gradient")
        return 1
    if not target:
        print(
            "VIOLATION: all realizations are the same affine function and every\n"
            "realization has a well conditioned perturbation set, but the merged\n"
            "gradient is not a multiple of the exact gradient s: the realization\n"
            "weights distort its direction."
        )
        return 1
    print("ok: the merged gradient of identical realizations has the exact direction")
    return 0


if __name__ == "__main__":
    sys.exit(main())
