"""Secondary C02 observation: stale function values from the gradient cache.

EnsembleEvaluator.calculate(x, compute_gradients=True, compute_functions=False)
re-uses the function values of the previous function evaluation when
np.allclose(cached_x, x, rtol=0, atol=1e-15).  The tolerance is absolute, so in
a variable space of magnitude ~1e-15 (no scaling, or a VariableScaler with large
scales) a different point is taken for the cached one: the function differences
are f(x1 + p) - f(x0) while the variable differences are (x1 + p) - x1, and the
gradient of an affine ensemble is no longer exact.  Exit 1 = violated.
"""
import sys

import numpy as np

from ropt.config.enopt import EnOptConfig
from ropt.ensemble_evaluator import EnsembleEvaluator
from ropt.evaluator import EvaluatorResult
from ropt.plugins import PluginManager

SLOPES = np.array([[1.0, -2.0], [3.0, 0.5]])  # one row per realization


def evaluator(variables, context):
    values = np.einsum("ij,ij->i", SLOPES[context.realizations], variables)
    return EvaluatorResult(objectives=values[:, np.newaxis])


config = EnOptConfig.model_validate(
    {
        "variables": {"initial_values": [1e-15, 2e-15]},
        "realizations": {"weights": [1.0, 1.0]},
        "gradient": {"number_of_perturbations": 4, "perturbation_magnitudes": 1e-15},
    }
)
exact = SLOPES.mean(axis=0)
x0 = np.array([1e-15, 2e-15])
status = 0
for x1 in (x0, x0 + np.array([5e-16, -7e-16])):
    ensemble = EnsembleEvaluator(config, None, evaluator, PluginManager())
    ensemble.calculate(x0, compute_functions=True, compute_gradients=False)
    (result,) = ensemble.calculate(x1, compute_functions=False, compute_gradients=True)
    gradient = result.gradients.objectives[0]
    print("function at", x0, "gradient at", x1, "->", gradient, "exact", exact)
    if not np.allclose(gradient, exact, rtol=1e-6):
        print("VIOLATION: gradient computed with the function values of another point")
        status = 1
sys.exit(status)
