"""C20 counterexample: a killed optimizer process is reported as a normal completion.

The external optimizer decides that the optimizer process completed normally
from its wait status only (`process.poll()` / `process.returncode == 0`); the
protocol has no message that says "the optimization finished".  If the wait
status of the child is not available - which is the case when the process that
runs the plan has SIGCHLD set to SIG_IGN (set by the application itself, or
inherited from the program that started it; ignored signals survive exec) -
`subprocess.Popen.poll()` reports a return code of 0 for a child that is gone.
A SIGKILL of the optimizer process after a few evaluations is then reported as
OptimizerExitCode.OPTIMIZER_STEP_FINISHED, the normal-completion code, and the
truncated run is indistinguishable from a converged one.

Exit code 1: the property is violated (printed), exit code 0: it holds.
"""

from __future__ import annotations

import os
import signal
import sys
import time

import numpy as np

# The runner script lives next to the interpreter:
os.environ["PATH"] = os.path.dirname(sys.executable) + os.pathsep + os.environ["PATH"]

from ropt.enums import OptimizerExitCode  # noqa: E402
from ropt.evaluator import EvaluatorResult  # noqa: E402
from ropt.plan import BasicOptimizer  # noqa: E402

CONFIG = {
    "variables": {
        "initial_values": [0.0, 0.0, 0.1],
        "lower_bounds": -2.0,
        "upper_bounds": 2.0,
    },
    "optimizer": {"method": "external/slsqp", "max_iterations": 5, "options": {}},
    "objectives": {"weights": [0.75, 0.25]},
    "gradient": {"perturbation_magnitudes": 0.01},
}
KILL_AT = 3  # kill the optimizer process during this evaluation


def optimizer_processes() -> list[int]:
    """The live optimizer processes that were started by this process."""
    pids = []
    for entry in os.listdir("/proc"):
        if not entry.isdigit():
            continue
        try:
            with open(f"/proc/{entry}/cmdline") as fp:
                args = fp.read().split("\0")
            with open(f"/proc/{entry}/stat") as fp:
                state = fp.read().rsplit(")", 1)[1].split()[0]
        except OSError:
            continue
        if (
            any("ropt_plugin_optimizer" in arg for arg in args)
            and str(os.getpid()) in args
            and state != "Z"
        ):
            pids.append(int(entry))
    return pids


def run(kill_at: int | None) -> tuple[str, int, int]:
    count = 0
    killed = 0

    def evaluator(variables, _):  # noqa: ANN001, ANN202
        nonlocal count, killed
        count += 1
        if count == kill_at:
            for pid in optimizer_processes():
                os.kill(pid, signal.SIGKILL)
                killed += 1
            # Wait until the process is really gone:
            while optimizer_processes():
                time.sleep(0.01)
        objectives = np.stack(
            [
                ((variables - 0.5) ** 2).sum(axis=1),
                ((variables + 1.5) ** 2).sum(axis=1),
            ],
            axis=1,
        )
        return EvaluatorResult(objectives=objectives)

    optimizer = BasicOptimizer(CONFIG, evaluator)
    try:
        optimizer.run()
    except Exception as exc:  # noqa: BLE001
        return f"error: {type(exc).__name__}: {exc}", count, killed
    return f"exit code: {optimizer.exit_code.name}", count, killed


def main() -> int:
    # Reference: nothing is killed.
    outcome, full_count, _ = run(None)
    print(f"undisturbed run            : {outcome}, {full_count} evaluations")
    if outcome != f"exit code: {OptimizerExitCode.OPTIMIZER_STEP_FINISHED.name}":
        print("unexpected: the undisturbed run did not complete normally")
        return 2
    if full_count <= KILL_AT:
        print("unexpected: the undisturbed run is too short for this demonstration")
        return 2

    # Control: default SIGCHLD disposition, the death is detected.
    outcome, count, killed = run(KILL_AT)
    print(f"killed, default SIGCHLD    : {outcome}, {count} evaluations, killed={killed}")

    # The same kill, in a process that does not collect the status of its children:
    signal.signal(signal.SIGCHLD, signal.SIG_IGN)
    outcome, count, killed = run(KILL_AT)
    print(f"killed, SIGCHLD ignored    : {outcome}, {count} evaluations, killed={killed}")
    leftover = optimizer_processes()

    if killed != 1:
        print("unexpected: the optimizer process was not found, nothing was killed")
        return 2
    if leftover:
        print(f"VIOLATION: optimizer processes left running: {leftover}")
        return 1
    if outcome == f"exit code: {OptimizerExitCode.OPTIMIZER_STEP_FINISHED.name}":
        print(
            "VIOLATION: the optimizer process was killed with SIGKILL during "
            f"evaluation {KILL_AT} (the complete run needs {full_count} evaluations), "
            "but the run ended without an error and with the normal-completion "
            "code OPTIMIZER_STEP_FINISHED."
        )
        return 1
    print("OK: the death of the optimizer process was not reported as a success.")
    return 0


if __name__ == "__main__":
    sys.exit(main())
