"""C15 counterexample: the parent link set for a nested run is never released.

Two plans A and B share one OptimizerContext. Each has an optimizer step, a
recording handler and a function that runs its step, so each of them can be
run on its own or be used as the nested plan of the other one.

  run 1:  A.run_step(step_a, nested_optimization=B)      (A outer, B inner)
  run 2:  B.run_step(step_b, nested_optimization=A)      (B outer, A inner)

Both runs are ordinary nested plan runs. Run 2 is checked against the property:

  * the events of every step are well bracketed (START ... FINISHED),
  * every event is delivered exactly once to each handler of the emitting
    plan and of its ancestor plans (in run 2: B is the root, A is nested in B)
    and then to the observers, handlers first,
  * the run does not blow up.

As a control exactly the same run 2 is first done with fresh plans that were
not used before: it passes. After run 1 it fails, because run 1 left
B._parent == A behind: the START event of B's (outer) step is delivered to the
handlers of the *nested* plan A, and as soon as A becomes B's nested plan the
links form a cycle, one event is delivered hundreds of times to both handlers,
never reaches the observers, and the run dies with a RecursionError without any
FINISHED event.

Exit code 1: property violated (current sources); 0: behaves as stated.
"""

from __future__ import annotations

import sys
from typing import Any

import numpy as np

from ropt.enums import EventType
from ropt.evaluator import EvaluatorResult
from ropt.plan import Event, OptimizerContext, Plan
from ropt.plugins import PluginManager
from ropt.plugins.plan.base import PlanHandlerPlugin, ResultHandler

START = {EventType.START_OPTIMIZER_STEP, EventType.START_EVALUATOR_STEP}
FINISH = {EventType.FINISHED_OPTIMIZER_STEP, EventType.FINISHED_EVALUATOR_STEP}


class Recorder(ResultHandler):
    def __init__(self, plan: Plan, *, log: list, label: str) -> None:
        super().__init__(plan)
        self._log = log
        self._label = label

    def handle_event(self, event: Event) -> None:
        self._log.append((self._label, event))


class RecorderPlugin(PlanHandlerPlugin):
    def create(self, name: str, plan: Plan, **kwargs: Any) -> ResultHandler:
        return Recorder(plan, **kwargs)

    def is_supported(self, method: str) -> bool:
        return method.lower() == "recorder"


def evaluator(variables, context):  # noqa: ANN001, ARG001
    objectives = ((variables - np.array([0.5, -0.3])) ** 2).sum(axis=1)
    return EvaluatorResult(objectives=objectives[:, np.newaxis])


def config(mask: list[bool]) -> dict[str, Any]:
    return {
        "variables": {"initial_values": [0.0, 0.1], "mask": mask},
        "objectives": {"weights": [1.0]},
        "optimizer": {"method": "slsqp", "max_functions": 2},
        "gradient": {"perturbation_magnitudes": 0.01, "number_of_perturbations": 1},
    }


CONFIG = {"A": config([True, False]), "B": config([False, True])}


def build() -> tuple[dict[str, Plan], dict[str, Any], list]:
    """Two plans on one context, each usable alone or as a nested plan."""
    log: list = []
    manager = PluginManager()
    manager.add_plugin("plan_handler", "demo", RecorderPlugin())
    context = OptimizerContext(evaluator=evaluator, plugin_manager=manager)
    for event_type in EventType:
        context.add_observer(event_type, lambda event: log.append(("observer", event)))
    plans: dict[str, Plan] = {}
    steps: dict[str, Any] = {}
    for name in ("A", "B"):
        plan = Plan(context)
        plan.add_handler("demo/recorder", log=log, label=f"handler-{name}")
        step = plan.add_step("optimizer")
        tracker = plan.add_handler("tracker", sources={step})

        def function(plan, variables, *, _step=step, _tracker=tracker, _name=name):  # noqa: ANN001, ANN202
            plan.run_step(_step, config=CONFIG[_name], variables=variables)
            return plan.get(_tracker, "results")

        plan.add_function(function)
        plans[name] = plan
        steps[name] = step
    return plans, steps, log


def run_nested(plans, steps, outer: str, inner: str) -> str | None:  # noqa: ANN001
    try:
        plans[outer].run_step(
            steps[outer], config=CONFIG[outer], nested_optimization=plans[inner]
        )
    except BaseException as exc:  # noqa: BLE001
        return f"the run raised {type(exc).__name__}"
    return None


def check(log: list, steps, outer: str, inner: str, error: str | None) -> list[str]:  # noqa: ANN001
    """Check the log of one nested run (outer is the root, inner is nested)."""
    problems = [] if error is None else [error]
    expected = {
        steps[outer]: [f"handler-{outer}", "observer"],
        steps[inner]: [f"handler-{inner}", f"handler-{outer}", "observer"],
    }
    events: list[Event] = []
    receivers: list[list[str]] = []
    for label, event in log:
        for idx, known in enumerate(events):
            if known is event:
                receivers[idx].append(label)
                break
        else:
            events.append(event)
            receivers.append([label])
    for event, got in zip(events, receivers, strict=True):
        who = "outer" if event.source == steps[outer] else "inner"
        if got != expected[event.source]:
            shown = got if len(got) < 8 else [*got[:6], f"... ({len(got)} deliveries)"]
            problems.append(
                f"{event.event_type.name} of the {who} step: delivered to {shown}, "
                f"expected exactly {expected[event.source]}"
            )
    for source, who in ((steps[outer], "outer"), (steps[inner], "inner")):
        running = False
        for event in events:
            if event.source != source:
                continue
            if event.event_type in START:
                if running:
                    problems.append(f"{who} step: START while running")
                running = True
            elif event.event_type in FINISH:
                if not running:
                    problems.append(f"{who} step: FINISHED without START")
                running = False
            elif not running:
                problems.append(f"{who} step: {event.event_type.name} outside START/FINISHED")
        if running:
            problems.append(f"{who} step: START event without a FINISHED event")
    return problems


def main() -> int:
    # Control: run 2 on fresh plans.
    plans, steps, log = build()
    error = run_nested(plans, steps, "B", "A")
    control = check(log, steps, "B", "A", error)
    print(f"control (B outer, A nested, fresh plans): {len(log)} deliveries, "
          f"{'OK' if not control else control}")

    # The same run, after the plans have been used the other way round.
    plans, steps, log = build()
    error = run_nested(plans, steps, "A", "B")
    first = check(log, steps, "A", "B", error)
    print(f"run 1   (A outer, B nested): {len(log)} deliveries, "
          f"{'OK' if not first else first}")
    del log[:]
    error = run_nested(plans, steps, "B", "A")
    second = check(log, steps, "B", "A", error)
    print(f"run 2   (B outer, A nested, same plans): {len(log)} deliveries")
    for problem in second[:8]:
        print("   VIOLATION:", problem)
    if len(second) > 8:
        print(f"   ... and {len(second) - 8} more")

    if control or first:
        print("unexpected: the control or the first run failed")
        return 1
    if second:
        print("C15 violated: the parent link of run 1 was carried into run 2")
        return 1
    print("C15 holds for both runs")
    return 0


if __name__ == "__main__":
    sys.exit(main())
