"""C10 demo: the perturbed vectors reported by ropt are not x + magnitude * sample (post-processed)
when the evaluator writes to the array it is given.

In the gradient-only evaluation path (the normal path of e.g. SLSQP: function first, gradient in a
second call) the evaluator receives a writable *view* of the library's own perturbed-variable
array. Whatever the evaluator does to its input in place (snapping a control to a grid, a unit
conversion, clipping, ...) is written into the perturbed vectors that ropt afterwards reports in
GradientResults.evaluations.perturbed_variables and uses as delta_x of the gradient estimate. In
the other two evaluation paths (function only, function + gradient) the evaluator gets a copy,
so the very same run with optimizer.speculative = True reports the correct vectors.

Only the public API is used. Exit code 1: property violated, 0: behaves as the property says.
"""

import sys

import numpy as np

from ropt.enums import BoundaryType, EventType, PerturbationType
from ropt.evaluator import EvaluatorResult
from ropt.plan import OptimizerContext, Plan
from ropt.plugins import PluginManager
from ropt.plugins.sampler.base import Sampler, SamplerPlugin
from ropt.results import GradientResults

# ---------------------------------------------------------------- the quantified quantities
X = np.array([2.3, 0.25, -1.5])  # current variables, inside the bounds
LOWER = np.array([0.0, 0.0, -np.inf])
UPPER = np.array([5.0, 1.0, np.inf])
MAGNITUDES = np.array([0.1, 0.2, 0.5])  # var 0 and 1: fraction of the range, var 2: absolute
PTYPES = [PerturbationType.RELATIVE, PerturbationType.RELATIVE, PerturbationType.ABSOLUTE]
BTYPES = [BoundaryType.TRUNCATE_BOTH, BoundaryType.MIRROR_BOTH, BoundaryType.NONE]
SAMPLES = np.array(  # (realization, perturbation, variable), injected deterministically
    [
        [[1.0, 1.0, 1.0], [-0.4, -2.0, 3.0], [9.0, 4.5, -1.0]],
        [[0.3, -0.5, 0.2], [-7.0, 0.1, 0.0], [0.5, 6.0, 8.0]],
    ]
)
R, P, V = SAMPLES.shape


def expected_perturbed(x: np.ndarray) -> np.ndarray:
    """Independent oracle, straight from the statement of the property."""
    out = np.empty((R, P, V))
    for r in range(R):
        for p in range(P):
            for v in range(V):
                mag = MAGNITUDES[v]
                if PTYPES[v] == PerturbationType.RELATIVE:
                    mag = mag * (UPPER[v] - LOWER[v])
                val = x[v] + mag * SAMPLES[r, p, v]
                if BTYPES[v] == BoundaryType.TRUNCATE_BOTH:
                    val = min(max(val, LOWER[v]), UPPER[v])
                elif BTYPES[v] == BoundaryType.MIRROR_BOTH:
                    for _ in range(100):
                        if val < LOWER[v]:
                            val = 2 * LOWER[v] - val
                        elif val > UPPER[v]:
                            val = 2 * UPPER[v] - val
                        else:
                            break
                out[r, p, v] = val
    return out


class InjectedSampler(Sampler):
    def __init__(self, enopt_config, sampler_index, mask, rng) -> None:  # noqa: ANN001
        pass

    def generate_samples(self) -> np.ndarray:
        return SAMPLES.copy()


class InjectedSamplerPlugin(SamplerPlugin):
    def create(self, enopt_config, sampler_index, mask, rng) -> InjectedSampler:  # noqa: ANN001
        return InjectedSampler(enopt_config, sampler_index, mask, rng)

    def is_supported(self, method: str) -> bool:
        return method.lower() == "injected"


def run(*, speculative: bool) -> tuple[list[np.ndarray], list[GradientResults]]:
    received: list[np.ndarray] = []

    def evaluator(variables, context):  # noqa: ANN001, ANN202
        if context.perturbations is not None:
            sel = context.perturbations >= 0
            received.append(variables[sel].copy().reshape(R, P, V))
        objectives = np.sum((variables - 0.5) ** 2, axis=1)[:, np.newaxis]
        # The simulator behind this evaluator takes the first control on an integer grid and
        # the evaluator snaps it in place. Nothing in the Evaluator protocol forbids this:
        variables[:, 0] = np.round(variables[:, 0])
        return EvaluatorResult(objectives=objectives)

    plugin_manager = PluginManager()
    plugin_manager.add_plugin("sampler", "injected", InjectedSamplerPlugin(), prioritize=True)
    context = OptimizerContext(evaluator=evaluator, plugin_manager=plugin_manager)
    reported: list[GradientResults] = []
    context.add_observer(
        EventType.FINISHED_EVALUATION,
        lambda event: reported.extend(
            item for item in event.data["results"] if isinstance(item, GradientResults)
        ),
    )
    plan = Plan(context)
    step = plan.add_step("optimizer")
    plan.run_step(
        step,
        config={
            "variables": {"initial_values": X, "lower_bounds": LOWER, "upper_bounds": UPPER},
            "optimizer": {
                "method": "slsqp",
                "max_functions": 2,
                "speculative": speculative,
                "options": {"maxiter": 1},
            },
            "realizations": {"weights": [1.0] * R},
            "gradient": {
                "number_of_perturbations": P,
                "perturbation_magnitudes": MAGNITUDES,
                "perturbation_types": PTYPES,
                "boundary_types": BTYPES,
            },
            "samplers": [{"method": "injected"}],
        },
    )
    return received, reported


def main() -> int:
    failed = False
    for speculative in (False, True):
        received, reported = run(speculative=speculative)
        if not reported:
            print("no gradient evaluation took place, the demo cannot decide")
            return 2
        gradient = reported[0]
        current = gradient.evaluations.variables
        assert np.all((current >= LOWER) & (current <= UPPER))
        expected = expected_perturbed(current)
        ok_received = np.allclose(received[0], expected, rtol=0, atol=1e-12)
        ok_reported = np.allclose(
            gradient.evaluations.perturbed_variables, expected, rtol=0, atol=1e-12
        )
        print(f"--- optimizer.speculative = {speculative}")
        print("vectors handed to the evaluator follow the property:", ok_received)
        print("vectors reported in GradientResults follow the property:", ok_reported)
        if not ok_reported:
            print("current variables:", current)
            print("expected perturbed variables (variable 0):")
            print(expected[..., 0])
            print("reported perturbed variables (variable 0):")
            print(gradient.evaluations.perturbed_variables[..., 0])
        failed = failed or not ok_received or not ok_reported
    if failed:
        print(
            "\nVIOLATION: the reported perturbed vectors are not x + magnitude * sample "
            "(post-processed by the boundary type); they were overwritten through the array "
            "view that the gradient-only path hands to the evaluator."
        )
        return 1
    print("\nOK: all perturbed vectors follow the property.")
    return 0


if __name__ == "__main__":
    sys.exit(main())
