"""C05 counterexample: sort filter with a multi-objective sort key and exact ties.

Realizations that return *identical* values for the objectives used as sort
key have, by definition, the same sort value (the weighted sum of those
objectives). The library ranks tied realizations by realization index (stable
sort, see the comment in `_sort_and_select`), so with a window [first, last]
the tied realizations first..last (in index order) must get their configured
weights.

On the unmodified sources the weighted sum is computed with
`np.dot(objectives[..., sort], weights[sort])` on a Fortran-ordered array
(the result of the fancy index), which makes BLAS use different instruction
sequences for the rows in a SIMD block and for the remaining rows. Identical
rows then get sort values that differ in the last bit, depending on the
*position* of the realization in the ensemble, the tie is broken by this
rounding noise and the window selects other realizations than the ones ranked
first..last.

The script uses only the public API (Plan / evaluator step). It exits 1 if a
violation is found and 0 otherwise.
"""

from __future__ import annotations

import itertools
import sys

import numpy as np

from ropt.enums import EventType
from ropt.evaluator import EvaluatorResult
from ropt.plan import OptimizerContext, Plan
from ropt.results import FunctionResults


def make_evaluator(keys: tuple[float, float]):
    # Objectives 0 and 1 (the sort key) are the same for every realization,
    # objective 2 identifies the realization:
    def evaluator(variables, context):
        objectives = np.zeros((variables.shape[0], 3))
        objectives[:, 0] = keys[0]
        objectives[:, 1] = keys[1]
        objectives[:, 2] = context.realizations
        return EvaluatorResult(objectives=objectives)

    return evaluator


def run(n: int, keys: tuple[float, float], obj_weights, first: int, last: int):
    config = {
        "variables": {"initial_values": [0.0]},
        "objectives": {
            "weights": obj_weights,
            # the filter is applied to the third objective only:
            "realization_filters": [-1, -1, 0],
        },
        "realizations": {"weights": [1.0] * n, "realization_min_success": 1},
        "realization_filters": [
            {
                "method": "sort-objective",
                "options": {"sort": [0, 1], "first": first, "last": last},
            }
        ],
    }
    results: list[FunctionResults] = []
    context = OptimizerContext(evaluator=make_evaluator(keys))
    context.add_observer(
        EventType.FINISHED_EVALUATION,
        lambda event: results.extend(
            item for item in event.data["results"] if isinstance(item, FunctionResults)
        ),
    )
    plan = Plan(context)
    step = plan.add_step("evaluator")
    plan.run_step(step, config=config)
    assert len(results) == 1
    return results[0]


def expected_weights(n, keys, obj_weights, first, last):
    # Independent oracle: the sort value of each realization is computed on its
    # own, identical inputs give identical values, ties are ranked by index.
    w = np.asarray(obj_weights, dtype=float)
    w = w / w.sum()
    sort_values = [w[0] * keys[0] + w[1] * keys[1] for _ in range(n)]
    order = sorted(range(n), key=lambda r: (sort_values[r], r))
    expected = np.zeros(n)
    for rank, r in enumerate(order):
        if first <= rank <= last:
            expected[r] = 1.0 / n
    return expected


def main() -> int:
    values = [0.1, 0.2, 0.3, 0.6, 0.7, 0.9, 1.1, 1.3, 2.3, 3.7]
    weight_sets = [[0.75, 0.25, 1.0], [0.7, 0.3, 1.0], [1.0, 2.0, 1.0], [3.0, 2.0, 1.0]]
    violations = []
    for n, obj_weights, keys in itertools.product(
        (5, 6, 7, 9), weight_sets, itertools.product(values, repeat=2)
    ):
        first, last = 0, 0
        result = run(n, keys, obj_weights, first, last)
        expected = expected_weights(n, keys, obj_weights, first, last)
        got = result.realizations.objective_weights[2]
        if not np.array_equal(got, expected):
            violations.append((n, obj_weights, keys, got, expected, result))
    if not violations:
        print("no violation found: tied realizations are ranked by index")
        return 0

    print(f"{len(violations)} violating configurations, the first one:")
    n, obj_weights, keys, got, expected, result = violations[0]
    print(f"  ensemble size {n}, objective weights {obj_weights}")
    print(f"  every realization returns objectives 0 and 1 = {keys} (sort key [0, 1])")
    print("  all sort values are therefore tied, window [0, 0] must select realization 0")
    print(f"  expected weights for objective 2: {expected}")
    print(f"  reported weights for objective 2: {got}")
    print(
        "  value of objective 2 (= index of the selected realization): "
        f"{result.functions.objectives[2]} (expected 0.0)"
    )
    return 1


if __name__ == "__main__":
    sys.exit(main())
