"""C09 counterexample: bounds of a masked-out variable reach the optimizer back-end.

Variable 1 is excluded by the mask (fixed at 0.5, inside its bounds [0, 1]);
the free variables 0 and 2 are unbounded. The optimization algorithm should
only ever see the free variables, i.e. an unconstrained two-variable problem,
which BFGS / CG / Newton-CG / COBYLA can solve. The reference run (oracle) is
the very same problem in which the bounds of the fixed variable are left out:
for the algorithm nothing changes, so both runs must send identical vectors
to the evaluator, with the fixed variable at 0.5 in every one of them.

On the unmodified sources the run with the bounded fixed variable is refused:
the back-end decides on the bounds of *all* variables, fixed ones included.

A second part shows the same thing in a nested plan: the outer optimization
(L-BFGS-B) owns the bounded variable, the inner optimization (BFGS) owns the
complementary, unbounded variable. The inner step is refused because of the
bounds of the variable that it holds fixed.
"""

import sys
from copy import deepcopy

import numpy as np

from ropt.evaluator import EvaluatorResult
from ropt.plan import BasicOptimizer, OptimizerContext, Plan

FIXED_VALUE = 0.5


def make_evaluator(sent):
    def evaluator(variables, context):
        sent.append(variables.copy())
        target = np.array([0.3, -0.2, 0.8])
        return EvaluatorResult(
            objectives=((variables - target) ** 2).sum(axis=1, keepdims=True)
        )

    return evaluator


def config(method, *, bounds_on_fixed):
    variables = {
        "initial_values": [0.0, FIXED_VALUE, 0.1],
        "mask": [True, False, True],
    }
    if bounds_on_fixed:
        variables["lower_bounds"] = [-np.inf, 0.0, -np.inf]
        variables["upper_bounds"] = [np.inf, 1.0, np.inf]
    return {
        "variables": variables,
        "optimizer": {"method": method, "max_functions": 6},
        "gradient": {"number_of_perturbations": 4, "perturbation_magnitudes": 0.01},
    }


def run(method, *, bounds_on_fixed):
    sent = []
    BasicOptimizer(config(method, bounds_on_fixed=bounds_on_fixed), make_evaluator(sent)).run()
    return np.vstack(sent)


def part1():
    failures = []
    for method in ("bfgs", "cg", "newton-cg", "cobyla"):
        reference = run(method, bounds_on_fixed=False)
        assert np.all(reference[:, 1] == FIXED_VALUE)
        try:
            vectors = run(method, bounds_on_fixed=True)
        except Exception as exc:  # noqa: BLE001
            failures.append(
                f"{method}: fixed variable 1 has bounds [0, 1], free variables are "
                f"unbounded -> {type(exc).__name__}: {exc}"
            )
            continue
        if not np.all(vectors[:, 1] == FIXED_VALUE):
            failures.append(f"{method}: the fixed variable moved")
        elif vectors.shape != reference.shape or not np.array_equal(vectors, reference):
            failures.append(
                f"{method}: the algorithm behaved differently because of the "
                "bounds of a fixed variable"
            )
    return failures


def part2():
    # Nested plan: outer owns variable 0 (bounded), inner owns variable 1 (unbounded).
    base = {
        "variables": {
            "initial_values": [0.2, 0.0],
            "lower_bounds": [0.0, -np.inf],
            "upper_bounds": [1.0, np.inf],
        },
        "gradient": {"number_of_perturbations": 3, "perturbation_magnitudes": 0.01},
    }
    outer_config = deepcopy(base)
    outer_config["variables"]["mask"] = [True, False]
    outer_config["optimizer"] = {"method": "l-bfgs-b", "max_functions": 3}
    inner_config = deepcopy(base)
    inner_config["variables"]["mask"] = [False, True]
    inner_config["optimizer"] = {"method": "bfgs", "max_functions": 3}

    sent = []

    def evaluator(variables, context):
        sent.append(variables.copy())
        return EvaluatorResult(
            objectives=((variables - np.array([0.7, -0.4])) ** 2).sum(
                axis=1, keepdims=True
            )
        )

    context = OptimizerContext(evaluator=evaluator)
    inner_plan = Plan(context)
    inner_step = inner_plan.add_step("optimizer")
    inner_tracker = inner_plan.add_handler("tracker", sources={inner_step})

    def inner_function(plan, variables):
        plan.set(inner_tracker, "results", None)
        plan.run_step(inner_step, config=inner_config, variables=variables)
        return plan.get(inner_tracker, "results")

    inner_plan.add_function(inner_function)
    outer_plan = Plan(context)
    outer_step = outer_plan.add_step("optimizer")
    try:
        outer_plan.run_step(
            outer_step, config=outer_config, nested_optimization=inner_plan
        )
    except Exception as exc:  # noqa: BLE001
        return [
            "nested plan: the inner BFGS optimization of the unbounded variable 1 is "
            f"refused because of the bounds of variable 0, which it keeps fixed -> "
            f"{type(exc).__name__}: {exc}"
        ]
    if not sent:
        return ["nested plan: nothing was evaluated"]
    return []


def main():
    failures = part1() + part2()
    if failures:
        print("C09 violated: the back-end sees the masked-out variables:")
        for item in failures:
            print("  -", item)
        return 1
    print("OK: bounds of fixed variables are invisible to the optimization algorithm")
    return 0


if __name__ == "__main__":
    sys.exit(main())
