"""C04 counterexample: cvar-constraint on an equality constraint does not put
the mass on the realizations that are farthest from the target.

The badness of a realization is computed as the rounded floating point
difference max(lower - c, c - upper).  Values whose exact distances to the
target differ, but by less than the spacing of the floating point numbers at
the magnitude of the distance, become equal, and the stable sort then hands
out the mass in index order instead of in order of badness.

Exits 1 on the unmodified sources, 0 if the weights follow the exact distance
to the target.
"""

import sys
from fractions import Fraction

import numpy as np

from ropt.enums import EventType
from ropt.evaluator import EvaluatorResult
from ropt.plan import OptimizerContext, Plan


def evaluate(target, values, percentile):
    """Run one evaluator step, return (constraint weights, reported value)."""
    values = np.asarray(values, dtype=np.float64)
    n = values.size
    config = {
        "variables": {"initial_values": [0.0]},
        "realizations": {"weights": [1.0] * n, "realization_min_success": 1},
        "nonlinear_constraints": {
            "lower_bounds": [target],
            "upper_bounds": [target],  # equality constraint  c == target
            "realization_filters": [0],
        },
        "realization_filters": [
            {
                "method": "cvar-constraint",
                "options": {"sort": 0, "percentile": percentile},
            }
        ],
    }

    def evaluator(variables, context):
        idx = context.realizations
        return EvaluatorResult(
            objectives=np.zeros((variables.shape[0], 1)),
            constraints=values[idx][:, np.newaxis].copy(),
        )

    context = OptimizerContext(evaluator=evaluator)
    results = []
    context.add_observer(
        EventType.FINISHED_EVALUATION,
        lambda event: results.extend(event.data.get("results", ())),
    )
    plan = Plan(context)
    plan.run_step(plan.add_step("evaluator"), config=config)
    (result,) = results
    return (
        np.array(result.realizations.constraint_weights[0]),
        float(result.functions.constraints[0]),
    )


def expected_weights(target, values, percentile):
    """Exact CVaR weights: 1/n on the realizations farthest from the target."""
    n = len(values)
    distance = [abs(Fraction(v) - Fraction(target)) for v in values]
    order = sorted(range(n), key=lambda i: (-distance[i], i))
    weights = [Fraction(0)] * n
    remaining = Fraction(percentile)
    for i in order:
        weights[i] = min(Fraction(1, n), remaining)
        remaining -= weights[i]
        if remaining <= 0:
            break
    return np.array([float(w) for w in weights])


CASES = [
    # (description, target, values, percentile)
    (
        "target 100, values 0.1 + 0.2 and 0.3 (0.3 is farther from 100)",
        100.0,
        [0.1 + 0.2, 0.3],
        0.5,
    ),
    (
        "target 1e6, values 1.00000000005, 1.0 and 2.0 (1.0 is the farthest)",
        1e6,
        [1.00000000005, 1.0, 2.0],
        1.0 / 3.0,
    ),
    (
        "target 1e12, values 1.00005, 1.0, 1.5, 3.0 (1.0, then 1.00005 are the farthest)",
        1e12,
        [1.5, 1.00005, 3.0, 1.0],
        0.25,
    ),
    (
        "target 2.5, values 5.3 and -0.3 (-0.3 is farther from 2.5 than 5.3)",
        2.5,
        [5.3, -0.3],
        0.5,
    ),
]


def main():
    failures = 0
    for description, target, values, percentile in CASES:
        distance = [abs(Fraction(v) - Fraction(target)) for v in values]
        assert len(set(distance)) == len(distance), "distances must be distinct"

        weights, reported = evaluate(target, values, percentile)
        expected = expected_weights(target, values, percentile)
        tail_mean = float(np.dot(expected, values) / expected.sum())

        # The same ensemble with the realizations in reverse order: as all
        # distances differ, the weights must simply follow the realizations.
        reversed_weights, reversed_reported = evaluate(
            target, values[::-1], percentile
        )

        ok = np.allclose(weights, expected, rtol=1e-12, atol=1e-15)
        ok_value = reported == tail_mean or np.isclose(
            reported, tail_mean, rtol=1e-15, atol=0.0
        )
        ok_perm = np.allclose(weights, reversed_weights[::-1], rtol=1e-12, atol=1e-15)
        if ok and ok_value and ok_perm:
            print(f"ok:   {description}")
            continue
        failures += 1
        print(f"FAIL: {description}")
        print(f"      percentile            : {percentile}")
        print(f"      values                : {values}")
        print(f"      exact |value - target|: {[float(d) for d in distance]}")
        print(
            "      differences of exact distances to the largest: "
            f"{[float(max(distance) - d) for d in distance]}"
        )
        print(f"      weights from ropt     : {weights.tolist()}")
        print(f"      expected weights      : {expected.tolist()}")
        print(f"      reported constraint   : {reported!r}")
        print(f"      CVaR tail mean        : {tail_mean!r}")
        print(
            "      weights, realizations reversed (mapped back): "
            f"{reversed_weights[::-1].tolist()} (reported {reversed_reported!r})"
        )
    if failures:
        print(
            f"{failures} of {len(CASES)} cases: the cvar-constraint weights of an "
            "equality constraint are not on the realizations farthest from the target"
        )
        return 1
    print("all cases follow the exact distance to the target")
    return 0


if __name__ == "__main__":
    sys.exit(main())
