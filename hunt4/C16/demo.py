"""C16 counterexample: an interleaved run changes the results of a run.

Optimization A (fixed configuration, fixed gradient seed, deterministic
evaluator) is executed twice, each time on a fresh context, plan and optimizer
step:

  1. alone;
  2. with another optimization B (other configuration, with a variable
     transform and metadata) executed *during* A, on the same plan and with
     the same optimizer step (a re-used plan/step), started from an observer
     of A's second START_EVALUATION event.

B is a complete, independent run: it starts and finishes while A is waiting in
its callback. The property demands that A's evaluator requests, results and
exit code are bit-identical in both cases. They are not: after B finished, the
results that A reports are back-transformed with the transforms of B and carry
the metadata of B, because the optimizer step keeps the settings of "the
current run" in attributes of the step object, which B overwrites.

A second scenario shows that the evaluator requests and the exit code are
affected as well: if A uses a nested optimization and B does not, B resets the
nested plan stored in the step, and A stops with NESTED_OPTIMIZER_FAILED at its
next function evaluation instead of continuing to MAX_FUNCTIONS_REACHED.

Exit code 0: A is identical in both cases, 1: A differs.
"""

from __future__ import annotations

import dataclasses
import sys
from typing import Any

import numpy as np

from ropt.enums import EventType
from ropt.evaluator import EvaluatorContext, EvaluatorResult
from ropt.plan import Event, OptimizerContext, Plan
from ropt.transforms import OptModelTransforms, VariableScaler

CONFIG_A: dict[str, Any] = {
    "variables": {"initial_values": [0.1, -0.2, 0.3]},
    "realizations": {"weights": [1.0, 1.0]},
    "gradient": {
        "number_of_perturbations": 3,
        "perturbation_magnitudes": 0.05,
        "seed": 3,
    },
    "optimizer": {"method": "slsqp", "max_functions": 4},
}

CONFIG_B: dict[str, Any] = {
    "variables": {"initial_values": [0.5, 0.5, 0.5]},
    "gradient": {
        "number_of_perturbations": 2,
        "perturbation_magnitudes": 0.01,
        "seed": 9,
    },
    "optimizer": {"method": "slsqp", "max_functions": 2},
}


def function(variables: np.ndarray, realization: int) -> float:
    return float(np.sum((variables - 0.25 - 0.1 * realization) ** 2))


def dump(obj: Any) -> Any:  # noqa: ANN401
    """Convert results to nested tuples that compare bit by bit."""
    if isinstance(obj, np.ndarray):
        return ("ndarray", str(obj.dtype), obj.shape, obj.tobytes())
    if dataclasses.is_dataclass(obj) and not isinstance(obj, type):
        return (
            type(obj).__name__,
            tuple((f.name, dump(getattr(obj, f.name))) for f in dataclasses.fields(obj)),
        )
    if isinstance(obj, dict):
        return tuple((key, dump(value)) for key, value in obj.items())
    if isinstance(obj, (list, tuple)):
        return tuple(dump(item) for item in obj)
    return obj


def run_a(*, interleave: bool) -> dict[str, Any]:
    """Run optimization A, optionally with run B interleaved, and record A."""
    record: dict[str, Any] = {"requests": [], "results": [], "raw": [], "exit": None}
    state = {"in_b": False, "evaluations_of_a": 0}

    def evaluator(variables: np.ndarray, context: EvaluatorContext) -> EvaluatorResult:
        # A deterministic evaluator: the values only depend on the variables
        # and the realization.
        if not state["in_b"]:
            record["requests"].append(
                (variables.tobytes(), np.asarray(context.realizations).tobytes())
            )
        objectives = np.array(
            [
                [function(variables[idx], int(context.realizations[idx]))]
                for idx in range(variables.shape[0])
            ]
        )
        return EvaluatorResult(objectives=objectives)

    context = OptimizerContext(evaluator=evaluator)
    plan = Plan(context)
    step = plan.add_step("optimizer")

    def start_evaluation(_: Event) -> None:
        if state["in_b"]:
            return
        state["evaluations_of_a"] += 1
        if interleave and state["evaluations_of_a"] == 2:
            # Another optimization, executed while A is in progress, re-using
            # the plan and its optimizer step:
            state["in_b"] = True
            plan.run_step(
                step,
                config=CONFIG_B,
                transforms=OptModelTransforms(
                    variables=VariableScaler(np.array([2.0, 2.0, 2.0]), None)
                ),
                metadata={"run": "B"},
            )
            state["in_b"] = False

    def finished_evaluation(event: Event) -> None:
        if not state["in_b"]:
            record["results"].append(dump(tuple(event.data["results"])))
            record["raw"].append(tuple(event.data["results"]))

    context.add_observer(EventType.START_EVALUATION, start_evaluation)
    context.add_observer(EventType.FINISHED_EVALUATION, finished_evaluation)

    # The global NumPy generator is irrelevant, but reseed it anyway:
    np.random.seed(12345 if interleave else 1)  # noqa: NPY002

    record["exit"] = plan.run_step(step, config=CONFIG_A)
    return record


def run_a_nested(*, interleave: bool) -> tuple[list[Any], Any]:
    """Second scenario: A uses a nested optimization, B does not."""
    requests: list[Any] = []
    state = {"in_b": False, "evaluations_of_a": 0}

    def evaluator(variables: np.ndarray, context: EvaluatorContext) -> EvaluatorResult:
        if not state["in_b"]:
            requests.append(variables.tobytes())
        objectives = np.array(
            [
                [function(variables[idx], int(context.realizations[idx]))]
                for idx in range(variables.shape[0])
            ]
        )
        return EvaluatorResult(objectives=objectives)

    context = OptimizerContext(evaluator=evaluator)
    plan = Plan(context)
    step = plan.add_step("optimizer")

    nested_plan = Plan(context)
    nested_step = nested_plan.add_step("optimizer")
    nested_tracker = nested_plan.add_handler("tracker", sources={nested_step})
    nested_config = {
        **CONFIG_B,
        "variables": {"initial_values": [0, 0, 0], "mask": [False, True, False]},
    }

    def nested_function(nested: Plan, variables: np.ndarray) -> Any:  # noqa: ANN401
        nested.set(nested_tracker, "results", None)
        nested.run_step(nested_step, config=nested_config, variables=variables)
        return nested.get(nested_tracker, "results")

    nested_plan.add_function(nested_function)

    def start_evaluation(event: Event) -> None:
        if state["in_b"] or event.source != step:
            return
        state["evaluations_of_a"] += 1
        if interleave and state["evaluations_of_a"] == 2:
            state["in_b"] = True
            plan.run_step(step, config=CONFIG_B)
            state["in_b"] = False

    context.add_observer(EventType.START_EVALUATION, start_evaluation)
    config = {
        **CONFIG_A,
        "variables": {"initial_values": [0.1, -0.2, 0.3], "mask": [True, False, True]},
    }
    exit_code = plan.run_step(step, config=config, nested_optimization=nested_plan)
    return requests, exit_code


def main() -> int:
    alone = run_a(interleave=False)
    interleaved = run_a(interleave=True)

    failed = False

    requests1, exit1 = run_a_nested(interleave=False)
    requests2, exit2 = run_a_nested(interleave=True)
    if requests1 != requests2 or exit1 != exit2:
        failed = True
        print("run A with a nested optimization differs:")
        print(f"  alone:       {len(requests1)} evaluator requests, exit code {exit1!r}")
        print(f"  interleaved: {len(requests2)} evaluator requests, exit code {exit2!r}")

    if alone["requests"] != interleaved["requests"]:
        print("the evaluator requests of run A differ")
        failed = True
    if alone["exit"] != interleaved["exit"]:
        print(f"the exit codes of run A differ: {alone['exit']} / {interleaved['exit']}")
        failed = True
    if alone["results"] != interleaved["results"]:
        failed = True
        print("the results reported for run A differ:")
        for idx, (item1, item2) in enumerate(
            zip(alone["results"], interleaved["results"], strict=False)
        ):
            if item1 != item2:
                raw1 = alone["raw"][idx][0]
                raw2 = interleaved["raw"][idx][0]
                print(f"  evaluation {idx} of run A (B ran before evaluation 1):")
                print(f"    alone:       variables = {raw1.evaluations.variables}, "
                      f"metadata = {raw1.metadata}")
                print(f"    interleaved: variables = {raw2.evaluations.variables}, "
                      f"metadata = {raw2.metadata}")
                break
        if len(alone["results"]) != len(interleaved["results"]):
            print("  different number of results")
    if failed:
        print("FAIL: run A is not reproducible when another run is interleaved")
        return 1
    print("OK: run A is identical with and without the interleaved run")
    return 0


if __name__ == "__main__":
    sys.exit(main())
