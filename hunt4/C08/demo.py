"""C08 counterexample: an unsupported constraint kind is not rejected when mixed.

The SciPy plug-in declares that COBYLA does not support equality constraints
(`_CONSTRAINT_SUPPORT_LINEAR_EQ` / `_CONSTRAINT_SUPPORT_NONLINEAR_EQ` in
ropt/plugins/optimizer/scipy.py, and "COBYLA (only inequality)" in the class
documentation). A configuration that holds only equality constraints is indeed
rejected with NotImplementedError. The very same equality constraint is accepted
without complaint as soon as the configuration holds any other constraint next
to it - a lower-only, upper-only or two-sided one, or even an unbounded
(-inf, +inf) one that constrains nothing.

The script exits 1 if a constraint kind that the plug-in rejects on its own is
accepted in a mixture, 0 otherwise (either every mixture is rejected as well, or
the kind is not rejected at all, i.e. it is declared supported).
"""

import sys
import warnings

import numpy as np

from ropt.evaluator import EvaluatorResult
from ropt.plan import BasicOptimizer

warnings.simplefilter("ignore")

INF = np.inf
EQ = (1.0, 1.0)
COMPANIONS = {
    "lower-only": (0.0, INF),
    "upper-only": (-INF, 5.0),
    "two-sided": (0.0, 5.0),
    "unbounded": (-INF, INF),
}


def evaluator(variables, context):
    objectives = np.sum((variables - 0.3) ** 2, axis=1, keepdims=True)
    config = context.config.nonlinear_constraints
    constraints = None
    if config is not None:
        count = config.lower_bounds.size
        constraints = np.stack(
            [variables.sum(axis=1) * (idx + 1) for idx in range(count)], axis=1
        )
    return EvaluatorResult(objectives=objectives, constraints=constraints)


def rejected(family, bounds):
    """Run COBYLA with the given constraints, report if they are rejected."""
    lower = [item[0] for item in bounds]
    upper = [item[1] for item in bounds]
    config = {
        "variables": {"initial_values": [0.0, 0.1, 0.2]},
        "optimizer": {"method": "scipy/cobyla", "max_iterations": 3, "options": {}},
    }
    if family == "nonlinear":
        config["nonlinear_constraints"] = {
            "lower_bounds": lower,
            "upper_bounds": upper,
        }
    else:
        config["linear_constraints"] = {
            "coefficients": [[1.0, 1.0, 1.0], [1.0, -1.0, 2.0]][: len(bounds)],
            "lower_bounds": lower,
            "upper_bounds": upper,
        }
    try:
        BasicOptimizer(config, evaluator).run()
    except NotImplementedError as exc:
        return True, str(exc)
    return False, ""


def main():
    violations = []
    for family in ("nonlinear", "linear"):
        alone, msg = rejected(family, [EQ])
        print(f"{family}: equality constraint alone -> rejected={alone} {msg}")
        if not alone:
            # Equality constraints are (now) declared supported: nothing to check.
            continue
        for name, companion in COMPANIONS.items():
            for order in ([EQ, companion], [companion, EQ]):
                mixed, msg = rejected(family, order)
                print(
                    f"{family}: bounds {order} (equality + {name})"
                    f" -> rejected={mixed} {msg}"
                )
                if not mixed:
                    violations.append((family, name, order))
    if violations:
        print()
        print(
            "VIOLATION: COBYLA rejects an equality constraint when it is the only"
            " kind configured, but accepts the same unsupported kind in"
            f" {len(violations)} mixed configurations, e.g. {violations[0]}"
        )
        return 1
    print("OK: unsupported constraint kinds are rejected consistently")
    return 0


if __name__ == "__main__":
    sys.exit(main())
