"""C01 counterexample: an objective with weight zero that is used as the sort key
of a realization filter does not rank the realizations.

Two objectives, objective weights [1, 0]. Objective 1 carries no weight in the
weighted objective, it only serves as the criterion of a `sort-objective`
(or `cvar-objective`) realization filter that is mapped to objective 0
(objective 1 itself has the 'no filter' entry -1).

The filter is documented to sort the realizations "according to the value of
one or multiple objectives"; a weighted sum is only formed "if more than one
objective index is given". Exactly one index is given here, so the
realizations must be ranked by the values the evaluator returned for
objective 1, and objective 0 must be reported as the normalized weighted mean
over the realizations selected that way.

The library multiplies the single sort key by its objective weight (0.0), all
keys become equal, the stable sort falls back to the realization index and the
wrong realizations get the weight. The reported value of objective 0 therefore
depends on the *objective weight* of another function, which must only
influence the weighted objective.

Exit code 1: property violated (current sources); 0: behaves as specified.
"""

import sys

import numpy as np

from ropt.enums import EventType
from ropt.evaluator import EvaluatorResult
from ropt.plan import OptimizerContext, Plan

# Per-realization values: column 0 = objective 0, column 1 = objective 1 (the
# ranking criterion). All finite, no failures, no ties.
VALUES = np.array(
    [
        [1.0, 5.0],
        [2.0, 1.0],
        [3.0, 9.0],
        [4.0, 3.0],
    ]
)
REALIZATION_WEIGHTS = np.array([0.25, 0.25, 0.25, 0.25])


def evaluator(variables, context):
    return EvaluatorResult(objectives=VALUES[np.asarray(context.realizations)].copy())


def evaluate(objective_weights, filter_config):
    results = []
    context = OptimizerContext(evaluator=evaluator).add_observer(
        EventType.FINISHED_EVALUATION,
        lambda event: results.extend(event.data["results"]),
    )
    plan = Plan(context)
    step = plan.add_step("evaluator")
    plan.run_step(
        step,
        config={
            "variables": {"initial_values": [0.0]},
            "objectives": {
                "weights": objective_weights,
                # objective 0 uses filter 0, objective 1 is not filtered:
                "realization_filters": [0, -1],
            },
            "realizations": {"weights": REALIZATION_WEIGHTS.tolist()},
            "realization_filters": [filter_config],
        },
    )
    assert len(results) == 1
    assert results[0].functions is not None
    return results[0]


def expected_sort(first, last):
    # Independent oracle: rank by the value of objective 1, keep ranks
    # first..last, use the configured weights of those, renormalize.
    order = sorted(range(len(VALUES)), key=lambda r: (VALUES[r, 1], r))
    weights = np.zeros(len(VALUES))
    for r in order[first : last + 1]:
        weights[r] = REALIZATION_WEIGHTS[r]
    return weights / weights.sum()


def expected_cvar(percentile):
    # Independent oracle: the worst (largest) values of objective 1 get the
    # weight, with the fractional realization at the end of the tail.
    order = sorted(range(len(VALUES)), key=lambda r: (-VALUES[r, 1], r))
    n = len(order)
    weights = np.zeros(n)
    mass = percentile * n
    for r in order[: int(mass)]:
        weights[r] = 1.0 / n
    if int(mass) < n and mass - int(mass) > 0:
        weights[order[int(mass)]] = (mass - int(mass)) / n
    return weights / weights.sum()


def main():
    failures = []
    cases = [
        (
            "sort-objective",
            {"method": "sort-objective", "options": {"sort": [1], "first": 0, "last": 1}},
            expected_sort(0, 1),
        ),
        (
            "cvar-objective",
            {"method": "cvar-objective", "options": {"sort": [1], "percentile": 0.5}},
            expected_cvar(0.5),
        ),
    ]
    for name, filter_config, weights in cases:
        expected_obj0 = float(np.dot(VALUES[:, 0], weights))
        expected_obj1 = float(np.dot(VALUES[:, 1], REALIZATION_WEIGHTS))
        reported = {}
        for objective_weights in ([1.0, 1.0], [1.0, 1e-6], [1.0, 0.0]):
            result = evaluate(objective_weights, filter_config)
            objectives = result.functions.objectives
            normalized = np.array(objective_weights) / np.sum(objective_weights)
            expected_weighted = float(
                normalized[0] * expected_obj0 + normalized[1] * expected_obj1
            )
            reported[tuple(objective_weights)] = objectives[0]
            print(
                f"{name}, objective weights {objective_weights}: "
                f"objective 0 = {objectives[0]} (expected {expected_obj0}), "
                f"objective 1 = {objectives[1]} (expected {expected_obj1}), "
                f"weighted = {float(result.functions.weighted_objective)} "
                f"(expected {expected_weighted}), "
                f"filter weights = {result.realizations.objective_weights[0]}"
            )
            if not np.isclose(objectives[0], expected_obj0, rtol=1e-12, atol=0.0):
                failures.append(
                    f"{name}, objective weights {objective_weights}: objective 0 "
                    f"is {objectives[0]}, but the mean over the realizations "
                    f"selected by ranking objective 1 is {expected_obj0}"
                )
            if not np.isclose(objectives[1], expected_obj1, rtol=1e-12, atol=0.0):
                failures.append(f"{name}: objective 1 is {objectives[1]}")
            if not np.isclose(
                result.functions.weighted_objective,
                expected_weighted,
                rtol=1e-12,
                atol=0.0,
            ):
                failures.append(
                    f"{name}, objective weights {objective_weights}: weighted "
                    f"objective is {float(result.functions.weighted_objective)}, "
                    f"expected {expected_weighted}"
                )
        if len({round(float(v), 12) for v in reported.values()}) != 1:
            failures.append(
                f"{name}: the value of objective 0 depends on the objective "
                f"weight of objective 1: {reported}"
            )

    if failures:
        print("\nPROPERTY VIOLATED:")
        for failure in failures:
            print("  -", failure)
        return 1
    print("\nOK: the function values follow the documented filter ranking.")
    return 0


if __name__ == "__main__":
    sys.exit(main())
