"""C14 counterexample: an optimizer step exceeds its max_functions budget.

An optimizer step is run with `max_functions = 3` and a nested optimization
(the documented `nested_optimization` argument of the optimizer step), using a
sequential (non-parallel) SciPy method and an evaluator that never fails. The
step itself delivers more than 3 function evaluations (FunctionResults with the
step as their source), although the property promises that the number of
function evaluations never exceeds max_functions for non-parallel methods.

Exit code 1: property violated (printed), exit code 0: budget respected.
"""

import sys

import numpy as np

from ropt.enums import EventType, OptimizerExitCode
from ropt.evaluator import EvaluatorResult
from ropt.plan import OptimizerContext, Plan
from ropt.results import FunctionResults

MAX_FUNCTIONS = 3
TARGET = np.array([0.5, 0.5, 0.5])


def evaluator(variables, context):
    # One realization, one objective, never fails:
    objectives = ((variables - TARGET) ** 2).sum(axis=1, keepdims=True)
    return EvaluatorResult(objectives=objectives)


def config(mask, method, max_functions):
    return {
        "variables": {"initial_values": [0.0, 0.2, 0.1], "mask": mask},
        "gradient": {"perturbation_magnitudes": 0.01, "number_of_perturbations": 3},
        "optimizer": {"method": method, "max_functions": max_functions},
    }


def main() -> int:
    outer_config = config([True, False, True], "l-bfgs-b", MAX_FUNCTIONS)
    # The nested optimization has a small budget, as is usual. It improves the
    # second variable a bit each time it is run:
    inner_config = config([False, True, False], "nelder-mead", 4)

    context = OptimizerContext(evaluator=evaluator)

    inner_plan = Plan(context)
    inner_step = inner_plan.add_step("optimizer")
    inner_tracker = inner_plan.add_handler("tracker", sources={inner_step})

    def inner_function(plan, variables):
        plan.run_step(inner_step, config=inner_config, variables=variables)
        return plan.get(inner_tracker, "results")

    inner_plan.add_function(inner_function)

    outer_plan = Plan(context)
    outer_step = outer_plan.add_step("optimizer")

    outer_functions = []

    def observer(event):
        if event.source == outer_step:
            outer_functions.extend(
                item.evaluations.variables
                for item in event.data["results"]
                if isinstance(item, FunctionResults)
            )

    context.add_observer(EventType.FINISHED_EVALUATION, observer)

    exit_code = outer_plan.run_step(
        outer_step, config=outer_config, nested_optimization=inner_plan
    )

    print(f"exit code of the outer optimizer step: {exit_code!r}")
    print(f"max_functions of the outer optimizer step: {MAX_FUNCTIONS}")
    print(f"function evaluations done by the outer optimizer step: {len(outer_functions)}")
    for variables in outer_functions:
        print("   at", variables)

    if exit_code not in (
        OptimizerExitCode.MAX_FUNCTIONS_REACHED,
        OptimizerExitCode.OPTIMIZER_STEP_FINISHED,
    ):
        print("VIOLATION: unexpected exit code")
        return 1
    if len(outer_functions) > MAX_FUNCTIONS:
        print(
            "VIOLATION: the step evaluated more functions than max_functions "
            "allows (method is not parallel)"
        )
        return 1
    print("OK: the function budget was respected")
    return 0


if __name__ == "__main__":
    sys.exit(main())
