#!/venv/bin/python
"""Confirm a seeded change produced in a scratch worktree and store it under /verif/seeded/<id>/.

usage: tools/ingest_seeded.py <property> <worktree> <id> "<what it needs to manifest>"
Confirms: (1) the pinned test suite passes with the change, (2) demo.py exits 1 with the change and
0 without it; then copies patch.diff + demo.py and writes meta.json."""
import json
import os
import shutil
import subprocess
import sys
from pathlib import Path

ROOT = Path(__file__).resolve().parent.parent


def sh(cmd, cwd, env=None, timeout=900):
    e = dict(os.environ)
    e.update(env or {})
    p = subprocess.run(cmd, shell=True, cwd=cwd, env=e, capture_output=True, text=True, timeout=timeout)
    return p.returncode, (p.stdout + p.stderr)


def main():
    prop, wt, sid, needs = sys.argv[1], sys.argv[2], sys.argv[3], sys.argv[4]
    env = {"PYTHONPATH": f"{wt}/src", "PATH": "/venv/bin:" + os.environ["PATH"]}
    sh("git checkout -q -- src", wt)
    rc, out = sh("git apply --check patch.diff", wt)
    assert rc == 0, "patch does not apply to a clean tree: " + out
    rc0, out0 = sh("timeout 300 /venv/bin/python demo.py", wt, env)
    sh("git apply patch.diff", wt)
    rct, outt = sh("/venv/bin/python -m pytest -q -p no:cacheprovider 2>&1 | tail -1", wt, env)
    rc1, out1 = sh("timeout 300 /venv/bin/python demo.py", wt, env)
    tests_ok = "209 passed" in outt and "failed" not in outt
    print(f"tests with change: {outt.strip()}\ndemo without change: exit {rc0}\ndemo with change: exit {rc1}")
    ok = tests_ok and rc0 == 0 and rc1 == 1
    if not ok:
        print("NOT CONFIRMED")
        return 1
    dest = ROOT / "seeded" / sid
    dest.mkdir(parents=True, exist_ok=True)
    shutil.copy(Path(wt) / "patch.diff", dest / "patch.diff")
    shutil.copy(Path(wt) / "demo.py", dest / "demo.py")
    meta = {
        "property": prop,
        "needs_to_manifest": needs,
        "base_commit": sh("git rev-parse --short HEAD", wt)[1].strip(),
        "confirmed": {
            "test_suite_with_change": outt.strip(),
            "demo_without_change_exit": rc0,
            "demo_with_change_exit": rc1,
            "demo_with_change_output_tail": out1.strip().splitlines()[-6:],
            "commands": [
                "cd <worktree> && PYTHONPATH=<worktree>/src /venv/bin/python -m pytest -q -p no:cacheprovider",
                "cd <worktree> && PATH=/venv/bin:$PATH PYTHONPATH=<worktree>/src /venv/bin/python demo.py",
            ],
        },
        "expect": "violation",
    }
    (dest / "meta.json").write_text(json.dumps(meta, indent=1))
    print("stored in", dest)
    return 0


if __name__ == "__main__":
    sys.exit(main())
