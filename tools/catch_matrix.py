#!/venv/bin/python
"""Regenerate Appendix C of DESIGN.md (which checks catch which changes) from
selftest/last_sensitivity.txt, mutants/catalogue.json and seeded/*/meta.json."""
import json
import re
from pathlib import Path

ROOT = Path(__file__).resolve().parent.parent
res = {}
for line in (ROOT / "selftest" / "last_sensitivity.txt").read_text().splitlines():
    m = re.match(r"\s*(\S+)\s+(C\d+)\s+expect=(\S+)\s+got=(\S+)\s+(OK|MISS)\s+\S+\s+clauses=(.*)", line)
    if m:
        res[(m.group(1), m.group(2))] = {"expect": m.group(3), "got": m.group(4), "ok": m.group(5) == "OK", "clauses": m.group(6)}
cat = json.loads((ROOT / "mutants" / "catalogue.json").read_text())
rows = []
for m in cat:
    r = res.get((m["id"], m["property"]))
    what = m.get("note") or (f"revert of fix commit {m['revert']}" if "revert" in m else f"`{m['file']}`: `{m['old'].strip().splitlines()[0][:60]}` -> `{(m['new'].strip().splitlines() or ['(removed)'])[0][:60]}`")
    if "revert" in m:
        what = f"revert of fix commit {m['revert']} (the original defect)"
    rows.append((m["id"], m["property"], what, m.get("expect", "violation"), r))
for d in sorted((ROOT / "seeded").glob("*/meta.json")):
    meta = json.loads(d.read_text())
    r = res.get((d.parent.name, meta["property"]))
    if meta.get("expect") == "clean":
        what = "behaviour-preserving refactoring by an independent sub-agent (no-alarm control; also run against every other check by selftest/benign_all.py)"
    else:
        what = "independent sub-agent change; needs: " + meta.get("needs_to_manifest", "").replace("|", "/").replace("\n", " ")
    if meta.get("stale_since"):
        what += " [stale: " + meta["stale_since"][:90] + "...]"
    rows.append((d.parent.name, meta["property"], what, meta.get("expect", "violation"), r))
out = ["| change | property / check | what it is | expected | result | clauses reporting it |", "|---|---|---|---|---|---|"]
for cid, prop, what, expect, r in rows:
    if r is None:
        out.append(f"| {cid} | {prop} | {what} | {expect} | (not run: stale) | |")
    else:
        out.append(f"| {cid} | {prop} | {what} | {expect} | {r['got']} {'OK' if r['ok'] else '**MISS**'} | {r['clauses']} |")
text = "\n".join(out)
n_ok = sum(1 for *_, r in rows if r and r["ok"])
n = sum(1 for *_, r in rows if r)
p = ROOT / "DESIGN.md"
s = p.read_text()
begin, end = "<!-- CATCH-MATRIX-BEGIN -->", "<!-- CATCH-MATRIX-END -->"
block = f"{begin}\n{n_ok} of {n} changes give the expected verdict in the quick tier (mutants are applied to a scratch copy of `/repo/src`; `selftest/sensitivity.py`).\n\n{text}\n{end}"
if begin in s:
    s = s[: s.index(begin)] + block + s[s.index(end) + len(end):]
else:
    s += "\n\n## Appendix C. Which checks catch which changes\n\n" + block + "\n"
p.write_text(s)
print(n_ok, "of", n)
