#!/venv/bin/python
"""Re-base stored seeded patches whose context was touched by later fix: commits in /repo.
Only context/removed lines are rewritten (the textual substitutions below mirror the fixes); the added
lines - the seeded change itself - stay as they are.  The original is kept as patch.orig.diff."""
import re, shutil, subprocess, sys, tempfile, json
from pathlib import Path
ROOT = Path(__file__).resolve().parent.parent
SUBS = [("np.allclose(variables, self._cached_variables)", "np.array_equal(variables, self._cached_variables)")]

def applies(patch: Path, fuzz: bool) -> bool:
    d = Path(tempfile.mkdtemp())
    try:
        shutil.copytree("/repo/src", d / "src")
        r = subprocess.run(["patch", "-p1", "-s", "-d", str(d), "-i", str(patch)] + (["-F3"] if fuzz else ["-F0"]), capture_output=True, text=True)
        return r.returncode == 0
    finally:
        shutil.rmtree(d, ignore_errors=True)

for pd in sorted((ROOT / "seeded").glob("*/patch.diff")):
    if applies(pd, False):
        continue
    text = pd.read_text()
    out = []
    for line in text.splitlines(keepends=True):
        if line[:1] in (" ", "-") and not line.startswith("---"):
            for a, b in SUBS:
                line = line.replace(a, b)
        out.append(line)
    new = pd.with_name("patch.rebased.diff")
    new.write_text("".join(out))
    ok = applies(new, True)
    print(pd.parent.name, "rebased" if ok else "STILL FAILS")
    if ok:
        # regenerate a clean diff against the current tree
        d = Path(tempfile.mkdtemp())
        shutil.copytree("/repo/src", d / "a" / "src"); shutil.copytree("/repo/src", d / "b" / "src")
        subprocess.run(["patch", "-p1", "-s", "-F3", "-d", str(d / "b"), "-i", str(new)], check=True)
        for junk in (d / "b").rglob("*.orig"):
            junk.unlink()
        r = subprocess.run(["diff", "-ruN", "a/src", "b/src"], cwd=d, capture_output=True, text=True)
        if not (pd.with_name("patch.orig.diff")).exists():
            shutil.copy(pd, pd.with_name("patch.orig.diff"))
        pd.write_text(r.stdout)
        shutil.rmtree(d, ignore_errors=True)
        meta = json.loads((pd.parent / "meta.json").read_text())
        head = subprocess.run(["git", "-C", "/repo", "log", "--format=%h", "-1"], capture_output=True, text=True).stdout.strip()
        meta["rebased_onto"] = head
        (pd.parent / "meta.json").write_text(json.dumps(meta, indent=1))
    new.unlink(missing_ok=True)
