#!/venv/bin/python
"""Regenerate MANIFEST.json from the check modules that exist (checks/cXX.py with CLAIMED=True
default) and the fixed list of properties."""
import importlib
import json
import sys
from pathlib import Path

ROOT = Path(__file__).resolve().parent.parent
sys.path.insert(0, str(ROOT))

props = [json.loads(l) for l in (ROOT / "properties.jsonl").read_text().splitlines() if l.strip()]
NA = {
    "C18": "Validation is a stateless function of a configuration dictionary: no fault, schedule, carried state or second "
           "party occurs in the statement or quantifier, so deterministic simulation has nothing to control; deciding it "
           "would be input generation dressed as simulation (DESIGN.md section 4, C18).",
}
checks = []
not_applicable = []
for p in props:
    pid = p["id"]
    modpath = ROOT / "checks" / f"{pid.lower()}.py"
    if pid in NA or not modpath.exists():
        not_applicable.append({"property_id": pid, "reason": NA.get(pid, "check not built yet in this revision of /verif (planned, see DESIGN.md section 4)")})
        continue
    mod = importlib.import_module(f"checks.{pid.lower()}")
    checks.append({
        "property_id": pid,
        "quick_cmd": f"./check {pid} --tier quick",
        "thorough_cmd": f"./check {pid} --tier thorough",
        "evidence_file": f"/verif/evidence/{pid}.json",
        "replay_cmd_template": f"./check {pid} --replay {{path}}",
        "engine": "ropt-dst",
        "level_claimed": {
            "category": mod.LEVEL,
            "text": getattr(mod, "LEVEL_TEXT", mod.__doc__.strip().split("\n\n", 1)[-1].replace("\n", " ")),
            "design_ref": f"DESIGN.md section 4, {pid}",
        },
        "level_note": "; ".join(getattr(mod, "ASSUMPTIONS", [])),
        "technique": getattr(mod, "TECHNIQUE", "deterministic simulation with fault injection: seeded search over simulated runs, oracle = executable reference model"),
    })

manifest = {
    "version": 1,
    "setup_cmd": "/venv/bin/python -m compileall -q sim checks selftest tools && ./check --help >/dev/null && selftest/kernel_conformance.py 300",
    "hooks": {
        "guard": "ROPT_VERIF",
        "enable": "no hooks in /repo: all seams are public plug-in points, caller-supplied callables, or library functions "
                  "patched inside simulation workers only; checks import ropt from /repo/src (editable install in /venv)",
        "baseline_off_cmd": "cd /repo && /venv/bin/python -m pytest -ra -q -p no:cacheprovider --timeout=900 --continue-on-collection-errors",
        "source_commits": [],
        "add_only": True,
    },
    "engines": [{
        "name": "ropt-dst",
        "path": "/verif/sim",
        "serves_properties": [c["property_id"] for c in checks],
        "kind_free_text": "deterministic simulator: seeded scenario generator, SimEvaluator (fault plan), scripted/fake back-ends, "
                          "recording handlers, reference model, ddmin shrinker, replay files, fork-pool batch runner",
    }],
    "checks": checks,
    "not_applicable": not_applicable,
    "notes": "Exit codes: 0 = held on everything explored, 1 = VIOLATION (replay file written and re-verified in a fresh "
             "interpreter), 2 = HARNESS-ERROR (never a verdict). known_findings.json lists recorded genuine defects and fix: commits.",
}
(ROOT / "MANIFEST.json").write_text(json.dumps(manifest, indent=1) + "\n")
print(f"claimed={len(checks)} not_applicable={len(not_applicable)}")
